(* C11 — "each world axis appears ... with the CTYPE of its physical type".

   gwcs/coordinate_frames.py builds UCD1_TO_CTYPE once, at import, by inverting astropy's CTYPE -> physical type table
   (`_ucd1_to_ctype_name_mapping`), and `get_ctype_from_ucd` looks a physical type up in it ('' when absent); `_to_fits_tab`
   writes that name, padded, in front of '-TAB'.  The inversion is a loop over the table in dictionary order with a side table
   of allowed duplicates.  Model: keywords and physical types are interned as integers, a dict is an association list in
   insertion order.  Theorems (any table, any length): the inverted table has one entry per physical type of the table and no
   other; the CTYPE recorded for a physical type maps back to that physical type in the table it was built from (so a reader
   using astropy's own table recovers the physical type the WCS declared); without an allowed-duplicate entry it is the first
   keyword carrying that physical type; an unknown physical type gets the empty name. *)
From Coq Require Import List ZArith Bool Lia.
Import ListNotations.
Open Scope Z_scope.

Definition dict := list (Z * Z).

Fixpoint lookup (d : dict) (k : Z) : option Z :=
  match d with
  | [] => None
  | (k', v) :: r => if Z.eqb k' k then Some v else lookup r k
  end.

(* one pass of the `for kwd, ucd in ctype_to_ucd.items()` loop over the remaining items, `inv` is inv_map so far *)
Fixpoint inv_from (allowed : dict) (inv : dict) (items : dict) : dict :=
  match items with
  | [] => inv
  | (kwd, ucd) :: r =>
      match lookup inv ucd with
      | Some _ => inv_from allowed inv r                                   (* `if ucd in inv_map: ... continue` *)
      | None =>
          match lookup allowed ucd with
          | Some c => inv_from allowed (inv ++ [(ucd, c)]) r                (* inv_map[ucd] = allowed_ucd_duplicates[ucd] *)
          | None => inv_from allowed (inv ++ [(ucd, kwd)]) r                (* inv_map[ucd] = kwd *)
          end
      end
  end.

Definition inv_map (ctype_to_ucd allowed : dict) : dict := inv_from allowed [] ctype_to_ucd.

(* get_ctype_from_ucd: None stands for the empty string *)
Definition get_ctype (inv : dict) (ucd : Z) : option Z := lookup inv ucd.

(* the side table names, for each physical type it lists, a keyword that the table maps to that physical type *)
Definition allowed_consistent (t allowed : dict) : bool :=
  forallb (fun p => match lookup t (snd p) with Some u => Z.eqb u (fst p) | None => false end) allowed.

Fixpoint keys_unique (d : dict) : bool :=
  match d with
  | [] => true
  | (k, _) :: r => match lookup r k with None => keys_unique r | Some _ => false end
  end.

(* ---- lookup lemmas ------------------------------------------------------------------------------ *)
Lemma lookup_app d k v k' :
  lookup (d ++ [(k, v)]) k' = match lookup d k' with Some x => Some x | None => if Z.eqb k k' then Some v else None end.
Proof.
  induction d as [|[a b] d IH]; simpl; [reflexivity|]. destruct (Z.eqb a k'); [reflexivity|exact IH].
Qed.

Lemma lookup_in d k v : lookup d k = Some v -> In (k, v) d.
Proof.
  induction d as [|[a b] d IH]; simpl; [discriminate|]. destruct (Z.eqb a k) eqn:E.
  - intros H; inversion H; subst. apply Z.eqb_eq in E; subst. left; reflexivity.
  - intros H; right; apply IH; exact H.
Qed.

Lemma in_lookup_unique d k v : keys_unique d = true -> In (k, v) d -> lookup d k = Some v.
Proof.
  induction d as [|[a b] d IH]; simpl; [tauto|]. intros U [H|H].
  - inversion H; subst. rewrite Z.eqb_refl. reflexivity.
  - destruct (lookup d a) eqn:La; [discriminate|]. destruct (Z.eqb a k) eqn:E.
    + apply Z.eqb_eq in E; subst. rewrite (IH U H) in La. discriminate.
    + apply IH; assumption.
Qed.

Lemma lookup_allowed_consistent t a u c : allowed_consistent t a = true -> lookup a u = Some c -> lookup t c = Some u.
Proof.
  unfold allowed_consistent. intros H L. apply lookup_in in L. rewrite forallb_forall in H. specialize (H _ L). simpl in H.
  destruct (lookup t c) as [u'|]; [|discriminate]. apply Z.eqb_eq in H. subst. reflexivity.
Qed.

(* ---- the loop keeps what is already recorded ----------------------------------------------------- *)
Lemma inv_from_keeps a items : forall inv u c, lookup inv u = Some c -> lookup (inv_from a inv items) u = Some c.
Proof.
  induction items as [|[kwd ucd] r IH]; simpl; intros inv u c H; [exact H|].
  destruct (lookup inv ucd) eqn:Li; [apply IH; exact H|].
  destruct (lookup a ucd); apply IH; rewrite lookup_app, H; reflexivity.
Qed.

(* ---- totality: every physical type of the table gets a name -------------------------------------- *)
Lemma inv_from_total a items : forall inv kwd u, In (kwd, u) items -> exists c, lookup (inv_from a inv items) u = Some c.
Proof.
  induction items as [|[k0 u0] r IH]; simpl; intros inv kwd u H; [tauto|].
  destruct H as [H|H].
  - inversion H; subst. destruct (lookup inv u) eqn:Li.
    + exists z. apply inv_from_keeps. exact Li.
    + destruct (lookup a u) as [c|].
      * exists c. apply inv_from_keeps. rewrite lookup_app, Li, Z.eqb_refl. reflexivity.
      * exists kwd. apply inv_from_keeps. rewrite lookup_app, Li, Z.eqb_refl. reflexivity.
  - destruct (lookup inv u0); [eapply IH; exact H|]. destruct (lookup a u0); eapply IH; exact H.
Qed.

Theorem inv_total t a kwd u : In (kwd, u) t -> exists c, get_ctype (inv_map t a) u = Some c.
Proof. apply inv_from_total. Qed.

(* ---- soundness: a recorded name maps back to the physical type ----------------------------------- *)
Lemma inv_from_sound t a : keys_unique t = true -> allowed_consistent t a = true ->
  forall items inv, incl items t ->
  (forall u c, lookup inv u = Some c -> lookup t c = Some u) ->
  forall u c, lookup (inv_from a inv items) u = Some c -> lookup t c = Some u.
Proof.
  intros U A. induction items as [|[kwd ucd] r IH]; simpl; intros inv Hin I u c H; [apply I; exact H|].
  assert (Hr : incl r t) by (intros x Hx; apply Hin; right; exact Hx).
  destruct (lookup inv ucd) eqn:Li; [eapply IH; eauto|].
  destruct (lookup a ucd) as [c0|] eqn:La.
  - eapply IH; [exact Hr| |exact H]. intros u' c'. rewrite lookup_app. destruct (lookup inv u') eqn:L'.
    + intros E; inversion E; subst. apply I; exact L'.
    + destruct (Z.eqb ucd u') eqn:E; [|discriminate]. intros E'; inversion E'; subst. apply Z.eqb_eq in E; subst.
      eapply lookup_allowed_consistent; eauto.
  - eapply IH; [exact Hr| |exact H]. intros u' c'. rewrite lookup_app. destruct (lookup inv u') eqn:L'.
    + intros E; inversion E; subst. apply I; exact L'.
    + destruct (Z.eqb ucd u') eqn:E; [|discriminate]. intros E'; inversion E'; subst. apply Z.eqb_eq in E; subst.
      apply in_lookup_unique; [exact U|]. apply Hin. left; reflexivity.
Qed.

Theorem ctype_maps_back t a u c : keys_unique t = true -> allowed_consistent t a = true ->
  get_ctype (inv_map t a) u = Some c -> lookup t c = Some u.
Proof.
  intros U A H. eapply (inv_from_sound t a U A t []); [apply incl_refl| |exact H]. intros ? ? E; discriminate E.
Qed.

(* ---- nothing else is recorded: an unknown physical type gets the empty name ---------------------- *)
Lemma inv_from_only a items : forall inv u, lookup inv u = None -> (forall kwd, ~ In (kwd, u) items) ->
  lookup (inv_from a inv items) u = None.
Proof.
  induction items as [|[k0 u0] r IH]; simpl; intros inv u L N; [exact L|].
  assert (Nr : forall kwd, ~ In (kwd, u) r) by (intros kwd H; apply (N kwd); right; exact H).
  assert (Ne : Z.eqb u0 u = false).
  { destruct (Z.eqb u0 u) eqn:E; [|reflexivity]. apply Z.eqb_eq in E; subst. exfalso. apply (N k0). left; reflexivity. }
  destruct (lookup inv u0); [apply IH; assumption|].
  destruct (lookup a u0); apply IH; try exact Nr; rewrite lookup_app, L, Ne; reflexivity.
Qed.

Theorem unknown_type_gets_empty_name t a u : (forall kwd, ~ In (kwd, u) t) -> get_ctype (inv_map t a) u = None.
Proof. intros N. apply inv_from_only; [reflexivity|exact N]. Qed.

(* ---- which name: the designated one, else the first keyword of that physical type ------------------ *)
Fixpoint first_kwd (items : dict) (u : Z) : option Z :=
  match items with
  | [] => None
  | (kwd, u') :: r => if Z.eqb u' u then Some kwd else first_kwd r u
  end.

Lemma inv_from_which a items : forall inv u, lookup inv u = None ->
  lookup (inv_from a inv items) u =
    match first_kwd items u with
    | None => None
    | Some kwd => match lookup a u with Some c => Some c | None => Some kwd end
    end.
Proof.
  induction items as [|[k0 u0] r IH]; simpl; intros inv u L; [exact L|].
  destruct (Z.eqb u0 u) eqn:E.
  - apply Z.eqb_eq in E; subst. rewrite L.
    destruct (lookup a u) as [c|]; apply inv_from_keeps; rewrite lookup_app, L, Z.eqb_refl; reflexivity.
  - destruct (lookup inv u0); [apply IH; exact L|].
    destruct (lookup a u0); apply IH; rewrite lookup_app, L, E; reflexivity.
Qed.

Theorem ctype_is_designated_or_first t a u :
  get_ctype (inv_map t a) u =
    match first_kwd t u with
    | None => None
    | Some kwd => match lookup a u with Some c => Some c | None => Some kwd end
    end.
Proof. apply inv_from_which. reflexivity. Qed.

(* ---- one entry per physical type ----------------------------------------------------------------- *)
Lemma keys_unique_app d k v : keys_unique d = true -> lookup d k = None -> keys_unique (d ++ [(k, v)]) = true.
Proof.
  induction d as [|[a b] d IH]; simpl; intros U L; [reflexivity|].
  destruct (Z.eqb a k) eqn:E; [discriminate|]. destruct (lookup d a) eqn:La; [discriminate|].
  rewrite lookup_app, La. rewrite Z.eqb_sym, E. apply IH; assumption.
Qed.

Lemma inv_from_unique a items : forall inv, keys_unique inv = true -> keys_unique (inv_from a inv items) = true.
Proof.
  induction items as [|[k0 u0] r IH]; simpl; intros inv U; [exact U|].
  destruct (lookup inv u0) eqn:L; [apply IH; exact U|].
  destruct (lookup a u0); apply IH; apply keys_unique_app; assumption.
Qed.

Theorem one_name_per_type t a : keys_unique (inv_map t a) = true.
Proof. apply inv_from_unique. reflexivity. Qed.

(* non-vacuity: a table with a duplicated physical type (7: two keywords 1 and 3), an allowed duplicate (9 -> keyword 5) *)
Example ex_table : inv_map [(1, 7); (2, 8); (3, 7); (4, 9); (5, 9)] [(9, 5)] = [(7, 1); (8, 2); (9, 5)].
Proof. vm_compute. reflexivity. Qed.
Example ex_premises : keys_unique [(1, 7); (2, 8); (3, 7); (4, 9); (5, 9)] = true
                      /\ allowed_consistent [(1, 7); (2, 8); (3, 7); (4, 9); (5, 9)] [(9, 5)] = true.
Proof. split; vm_compute; reflexivity. Qed.

(* executable comparison for the correspondence check *)
Fixpoint dict_eqb (a b : dict) : bool :=
  match a, b with
  | [], [] => true
  | (k, v) :: a', (k', v') :: b' => Z.eqb k k' && Z.eqb v v' && dict_eqb a' b'
  | _, _ => false
  end.

Definition check_inv (c : dict * dict * dict) : bool :=
  match c with (t, a, got) => dict_eqb (inv_map t a) got end.
