(* C11 — the row of the PC matrix that _to_fits_tab writes for a tabulated world axis k (FITS axis k1 = k + 1) read along image axis
   m1 (a real pixel axis, or a degenerate one appended after the image axes), PC-matrix formalism: the header starts from the FITS
   default (identity), the code sets PC k1_k1 := 0 when k1 <> m1 and PC k1_m1 := 1. *)
From Coq Require Import ZArith List Bool Lia.
Import ListNotations.
Local Open Scope Z_scope.

(* row k1 of an n x n matrix as a function of the column number 1..n *)
Definition default_row (k1 : Z) (j : Z) : Z := if j =? k1 then 1 else 0.
Definition upd (row : Z -> Z) (j v : Z) : Z -> Z := fun c => if c =? j then v else row c.

Definition pc_row (k1 m1 : Z) : Z -> Z :=
  let r0 := default_row k1 in
  let r1 := if negb (k1 =? m1) then upd r0 k1 0 else r0 in
  upd r1 m1 1.

(* the row is the unit vector of image axis m1: the table index of world axis k depends on that image axis and on no other *)
Theorem pc_row_selects_axis : forall k1 m1 j, pc_row k1 m1 j = if j =? m1 then 1 else 0.
Proof.
  intros k1 m1 j. unfold pc_row, upd, default_row.
  destruct (Z.eqb_spec j m1) as [->|Hj]; [reflexivity|].
  destruct (Z.eqb_spec k1 m1) as [->|Hk]; cbn [negb].
  - destruct (Z.eqb_spec j m1); [contradiction|reflexivity].
  - destruct (Z.eqb_spec j k1); reflexivity.
Qed.

(* leaving the default diagonal element in place when k1 <> m1 couples the axis to its own (degenerate or foreign) image axis too *)
Example diagonal_left_in_place_refuted : exists k1 m1 j, k1 <> m1 /\ upd (default_row k1) m1 1 j <> (if j =? m1 then 1 else 0).
Proof. exists 2, 3, 2. split; [lia|]. vm_compute. discriminate. Qed.

(* executable view: the row over columns 1..n *)
Definition pc_row_list (n k1 m1 : Z) : list Z := map (pc_row k1 m1) (map Z.of_nat (seq 1 (Z.to_nat n))).
