(* C11 — FITS -TAB export: grid nodes, CRPIX / CDELT / CRVAL bookkeeping and the reader's index formula (Paper III),
   over the rationals: the reader lands EXACTLY on node k at the k-th tabulated entry, for every box and sampling. *)
From Coq Require Import ZArith QArith Qabs Qround Lia Lqa.
Local Open Scope Q_scope.

(* npix = max(2, 1 + ceil(|hi - lo| / s)) *)
Definition npix (lo hi s : Q) : Z := Z.max 2 (1 + Qceiling (Qabs (hi - lo) / s)).

(* np.linspace(lo, hi, n): node k = lo + k * (hi - lo) / (n - 1) *)
Definition node (lo hi : Q) (n : Z) (k : Z) : Q := lo + inject_Z k * (hi - lo) / inject_Z (n - 1).

(* header keywords written for a non-degenerate axis *)
Definition cdelt (lo hi : Q) (n : Z) : Q := if Qeq_bool lo hi then 1 else inject_Z (n - 1) / (hi - lo).
Definition crpix (lo : Q) : Q := lo + 1.          (* gcrds[0] + 1 : FITS pixels are 1-based *)
Definition crval : Q := 1.

(* the FITS reader (PC = identity): index into the coordinate array (1-based) for FITS pixel p *)
Definition tab_index (cd cp cv : Q) (p : Q) : Q := cv + cd * (p - cp).

Lemma npix_ge_2 lo hi s : (2 <= npix lo hi s)%Z.
Proof. unfold npix. lia. Qed.

(* the table spans the bounding box end to end *)
Lemma inj_nm1_nz n : (2 <= n)%Z -> ~ inject_Z (n - 1) == 0.
Proof. intros Hn E. unfold Qeq in E. cbn in E. lia. Qed.

Theorem table_spans_box lo hi n : (2 <= n)%Z -> node lo hi n 0 == lo /\ node lo hi n (n - 1) == hi.
Proof.
  intros Hn. pose proof (inj_nm1_nz n Hn) as Hz. unfold node. split; field; exact Hz.
Qed.

(* at the FITS pixel of node k (0-based pixel node k => FITS pixel node k + 1) the reader's index is exactly k + 1:
   the tabulated value is returned, no interpolation *)
Theorem node_exact lo hi n k : (2 <= n)%Z -> ~ lo == hi ->
  tab_index (cdelt lo hi n) (crpix lo) crval (node lo hi n k + 1) == inject_Z k + 1.
Proof.
  intros Hn Hne. unfold tab_index, cdelt, crpix, crval, node.
  destruct (Qeq_bool lo hi) eqn:E; [apply Qeq_bool_iff in E; contradiction|].
  pose proof (inj_nm1_nz n Hn) as Hz.
  field. split; [exact Hz|intros H; apply Hne; lra].
Qed.

(* between nodes the index is affine in the pixel: the reader interpolates linearly between tabulated values *)
Theorem index_affine cd cp cv p q t :
  tab_index cd cp cv (p + t * (q - p)) == tab_index cd cp cv p + t * (tab_index cd cp cv q - tab_index cd cp cv p).
Proof. unfold tab_index. ring. Qed.

(* degenerate axis (lo = hi): CDELT = 1 *)
Theorem degenerate_cdelt lo n : cdelt lo lo n == 1.
Proof. unfold cdelt. rewrite (proj2 (Qeq_bool_iff lo lo) (Qeq_refl lo)). reflexivity. Qed.

(* image size recorded for pixel axis iax: NAXIS(iax+1) = int(max(box[iax])) + 1 (upper limit truncated, 1-based count) *)
Definition Qtrunc (q : Q) : Z := if Qle_bool 0 q then Qfloor q else Qceiling q.
Definition Qmax2 (a b : Q) : Q := if Qle_bool a b then b else a.
Definition naxis (lo hi : Q) : Z := (Qtrunc (Qmax2 lo hi) + 1)%Z.

(* the recorded size covers the box: every pixel index up to the (truncated) upper limit *)
Theorem naxis_covers lo hi : 0 <= hi -> lo <= hi -> inject_Z (naxis lo hi - 1) <= hi /\ hi < inject_Z (naxis lo hi).
Proof.
  intros H0 Hle. unfold naxis, Qmax2, Qtrunc.
  rewrite (proj2 (Qle_bool_iff lo hi) Hle). rewrite (proj2 (Qle_bool_iff 0 hi) H0).
  replace (Qfloor hi + 1 - 1)%Z with (Qfloor hi) by lia. split; [apply Qfloor_le|].
  exact (Qlt_floor hi).
Qed.
