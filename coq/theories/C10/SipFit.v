(* C10 — the degree search of _fit_2D_poly (the LU fit itself is an oracle), the error it reports, the SIP / CD
   decomposition algebra of _reform_poly_coefficients, the stored-term index set of _store_2D_coefficients and the
   header conventions (CRPIX, NAXIS, axis remap) of _to_fits_sip; rationals and integers. *)
From Coq Require Import ZArith QArith Qminmax List Bool Lia Lqa Sorting.Sorted Sorting.Mergesort Orders Permutation.
Import ListNotations.
Local Open Scope Q_scope.

(* what one call of _poly_fit_lu gives for a degree: residual + whether the system was well conditioned, or LinAlgError *)
Inductive fitres := FitOk (err : Q) (cond_finite : bool) | FitLinAlgError.

Inductive stop := Raised | Crashed (* no fit was ever accepted: `cfx` is unbound *) | Done.
Record result := { how : stop; best : option (nat * Q);   (* accepted degree and its residual *)
                   met : bool                              (* requested accuracy achieved: fit_warning_msg = None *) }.

Definition finish (b : option (nat * Q)) : result :=
  {| how := match b with None => Crashed | Some _ => Done end; best := b; met := false |}.

Section Search.
  Variable fit : nat -> fitres.
  Variable max_error : Q.
  Variable single : bool.          (* deglist has one element *)

  Fixpoint search (degs : list nat) (b : option (nat * Q)) : result :=
    match degs with
    | [] => finish b
    | d :: rest =>
        match fit d with
        | FitLinAlgError => if single then {| how := Raised; best := b; met := false |} else finish b
        | FitOk e cf =>
            if negb cf then (if single then {| how := Done; best := Some (d, e); met := false |} else finish b)
            else if match b with Some (_, eb) => Qle_bool eb e | None => false end
                 then finish b                                   (* accuracy does not improve *)
                 else if Qle_bool e max_error then {| how := Done; best := Some (d, e); met := true |}
                      else search rest (Some (d, e))
        end
    end.

  Lemma finish_not_met b : met (finish b) = false. Proof. reflexivity. Qed.

  (* the chosen degree meets the request and every permitted degree tried before it was fitted and did not *)
  Theorem degree_lowest : forall degs b0 r d e,
    search degs b0 = r -> met r = true -> best r = Some (d, e) ->
    e <= max_error /\ fit d = FitOk e true /\
    exists pre post, degs = pre ++ d :: post /\
      forall d', In d' pre -> exists e', fit d' = FitOk e' true /\ ~ e' <= max_error.
  Proof.
    induction degs as [|x rest IH]; intros b0 r d e Hs Hm Hb; cbn [search] in Hs.
    - subst r. discriminate Hm.
    - destruct (fit x) as [ex cf|] eqn:Ef.
      2:{ destruct single; subst r; discriminate Hm. }
      destruct cf; cbn [negb] in Hs.
      2:{ destruct single; subst r; discriminate Hm. }
      destruct (match b0 with Some (_, eb) => Qle_bool eb ex | None => false end); [subst r; discriminate Hm|].
      destruct (Qle_bool ex max_error) eqn:Hle.
      + subst r. cbn in Hb. inversion Hb; subst. split; [now apply Qle_bool_iff|]. split; [assumption|].
        exists [], rest. split; [reflexivity|]. intros d' [].
      + destruct (IH _ _ _ _ Hs Hm Hb) as [H1 [H2 [pre [post [Heq Hpre]]]]]. split; [assumption|]. split; [assumption|].
        exists (x :: pre), post. split; [cbn; now rewrite Heq|]. intros d' [<-|Hin]; [|now apply Hpre].
        exists ex. split; [assumption|]. intro Hc. apply Qle_bool_iff in Hc. congruence.
  Qed.

  (* residuals strictly decrease along accepted degrees, so the accepted one is the best seen *)
  Theorem accepted_is_fitted : forall degs b0 r d e,
    search degs b0 = r -> best r = Some (d, e) -> b0 = Some (d, e) \/ exists cf, fit d = FitOk e cf /\ In d degs.
  Proof.
    induction degs as [|x rest IH]; intros b0 r d e Hs Hb; cbn [search] in Hs.
    - subst r. now left.
    - destruct (fit x) as [ex cf|] eqn:Ef.
      2:{ destruct single; subst r; now left. }
      destruct cf; cbn [negb] in Hs.
      2:{ destruct single; subst r; cbn in Hb; [|now left]. inversion Hb; subst. right. exists false. split; [assumption|now left]. }
      destruct (match b0 with Some (_, eb) => Qle_bool eb ex | None => false end); [subst r; now left|].
      destruct (Qle_bool ex max_error).
      + subst r. cbn in Hb. inversion Hb; subst. right. exists true. split; [assumption|now left].
      + destruct (IH _ _ _ _ Hs Hb) as [H|[cf [H1 H2]]].
        * inversion H; subst. right. exists true. split; [assumption|now left].
        * right. exists cf. split; [assumption|now right].
  Qed.

  (* ---- what is reported: the part after the loop ---- *)
  Record report := { rdeg : nat; rerr : Q; warn_unmet : bool; warn_double : bool }.

  (* dbl d = largest residual of the accepted degree-d polynomial on the doubled grid *)
  Variable dbl : nat -> Q.

  Definition conclude (r : result) : option report :=
    match how r, best r with
    | Done, Some (d, e) =>
        if Qle_bool e max_error || single then
          let m := dbl d in
          Some {| rdeg := d; rerr := Qmax m e; warn_unmet := negb (met r);
                  warn_double := negb (Qle_bool m (Qmin (5 * e) max_error)) |}
        else Some {| rdeg := d; rerr := e; warn_unmet := negb (met r); warn_double := false |}
    | _, _ => None          (* an exception propagates *)
    end.

  Lemma met_le : forall degs b0 r d e, search degs b0 = r -> met r = true -> best r = Some (d, e) -> e <= max_error.
  Proof. intros. eapply degree_lowest; eauto. Qed.

  Lemma unmet_of_gt : forall degs r d e, search degs None = r -> best r = Some (d, e) -> ~ e <= max_error -> met r = false.
  Proof. intros degs r d e Hs Hb Hgt. destruct (met r) eqn:Hm; [|reflexivity]. exfalso. apply Hgt. eapply met_le; eauto. Qed.

  (* silent return => both the fit residual and the dense-sample residual are within the request *)
  Theorem silent_means_met : forall degs r rep,
    search degs None = r -> conclude r = Some rep -> warn_unmet rep = false -> warn_double rep = false ->
    rerr rep <= max_error /\ (exists e, best r = Some (rdeg rep, e) /\ e <= rerr rep /\ dbl (rdeg rep) <= rerr rep).
  Proof.
    intros degs r rep Hs Hc Hu Hd. unfold conclude in Hc.
    destruct (how r); try discriminate. destruct (best r) as [[d e]|] eqn:Hb; try discriminate.
    assert (Hmet : met r = true -> e <= max_error) by (intro; eapply met_le; eauto).
    destruct (Qle_bool e max_error || single) eqn:Hg; inversion Hc; subst rep; cbn in *.
    - apply negb_false_iff in Hu, Hd. apply Qle_bool_iff in Hd. specialize (Hmet Hu).
      assert (dbl d <= max_error) by (eapply Qle_trans; [exact Hd|apply Q.le_min_r]).
      split; [apply Q.max_lub; assumption|]. exists e. split; [reflexivity|]. split; [apply Q.le_max_r|apply Q.le_max_l].
    - apply negb_false_iff in Hu. apply orb_false_iff in Hg. destruct Hg as [Hg _].
      specialize (Hmet Hu). apply Qle_bool_iff in Hmet. congruence.
  Qed.

  (* an unmet request is signalled: a reported error above the request comes with a warning *)
  Theorem unmet_is_signalled : forall degs r rep,
    search degs None = r -> conclude r = Some rep -> ~ rerr rep <= max_error -> warn_unmet rep = true \/ warn_double rep = true.
  Proof.
    intros degs r rep Hs Hc Hgt.
    destruct (warn_unmet rep) eqn:Hu; [now left|]. destruct (warn_double rep) eqn:Hd; [now right|].
    exfalso. apply Hgt. eapply silent_means_met; eauto.
  Qed.

  (* the recorded error never understates either observed residual when the dense check ran *)
  Theorem reported_error_not_understated : forall r rep d e,
    conclude r = Some rep -> best r = Some (d, e) ->
    e <= rerr rep /\ ((Qle_bool e max_error || single = true) -> dbl d <= rerr rep).
  Proof.
    intros r rep d e Hc Hb. unfold conclude in Hc. rewrite Hb in Hc. destruct (how r); try discriminate.
    destruct (Qle_bool e max_error || single); inversion Hc; subst rep; cbn.
    - split; [apply Q.le_max_r|intros _; apply Q.le_max_l].
    - split; [apply Qle_refl|discriminate].
  Qed.
End Search.

Example search_nontrivial :
  let fit d := match d with 1%nat => FitOk 3 true | 2%nat => FitOk (1#2) true | _ => FitOk (1#100) true end in
  let r := search fit (1#10) false [1;2;3;4]%nat None in
  best r = Some (3%nat, 1#100) /\ met r = true /\
  conclude (1#10) false (fun _ => 2#100) r = Some {| rdeg := 3; rerr := 2#100; warn_unmet := false; warn_double := false |}.
Proof. vm_compute. repeat split. Qed.

(* ---------------- the `degree` argument: None | iterable | int ---------------- *)
Module ZOrder <: TotalLeBool.
  Definition t := Z.
  Definition leb := Z.leb.
  Theorem leb_total : forall a1 a2, leb a1 a2 = true \/ leb a2 a1 = true.
  Proof. intros; unfold leb; destruct (Z.leb_spec a1 a2); [now left|right; apply Z.leb_le; lia]. Qed.
End ZOrder.
Module ZSort := Sort ZOrder.

Inductive degspec := DNone | DIter (l : list Z) | DInt (z : Z).
Inductive argerr := ValueError | IndexError.

Definition in_range (z : Z) : bool := (1 <=? z)%Z && (z <=? 9)%Z.

Definition deglist (s : degspec) : argerr + list nat :=
  match s with
  | DNone => inr (seq 1 9)
  | DInt z => if in_range z then inr [Z.to_nat z] else inl ValueError
  | DIter l =>
      let sl := ZSort.sort l in
      match sl with
      | [] => inl IndexError                     (* deglist[0] on an empty list *)
      | lo :: _ => if ((lo <? 1)%Z || (9 <? last sl lo)%Z)%bool then inl ValueError else inr (map Z.to_nat sl)
      end
  end.

Lemma zsort_sorted l : StronglySorted Z.le (ZSort.sort l).
Proof.
  assert (T : Transitive (fun x y => is_true (ZOrder.leb x y))).
  { intros x y z Hxy Hyz. unfold is_true, ZOrder.leb in *. apply Z.leb_le in Hxy, Hyz. apply Z.leb_le. lia. }
  pose proof (ZSort.StronglySorted_sort l T) as H. induction H as [|a l' Hs IH Hf]; constructor; [assumption|].
  eapply Forall_impl; [|exact Hf]. intros b Hb. now apply Z.leb_le.
Qed.

Lemma ssorted_last_ge : forall l (a d : Z), StronglySorted Z.le (a :: l) -> In d (a :: l) -> (d <= last (a :: l) a)%Z.
Proof.
  induction l as [|b l IH]; intros a d Hs Hin.
  - destruct Hin as [<-|[]]. cbn. lia.
  - inversion Hs as [|? ? Hs' Hf]; subst. change (last (a :: b :: l) a) with (last (b :: l) a).
    assert (Hl : forall x y, last (b :: l) x = last (b :: l) y) by (clear; revert b; induction l; intros; cbn in *; auto).
    rewrite (Hl a b). destruct Hin as [<-|Hin].
    + inversion Hf as [|? ? Hab _]; subst. specialize (IH b b Hs' (or_introl eq_refl)). lia.
    + now apply IH.
Qed.

Lemma map_to_nat_sorted : forall l, StronglySorted Z.le l -> Forall (fun z => 1 <= z <= 9)%Z l -> StronglySorted le (map Z.to_nat l).
Proof.
  induction l as [|a l IH]; intros Hs Hr; cbn; constructor.
  - apply IH; [now inversion Hs|now inversion Hr].
  - inversion Hs as [|? ? _ Hf]; subst. inversion Hr as [|? ? Ha Hr']; subst. rewrite Forall_forall in *.
    intros n Hn. apply in_map_iff in Hn. destruct Hn as [z [<- Hz]]. specialize (Hf _ Hz). specialize (Hr' _ Hz). lia.
Qed.

(* every accepted list is ascending and within 1..9 *)
Theorem deglist_sorted_in_range : forall s degs, deglist s = inr degs ->
  StronglySorted le degs /\ Forall (fun d => 1 <= d <= 9)%nat degs.
Proof.
  intros s degs H. destruct s as [|l|z]; cbn [deglist] in H.
  - inversion H; subst. split; [|repeat constructor; lia].
    repeat (constructor; [|repeat constructor; lia]). constructor.
  - pose proof (zsort_sorted l) as Hs. destruct (ZSort.sort l) as [|lo sl] eqn:E; [discriminate|].
    destruct ((lo <? 1)%Z || (9 <? last (lo :: sl) lo)%Z)%bool eqn:G; [discriminate|]. inversion H; subst; clear H.
    apply orb_false_iff in G. destruct G as [G1 G2]. apply Z.ltb_ge in G1, G2.
    assert (Hr : Forall (fun z => 1 <= z <= 9)%Z (lo :: sl)).
    { apply Forall_forall. intros d Hd. pose proof (ssorted_last_ge _ _ _ Hs Hd).
      inversion Hs as [|? ? _ Hf]; subst. destruct Hd as [<-|Hd]; [lia|]. rewrite Forall_forall in Hf. specialize (Hf _ Hd). lia. }
    split.
    + apply (map_to_nat_sorted (lo :: sl)); assumption.
    + rewrite Forall_forall in *. intros n Hn. change (In n (map Z.to_nat (lo :: sl))) in Hn.
      apply in_map_iff in Hn. destruct Hn as [z [<- Hz]]. specialize (Hr _ Hz). lia.
  - destruct (in_range z) eqn:G; [|discriminate]. inversion H; subst. unfold in_range in G. apply andb_true_iff in G.
    destruct G as [G1 G2]. apply Z.leb_le in G1, G2. split; [repeat constructor|constructor; [lia|constructor]].
Qed.

Lemma sorted_before : forall pre (d : nat) post d', StronglySorted le (pre ++ d :: post) -> In d' (pre ++ d :: post) ->
  (d' < d)%nat -> In d' pre.
Proof.
  induction pre as [|a pre IH]; intros d post d' Hs Hin Hlt; cbn in *.
  - inversion Hs as [|? ? _ Hf]; subst. destruct Hin as [<-|Hin]; [lia|]. rewrite Forall_forall in Hf. specialize (Hf _ Hin). lia.
  - destruct Hin as [<-|Hin]; [now left|]. right. inversion Hs; subst. eapply IH; eauto.
Qed.

(* C10: "the chosen degree is the lowest permitted one that meets the request" *)
Theorem chosen_degree_is_lowest_permitted : forall fit max_error spec degs r d e,
  deglist spec = inr degs -> search fit max_error (Nat.eqb (length degs) 1) degs None = r ->
  met r = true -> best r = Some (d, e) ->
  In d degs /\ e <= max_error /\
  forall d', In d' degs -> (d' < d)%nat -> exists e', fit d' = FitOk e' true /\ ~ e' <= max_error.
Proof.
  intros fit max_error spec degs r d e Hd Hs Hm Hb.
  destruct (deglist_sorted_in_range _ _ Hd) as [Hsorted _].
  destruct (degree_lowest _ _ _ _ _ _ _ _ Hs Hm Hb) as [H1 [H2 [pre [post [Heq Hpre]]]]].
  split; [rewrite Heq; apply in_or_app; right; now left|]. split; [assumption|].
  intros d' Hin Hlt. apply Hpre. rewrite Heq in Hsorted, Hin. eapply sorted_before; eauto.
Qed.

(* executable whole-function model used by the correspondence *)
Fixpoint lookup (tbl : list (nat * fitres)) (d : nat) : fitres :=
  match tbl with [] => FitLinAlgError | (k, v) :: r => if Nat.eqb k d then v else lookup r d end.

Definition Qabs' (q : Q) : Q := if Qle_bool 0 q then q else - q.

(* kind: 0 returned, 1 LinAlgError, 2 UnboundLocalError, 3 ValueError, 4 IndexError *)
Definition run_fit2d (spec : degspec) (max_error X : Q) (tbl : list (nat * fitres)) : Z * nat * Q * bool * bool :=
  match deglist spec with
  | inl ValueError => (3%Z, 0%nat, 0, false, false)
  | inl IndexError => (4%Z, 0%nat, 0, false, false)
  | inr degs =>
      let single := Nat.eqb (length degs) 1 in
      let r := search (lookup tbl) max_error single degs None in
      match conclude max_error single (fun d => Qabs' (X - inject_Z (Z.of_nat d))) r with
      | Some rep => (0%Z, rdeg rep, rerr rep, warn_unmet rep, warn_double rep)
      | None => ((match how r with Raised => 1 | _ => 2 end)%Z, 0%nat, 0, false, false)
      end
  end.

Definition same_outcome (a b : Z * nat * Q * bool * bool) : bool :=
  let '(k1, d1, e1, u1, w1) := a in let '(k2, d2, e2, u2, w2) := b in
  (Z.eqb k1 k2 && Nat.eqb d1 d2 && Qeq_bool e1 e2 && Bool.eqb u1 u2 && Bool.eqb w1 w2)%bool.

(* ---------------- _reform_poly_coefficients: P(u,v) = CD . (u + A(u,v), v + B(u,v)) ---------------- *)
(* fit polynomials px, py in monomials u^i v^j; CD = [[px10, px01],[py10, py01]]; higher-order terms are
   (a_ij, b_ij) = CD^-1 . (px_ij, py_ij). *)
Definition det (a b c d : Q) := a * d - b * c.

Theorem sip_decomposition : forall a b c d x y,
  ~ det a b c d == 0 ->
  let ia := d / det a b c d in let ib := - b / det a b c d in
  let ic := - c / det a b c d in let id := a / det a b c d in
  a * (ia * x + ib * y) + b * (ic * x + id * y) == x /\
  c * (ia * x + ib * y) + d * (ic * x + id * y) == y.
Proof. intros a b c d x y Hd; cbn zeta; unfold det in *; split; field; exact Hd. Qed.

(* whole polynomial: hi = list of higher-order terms (i, j, px_ij, py_ij) of the fitted polynomials;
   reform maps each to (i, j, a_ij, b_ij) = CD^-1 . (px_ij, py_ij) *)
Definition qpow (x : Q) (n : nat) : Q := Qpower x (Z.of_nat n).
Definition term := (nat * nat * Q * Q)%type.
Definition evalx (u v : Q) (l : list term) : Q := fold_right (fun t acc => let '(i, j, x, _) := t in x * qpow u i * qpow v j + acc) 0 l.
Definition evaly (u v : Q) (l : list term) : Q := fold_right (fun t acc => let '(i, j, _, y) := t in y * qpow u i * qpow v j + acc) 0 l.
Definition reform (a b c d : Q) (l : list term) : list term :=
  let dt := det a b c d in
  map (fun t => let '(i, j, x, y) := t in (i, j, (d / dt) * x + (- b / dt) * y, (- c / dt) * x + (a / dt) * y)) l.

Theorem sip_reproduces_fit : forall a b c d u v hi,
  ~ det a b c d == 0 ->
  let A := evalx u v (reform a b c d hi) in let B := evaly u v (reform a b c d hi) in
  a * (u + A) + b * (v + B) == a * u + b * v + evalx u v hi /\
  c * (u + A) + d * (v + B) == c * u + d * v + evaly u v hi.
Proof.
  intros a b c d u v hi Hd. cbn zeta.
  assert (H : a * evalx u v (reform a b c d hi) + b * evaly u v (reform a b c d hi) == evalx u v hi /\
              c * evalx u v (reform a b c d hi) + d * evaly u v (reform a b c d hi) == evaly u v hi).
  { induction hi as [|[[[i j] x] y] rest [IH1 IH2]]; [cbn; split; ring|].
    cbn [reform map evalx evaly fold_right] in *. fold (reform a b c d rest) in *.
    fold (evalx u v (reform a b c d rest)) (evaly u v (reform a b c d rest)) (evalx u v rest) (evaly u v rest) in *.
    destruct (sip_decomposition a b c d x y Hd) as [E1 E2]. cbn zeta in E1, E2.
    set (dt := det a b c d) in *. set (RA := evalx u v (reform a b c d rest)) in *. set (RB := evaly u v (reform a b c d rest)) in *.
    split.
    - transitivity ((a * (d / dt * x + - b / dt * y) + b * (- c / dt * x + a / dt * y)) * (qpow u i * qpow v j) + (a * RA + b * RB)); [ring|].
      rewrite E1, IH1. ring.
    - transitivity ((c * (d / dt * x + - b / dt * y) + d * (- c / dt * x + a / dt * y)) * (qpow u i * qpow v j) + (c * RA + d * RB)); [ring|].
      rewrite E2, IH2. ring. }
  destruct H as [H1 H2]. split; [rewrite <- H1|rewrite <- H2]; ring.
Qed.

(* a singular CD (det = 0) has no decomposition: np.linalg.inv raises; covered by the oracle *)

(* ---------------- _store_2D_coefficients: which (i, j) get a keyword ---------------- *)
(* for i in range(deg+1): for j in range(deg+1): if mindeg < i + j <= deg: store *)
Definition stored (mindeg deg : nat) : list (nat * nat) :=
  flat_map (fun i => flat_map (fun j => if (Nat.ltb mindeg (i + j) && Nat.leb (i + j) deg)%bool then [(i, j)] else [])
                              (seq 0 (S deg))) (seq 0 (S deg)).

Theorem stored_iff : forall mindeg deg i j,
  In (i, j) (stored mindeg deg) <-> (mindeg < i + j <= deg)%nat.
Proof.
  intros mindeg deg i j. unfold stored. rewrite in_flat_map. split.
  - intros [i' [Hi H]]. apply in_flat_map in H. destruct H as [j' [Hj H]].
    destruct (Nat.ltb mindeg (i' + j') && Nat.leb (i' + j') deg)%bool eqn:E; [|destruct H].
    destruct H as [H|[]]. inversion H; subst. apply andb_true_iff in E. destruct E as [E1 E2].
    apply Nat.ltb_lt in E1. apply Nat.leb_le in E2. lia.
  - intros [H1 H2]. exists i. split; [apply in_seq; lia|]. apply in_flat_map. exists j. split; [apply in_seq; lia|].
    assert (E : (Nat.ltb mindeg (i + j) && Nat.leb (i + j) deg)%bool = true).
    { apply andb_true_iff. split; [apply Nat.ltb_lt|apply Nat.leb_le]; lia. }
    rewrite E. now left.
Qed.

(* forward SIP keeps only orders >= 2 (mindeg = 1), the inverse keeps order >= 1 (mindeg = 0) *)

(* ---------------- the X_ORDER keywords: what a standard reader evaluates ---------------- *)
(* a reader of the SIP convention sums the coefficients with i + j <= A_ORDER (AP_ORDER for the inverse) and ignores the others *)
Definition reader_terms (order : nat) (l : list term) : list term := filter (fun t => let '(i, j, _, _) := t in Nat.leb (i + j) order) l.
Definition reader_evalx (order : nat) (u v : Q) (l : list term) : Q := evalx u v (reader_terms order l).
Definition reader_evaly (order : nat) (u v : Q) (l : list term) : Q := evaly u v (reader_terms order l).

Lemma reader_terms_all order l :
  (forall i j x y, In (i, j, x, y) l -> (i + j <= order)%nat) -> reader_terms order l = l.
Proof.
  induction l as [|[[[i j] x] y] rest IH]; intros H; [reflexivity|]. cbn [reader_terms filter].
  assert (E : Nat.leb (i + j) order = true) by (apply Nat.leb_le; apply (H i j x y); now left).
  rewrite E. f_equal. apply IH. intros i' j' x' y' Hin. apply (H i' j' x' y'). now right.
Qed.

(* the order keyword written beside the coefficients must be the degree of the polynomial they come from: then nothing is dropped *)
Theorem order_keyword_covers_coefficients : forall order u v l,
  (forall i j x y, In (i, j, x, y) l -> (i + j <= order)%nat) ->
  reader_evalx order u v l = evalx u v l /\ reader_evaly order u v l = evaly u v l.
Proof. intros order u v l H. unfold reader_evalx, reader_evaly. now rewrite (reader_terms_all order l H). Qed.

(* every keyword that _store_2D_coefficients writes for a fit of degree deg is within that degree *)
Theorem stored_within_order : forall mindeg deg i j, In (i, j) (stored mindeg deg) -> (i + j <= deg)%nat.
Proof. intros mindeg deg i j H. apply stored_iff in H. lia. Qed.

(* ... and a smaller order keyword (e.g. the forward degree written as AP_ORDER for an inverse fit of higher degree) silently drops
   terms: the header then describes another inverse than the one that was fitted and whose error is reported *)
Theorem order_keyword_too_small_refuted :
  exists order u v l, (exists i j x y, In (i, j, x, y) l /\ (order < i + j)%nat) /\ ~ reader_evalx order u v l == evalx u v l.
Proof.
  exists 2%nat, 1, 1, [(1%nat, 0%nat, 1, 0); (3%nat, 1%nat, 1 # 2, 0)]. split.
  - exists 3%nat, 1%nat, (1 # 2), 0. split; [right; now left | cbn; lia].
  - vm_compute. discriminate.
Qed.

(* ---------------- header conventions ---------------- *)
Local Open Scope Z_scope.
(* CRPIX is the 0-based reference pixel + 1; NAXISi = int(upper bound) + 1 for a box with upper bound >= 0 *)
Definition crpix_fits (crpix0 : Z) := crpix0 + 1.
Definition naxis (upper_floor : Z) := upper_floor + 1.

Theorem crpix_one_based : forall c, crpix_fits c - 1 = c. Proof. intros; unfold crpix_fits; lia. Qed.
Theorem naxis_covers_box : forall hi p, 0 <= p <= hi -> 1 <= p + 1 <= naxis hi. Proof. intros; unfold naxis; lia. Qed.

(* axis remap: celestial axes (lon, lat) sit at output positions (olon, olat) of n; the header writes lon-axis values
   under keyword index olon+1, lat under olat+1; distinct positions => no keyword is written twice *)
Theorem axis_remap_injective : forall olon olat : Z, olon <> olat -> olon + 1 <> olat + 1. Proof. intros; lia. Qed.
