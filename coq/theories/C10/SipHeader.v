(* C10 — which FITS axis numbers the SIP export writes for a celestial pair sitting on world axes (lon_axis, lat_axis) and fed by the
   pixel axes input_axes = (p1 < p2), with and without keep_axis_position; where NAXISi / CRPIXi take their values from.
   Hand model of the bookkeeping part of WCS._to_fits_sip. *)
From Coq Require Import ZArith List Bool Lia.
Import ListNotations.
Local Open Scope Z_scope.

Record axes := { nlon : Z; nlat : Z; iax1 : Z; iax2 : Z }.

Definition sip_axes (keep : bool) (lon_axis lat_axis p1 p2 : Z) : axes :=
  if keep then {| nlon := lon_axis + 1; nlat := lat_axis + 1; iax1 := p1 + 1; iax2 := p2 + 1 |}
  else {| nlon := (if lon_axis <? lat_axis then 1 else 2); nlat := (if lon_axis <? lat_axis then 2 else 1); iax1 := 1; iax2 := 2 |}.

(* a keyword is (family, axis numbers) *)
Inductive kw := NAXIS (i : Z) | CRPIX (i : Z) | CRVAL (i : Z) | CTYPE (i : Z) | MAT (i j : Z).
Definition kw_eqb (a b : kw) : bool :=
  match a, b with
  | NAXIS i, NAXIS j | CRPIX i, CRPIX j | CRVAL i, CRVAL j | CTYPE i, CTYPE j => i =? j
  | MAT i j, MAT k l => (i =? k) && (j =? l)
  | _, _ => false
  end.

Inductive src := BoxMax (pixel_axis : Z)       (* int(upper limit of the box of that pixel axis) + 1 *)
               | RefPix (k : Z)                 (* 0-based reference pixel on the k-th axis of the pair + 1 *)
               | Lon | Lat                      (* reference value / axis type of the longitude / latitude *)
               | Cd (row col : Z).              (* element of the fitted 2x2 matrix: row 0 = longitude ... after the lon/lat swap *)

(* the cards concerning the pair, as (keyword, where its value comes from) *)
Definition sip_cards (keep : bool) (lon_axis lat_axis p1 p2 : Z) : list (kw * src) :=
  let a := sip_axes keep lon_axis lat_axis p1 p2 in
  [ (NAXIS (iax1 a), BoxMax p1); (NAXIS (iax2 a), BoxMax p2);
    (CRPIX (iax1 a), RefPix 0); (CRPIX (iax2 a), RefPix 1);
    (CRVAL (nlon a), Lon); (CRVAL (nlat a), Lat); (CTYPE (nlon a), Lon); (CTYPE (nlat a), Lat);
    (MAT (nlon a) (iax1 a), Cd 0 0); (MAT (nlon a) (iax2 a), Cd 0 1); (MAT (nlat a) (iax1 a), Cd 1 0); (MAT (nlat a) (iax2 a), Cd 1 1) ].

Definition well_posed (lon_axis lat_axis p1 p2 : Z) : Prop :=
  0 <= lon_axis /\ 0 <= lat_axis /\ lon_axis <> lat_axis /\ 0 <= p1 < p2.

(* no keyword is written twice *)
Theorem sip_cards_distinct : forall keep lon lat p1 p2, well_posed lon lat p1 p2 ->
  NoDup (map fst (sip_cards keep lon lat p1 p2)).
Proof.
  intros keep lon lat p1 p2 [H1 [H2 [H3 H4]]]. unfold sip_cards, sip_axes.
  destruct keep; cbn [map fst nlon nlat iax1 iax2].
  - repeat (constructor; [cbn; intros H; repeat (destruct H as [H|H]; [inversion H; lia|]); exact H|]). constructor.
  - destruct (lon <? lat); repeat (constructor; [cbn; intros H; repeat (destruct H as [H|H]; [inversion H; lia|]); exact H|]); constructor.
Qed.

(* image sizes come from the boxes of the pixel axes that feed the pair, wherever those axes are *)
Theorem naxis_from_pair_axes : forall keep lon lat p1 p2,
  In (NAXIS (iax1 (sip_axes keep lon lat p1 p2)), BoxMax p1) (sip_cards keep lon lat p1 p2) /\
  In (NAXIS (iax2 (sip_axes keep lon lat p1 p2)), BoxMax p2) (sip_cards keep lon lat p1 p2).
Proof. intros; unfold sip_cards; split; cbn; auto. Qed.

(* without keep_axis_position the header is a plain 2-axis header whose celestial order follows the frame's *)
Theorem compact_axes : forall lon lat p1 p2, lon <> lat ->
  let a := sip_axes false lon lat p1 p2 in
  iax1 a = 1 /\ iax2 a = 2 /\ ((lon < lat -> nlon a = 1 /\ nlat a = 2) /\ (lat < lon -> nlon a = 2 /\ nlat a = 1)).
Proof.
  intros lon lat p1 p2 H. cbn. repeat split; destruct (Z.ltb_spec lon lat); try reflexivity; lia.
Qed.

(* with keep_axis_position every number is the original 0-based axis + 1 *)
Theorem kept_axes : forall lon lat p1 p2,
  let a := sip_axes true lon lat p1 p2 in nlon a = lon + 1 /\ nlat a = lat + 1 /\ iax1 a = p1 + 1 /\ iax2 a = p2 + 1.
Proof. intros; cbn; repeat split. Qed.

(* longitude and latitude keep their identity: CTYPE / CRVAL of the longitude go to nlon, of the latitude to nlat, never swapped *)
Theorem lon_lat_not_swapped : forall keep lon lat p1 p2, well_posed lon lat p1 p2 ->
  forall i s, In (CTYPE i, s) (sip_cards keep lon lat p1 p2) ->
  (s = Lon <-> i = nlon (sip_axes keep lon lat p1 p2)) /\ (s = Lat <-> i = nlat (sip_axes keep lon lat p1 p2)).
Proof.
  intros keep lon lat p1 p2 [H1 [H2 [H3 H4]]] i s Hin.
  assert (Hne : nlon (sip_axes keep lon lat p1 p2) <> nlat (sip_axes keep lon lat p1 p2)).
  { unfold sip_axes. destruct keep; cbn; [lia|destruct (lon <? lat); lia]. }
  unfold sip_cards in Hin. cbn in Hin.
  repeat (destruct Hin as [Hin|Hin]; [inversion Hin; subst; clear Hin; split; split; intro Hx; try reflexivity; try discriminate; try congruence|]);
    try contradiction.
Qed.

(* executable view for the correspondence *)
Definition axes_list (keep : bool) (lon lat p1 p2 : Z) : list Z :=
  let a := sip_axes keep lon lat p1 p2 in [nlon a; nlat a; iax1 a; iax2 a].
