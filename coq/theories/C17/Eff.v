(* C17 — effect skeletons: the control structure of a function reduced to what matters for
   process-wide settings (numpy error state, warnings filters, print options), with an adversarial
   oracle deciding every branch, loop count and which opaque call raises.
   Theorem ok_sound: a skeleton in which every write to a global kind is protected by a context
   manager (With) of that kind leaves every global as it was, on every exit path. *)
From Coq Require Import List Bool Arith Lia.
Import ListNotations.

Inductive kind := KErr | KWarn | KPrint.
Definition kind_eqb (a b : kind) : bool :=
  match a, b with KErr, KErr | KWarn, KWarn | KPrint, KPrint => true | _, _ => false end.
Lemma kind_eqb_eq a b : kind_eqb a b = true <-> a = b.
Proof. destruct a, b; cbn; split; intros H; try reflexivity; try discriminate. Qed.

Inductive eff :=
  | Skip
  | Seq (a b : eff)
  | Call                      (* opaque callee: may raise; restores whatever it changes *)
  | If (a b : eff)
  | Loop (body : eff)
  | Save (k : kind)           (* old = np.geterr() ... *)
  | SetG (k : kind)           (* np.seterr(...) / warnings.simplefilter(...) / np.set_printoptions(...) *)
  | Restore (k : kind)        (* np.seterr(old values) *)
  | With (k : kind) (body : eff)     (* with np.errstate / warnings.catch_warnings / np.printoptions *)
  | Try (body handler : eff)
  | Finally (body fin : eff)
  | Fn (body : eff)           (* a call to a function of the package whose skeleton is inlined *)
  | Raise
  | Return.

(* globals: one abstract value per kind; saved: the value captured by the latest Save of that kind *)
Definition glob := kind -> nat.
Definition upd (g : glob) (k : kind) (v : nat) : glob := fun k' => if kind_eqb k' k then v else g k'.

Inductive outcome := ONormal | ORaise | OReturn.
Record st := { g : glob; saved : glob; idx : nat }.
Definition oracle := nat -> nat.      (* the n-th decision: 0 = false / do not raise / zero iterations ... *)

Definition tick (s : st) : st := {| g := g s; saved := saved s; idx := S (idx s) |}.
Definition setg (s : st) (k : kind) (v : nat) : st := {| g := upd (g s) k v; saved := saved s; idx := idx s |}.

Section Run.
  Variable o : oracle.
  (* a fresh value distinct from anything saved is what a Set writes: 1 + current *)
  Fixpoint run (p : eff) (s : st) : outcome * st :=
    match p with
    | Skip => (ONormal, s)
    | Seq a b => match run a s with (ONormal, s') => run b s' | r => r end
    | Call => (if Nat.eqb (o (idx s)) 0 then ONormal else ORaise, tick s)
    | If a b => if Nat.eqb (o (idx s)) 0 then run b (tick s) else run a (tick s)
    | Loop body =>
        (fix iter (n : nat) (s : st) : outcome * st :=
           match n with
           | O => (ONormal, s)
           | S n' => match run body s with (ONormal, s') => iter n' s' | r => r end
           end) (o (idx s)) (tick s)
    | Save k => (ONormal, {| g := g s; saved := upd (saved s) k (g s k); idx := idx s |})
    | SetG k => (ONormal, setg s k (S (g s k)))
    | Restore k => (ONormal, setg s k (saved s k))
    | With k body =>
        let v := g s k in
        match run body s with (r, s') => (r, setg s' k v) end
    | Try body h => match run body s with (ORaise, s') => run h s' | r => r end
    | Finally body f =>
        match run body s with
        | (r, s') => match run f s' with (ONormal, s'') => (r, s'') | r' => r' end
        end
    | Fn body => match run body s with (OReturn, s') => (ONormal, s') | r => r end
    | Raise => (ORaise, s)
    | Return => (OReturn, s)
    end.
End Run.

(* syntactic discipline: every write to kind k happens under a With k *)
Fixpoint ok (prot : list kind) (p : eff) : bool :=
  match p with
  | Skip | Call | Raise | Return | Save _ => true
  | Seq a b | If a b | Try a b | Finally a b => ok prot a && ok prot b
  | Loop b | Fn b => ok prot b
  | SetG k | Restore k => existsb (kind_eqb k) prot
  | With k b => ok (k :: prot) b
  end.

Definition agree (prot : list kind) (a b : glob) : Prop :=
  forall k, existsb (kind_eqb k) prot = false -> a k = b k.

Lemma agree_refl prot a : agree prot a a. Proof. intros k _. reflexivity. Qed.
Lemma agree_trans prot a b c : agree prot a b -> agree prot b c -> agree prot a c.
Proof. intros H1 H2 k Hk. rewrite H1, H2; auto. Qed.

Lemma agree_upd prot a k v : existsb (kind_eqb k) prot = true -> agree prot (upd a k v) a.
Proof.
  intros Hk k' Hk'. unfold upd. destruct (kind_eqb k' k) eqn:E; [|reflexivity].
  apply kind_eqb_eq in E. subst. congruence.
Qed.

Theorem ok_preserves o : forall p prot s, ok prot p = true -> agree prot (g (snd (run o p s))) (g s).
Proof.
  induction p as [|a IHa b IHb| |a IHa b IHb|body IH|k|k|k|k body IH|body IHb h IHh|body IHb f IHf|body IH| |];
    intros prot s Hok; cbn [ok] in Hok; cbn [run].
  - apply agree_refl.
  - apply andb_prop in Hok as [Ha Hb]. specialize (IHa prot s Ha).
    destruct (run o a s) as [[| |] s'] eqn:E; cbn [snd] in *; try assumption.
    eapply agree_trans; [apply IHb; assumption|assumption].
  - cbn. apply agree_refl.
  - apply andb_prop in Hok as [Ha Hb].
    destruct (Nat.eqb (o (idx s)) 0); [apply (IHb prot (tick s) Hb)|apply (IHa prot (tick s) Ha)].
  - change (g s) with (g (tick s)). generalize (tick s) as s0. generalize (o (idx s)) as n.
    induction n as [|n IHn]; intros s0; [apply agree_refl|].
    specialize (IH prot s0 Hok). destruct (run o body s0) as [[| |] s'] eqn:E; cbn [snd] in *; try assumption.
    eapply agree_trans; [apply IHn|assumption].
  - cbn. apply agree_refl.
  - cbn. apply agree_upd. assumption.
  - cbn. apply agree_upd. assumption.
  - specialize (IH (k :: prot) s Hok). destruct (run o body s) as [r s'] eqn:E. cbn [snd g setg] in *.
    intros k' Hk'. unfold upd. destruct (kind_eqb k' k) eqn:Ek.
    + apply kind_eqb_eq in Ek. now subst.
    + apply IH. cbn [existsb]. now rewrite Ek, Hk'.
  - apply andb_prop in Hok as [Hb Hh]. specialize (IHb prot s Hb).
    destruct (run o body s) as [[| |] s'] eqn:E; cbn [snd] in *; try assumption.
    eapply agree_trans; [apply IHh; assumption|assumption].
  - apply andb_prop in Hok as [Hb Hf]. specialize (IHb prot s Hb).
    destruct (run o body s) as [r s'] eqn:E. cbn [snd] in *. specialize (IHf prot s' Hf).
    destruct (run o f s') as [[| |] s''] eqn:E2; cbn [snd] in *; eapply agree_trans; eassumption.
  - specialize (IH prot s Hok). destruct (run o body s) as [[| |] s'] eqn:E; cbn [snd] in *; assumption.
  - apply agree_refl.
  - apply agree_refl.
Qed.

(* the property: with no outer protection, every global is what it was, whatever the oracle does *)
Theorem ok_sound (p : eff) : ok [] p = true ->
  forall (o : oracle) (s : st) (k : kind), g (snd (run o p s)) k = g s k.
Proof. intros H o s k. apply (ok_preserves o p [] s H). reflexivity. Qed.

(* the legacy shape of the iterative solver: a bare set ... calls ... restore leaks when a call raises *)
Example legacy_leak :
  let p := Seq (Save KErr) (Seq (SetG KErr) (Seq (Loop Call) (Restore KErr))) in
  ok [] p = false /\
  exists o, g (snd (run o p {| g := fun _ => 0; saved := fun _ => 0; idx := 0 |})) KErr <> 0.
Proof. split; [reflexivity|]. exists (fun n => 1). cbn. discriminate. Qed.

Example with_is_ok : ok [] (With KErr (Seq (SetG KErr) (Loop Call))) = true.
Proof. reflexivity. Qed.
