(* C12 — which world axis reaches which object slot, and which metadata entry describes which output.
   World values and metadata are abstract tokens, so the routing is decidable and exact.
   Hand model of CompositeFrame.__init__ (metadata scatter), coordinates (value routing to sub-frames) and
   coordinate_to_quantity (gathering back), as repaired in /repo (see known_findings.json); the legacy variants are
   kept for the refutation witnesses. *)
From Coq Require Import List Arith Bool Lia Permutation.
Import ListNotations.

Section F.
  Variable V : Type.
  Variable d : V.

  (* a sub-frame is its axes_order (the world axes assigned to its slots, in slot order) *)
  Definition frame := list nat.

  Fixpoint set_nth {A} (l : list A) (k : nat) (v : A) : list A :=
    match l, k with
    | [], _ => []
    | _ :: r, O => v :: r
    | x :: r, S k' => x :: set_nth r k' v
    end.

  (* scatter: out[axes_order[k]] = vals[k] for the slots of one frame *)
  Fixpoint scatter_frame {A} (ord : frame) (vals : list A) (out : list A) : list A :=
    match ord, vals with
    | i :: ord', v :: vals' => scatter_frame ord' vals' (set_nth out i v)
    | _, _ => out
    end.

  (* CompositeFrame.__init__: per-axis metadata scattered by axes_order, frame after frame *)
  Definition scatter_all {A} (frames : list (frame * list A)) (init : list A) : list A :=
    fold_left (fun out fm => scatter_frame (fst fm) (snd fm) out) frames init.

  (* coordinates of the world values: each sub-frame receives the values of ITS world axes, in slot order *)
  Definition route (frames : list frame) (ws : list V) : list (list V) :=
    map (fun f => map (fun i => nth i ws d) f) frames.

  (* legacy shortcut (before the repair): when #args = #frames every frame got the argument at its position *)
  Definition route_legacy (frames : list frame) (ws : list V) : list (list V) :=
    if Nat.eqb (length ws) (length frames) then map (fun w => [w]) ws else route frames ws.

  (* coordinate_to_quantity of the objects: each frame's quantities go back to its world-axis positions *)
  Definition gather (n : nat) (frames : list frame) (objs : list (list V)) : list V :=
    fold_left (fun out fo => scatter_frame (fst fo) (snd fo) out) (combine frames objs) (repeat d n).
  (* legacy: concatenation in FRAME order *)
  Definition gather_legacy (objs : list (list V)) : list V := concat objs.

  Lemma set_nth_length {A} (l : list A) k v : length (set_nth l k v) = length l.
  Proof. revert k. induction l as [|x r IH]; intros [|k]; cbn; auto. Qed.
  Lemma set_nth_same {A} (l : list A) k v dd : k < length l -> nth k (set_nth l k v) dd = v.
  Proof. revert k. induction l as [|x r IH]; intros [|k] H; cbn in *; try lia; auto. apply IH. lia. Qed.
  Lemma set_nth_other {A} (l : list A) k j v dd : j <> k -> nth j (set_nth l k v) dd = nth j l dd.
  Proof. revert k j. induction l as [|x r IH]; intros [|k] [|j] H; cbn; auto; try lia. Qed.

  Lemma scatter_frame_length {A} ord : forall (vals out : list A), length (scatter_frame ord vals out) = length out.
  Proof. induction ord as [|i ord IH]; intros [|v vals] out; cbn; auto. now rewrite IH, set_nth_length. Qed.

  (* a slot's value lands on its axis, provided later slots of the same frame do not overwrite it (NoDup) *)
  Lemma scatter_frame_slot {A} (dd : A) : forall ord vals out k,
    NoDup ord -> length vals = length ord -> k < length ord -> nth k ord 0 < length out ->
    nth (nth k ord 0) (scatter_frame ord vals out) dd = nth k vals dd.
  Proof.
    induction ord as [|i ord IH]; intros [|v vals] out k Hnd Hl Hk Hb; cbn in *; try lia.
    inversion Hnd as [|? ? Hni Hnd']; subst.
    destruct k as [|k].
    - assert (Hkeep : forall o (vs : list A) out0, ~ In i o -> nth i (scatter_frame o vs out0) dd = nth i out0 dd).
      { induction o as [|j o IHo]; intros [|w vs] out0 Hn; cbn; auto.
        rewrite IHo by (intros H; apply Hn; now right). apply set_nth_other. intros ->. apply Hn. now left. }
      rewrite Hkeep by assumption. now apply set_nth_same.
    - apply IH; try assumption; try lia. now rewrite set_nth_length.
  Qed.

  Lemma scatter_frame_untouched {A} (dd : A) : forall ord vals out j,
    ~ In j ord -> nth j (scatter_frame ord vals out) dd = nth j out dd.
  Proof.
    induction ord as [|i ord IH]; intros [|v vals] out j Hn; cbn; auto.
    rewrite IH by (intros H; apply Hn; now right). apply set_nth_other. intros ->. apply Hn. now left.
  Qed.

  Lemma NoDup_app_inv {A} (a b : list A) : NoDup (a ++ b) -> NoDup a /\ NoDup b /\ (forall x, In x a -> ~ In x b).
  Proof.
    induction a as [|x a IH]; cbn; intros H.
    - repeat split; [constructor|assumption|intros x []].
    - inversion H as [|? ? Hni Hnd]; subst. destruct (IH Hnd) as [Ha [Hb Hd]]. repeat split.
      + constructor; [intros Hx; apply Hni; apply in_or_app; now left|assumption].
      + assumption.
      + intros y [->|Hy] Hyb; [apply Hni; apply in_or_app; now right|now apply (Hd y)].
  Qed.
  Lemma NoDup_app_remove_l {A} (a b : list A) : NoDup (a ++ b) -> NoDup b.
  Proof. intros H. apply NoDup_app_inv in H. tauto. Qed.
  Lemma NoDup_app_remove_r {A} (a b : list A) : NoDup (a ++ b) -> NoDup a.
  Proof. intros H. apply NoDup_app_inv in H. tauto. Qed.
  Lemma NoDup_app_disjoint {A} (a b : list A) x : NoDup (a ++ b) -> In x a -> ~ In x b.
  Proof. intros H. apply NoDup_app_inv in H. destruct H as [_ [_ H]]. apply H. Qed.

  Lemma combine_map_r_same {A B} (g : A -> B) (l : list A) : combine l (map g l) = map (fun x => (x, g x)) l.
  Proof. induction l as [|x l IH]; cbn; [reflexivity|now rewrite IH]. Qed.

  (* round trip: gather (route ws) = ws when the frames' axes partition 0..n-1 *)
  Definition covers (n : nat) (frames : list frame) : Prop :=
    NoDup (concat frames) /\ (forall i, i < n <-> In i (concat frames)).

  Lemma fold_scatter_length {A} : forall (fs : list (frame * list A)) out,
    length (fold_left (fun out fo => scatter_frame (fst fo) (snd fo) out) fs out) = length out.
  Proof. induction fs as [|fo fs IH]; intros out; cbn [fold_left]; auto. now rewrite IH, scatter_frame_length. Qed.

  Lemma fold_route_nth n ws j : length ws = n -> j < n -> forall fs out,
    length out = n -> NoDup (concat fs) -> (forall i, In i (concat fs) -> i < n) ->
    nth j (fold_left (fun out fo => scatter_frame (fst fo) (snd fo) out)
                     (map (fun f => (f, map (fun i => nth i ws d) f)) fs) out) d =
    if in_dec Nat.eq_dec j (concat fs) then nth j ws d else nth j out d.
  Proof.
    intros Hl Hjn. induction fs as [|f fs IH]; intros out Hlo Hnd' Hb; cbn [map fold_left concat].
    - destruct (in_dec Nat.eq_dec j []); [contradiction|reflexivity].
    - cbn [fst snd]. cbn [concat] in Hnd'.
      assert (Hnd_fs : NoDup (concat fs)) by (eapply NoDup_app_remove_l; exact Hnd').
      assert (Hnd_f : NoDup f) by (eapply NoDup_app_remove_r; exact Hnd').
      rewrite IH; [|now rewrite scatter_frame_length|assumption|intros i Hi; apply Hb; cbn; apply in_or_app; now right].
      destruct (in_dec Nat.eq_dec j (concat fs)) as [Hin|Hnin].
      + destruct (in_dec Nat.eq_dec j (f ++ concat fs)) as [_|Hc]; [reflexivity|exfalso; apply Hc; apply in_or_app; now right].
      + destruct (in_dec Nat.eq_dec j (f ++ concat fs)) as [Hin'|Hnin'].
        * apply in_app_or in Hin' as [Hf|Hc]; [|contradiction].
          apply (In_nth _ _ 0) in Hf as [k [Hk Hnk]]. rewrite <- Hnk.
          rewrite scatter_frame_slot; try assumption; try (now rewrite map_length).
          -- rewrite (nth_indep _ d ((fun i => nth i ws d) 0)) by (rewrite map_length; exact Hk).
             now rewrite (map_nth (fun i => nth i ws d) f 0 k).
          -- rewrite Hlo, Hnk. exact Hjn.
        * apply scatter_frame_untouched. intros Hf. apply Hnin'. apply in_or_app. now left.
  Qed.

  Theorem gather_route_id n frames ws : length ws = n -> covers n frames -> gather n frames (route frames ws) = ws.
  Proof.
    intros Hl [Hnd Hcov]. unfold gather, route. rewrite combine_map_r_same.
    apply (nth_ext _ _ d d).
    - now rewrite fold_scatter_length, repeat_length.
    - intros j Hj. rewrite fold_scatter_length, repeat_length in Hj.
      rewrite (fold_route_nth n ws j Hl Hj); [|apply repeat_length|assumption|intros i Hi; now apply Hcov].
      destruct (in_dec Nat.eq_dec j (concat frames)) as [_|Hn]; [reflexivity|exfalso; apply Hn; now apply Hcov].
  Qed.

  (* metadata: entry i of the composite frame's units / names / physical types / components is the entry of the
     slot that owns world axis i *)
  Theorem metadata_describes_output {A} (dd : A) (frames : list (frame * list A)) init (fi k : nat) :
    NoDup (concat (map fst frames)) -> (forall fm, In fm frames -> length (snd fm) = length (fst fm)) ->
    (forall i, In i (concat (map fst frames)) -> i < length init) ->
    fi < length frames -> k < length (fst (nth fi frames ([], []))) ->
    nth (nth k (fst (nth fi frames ([], []))) 0) (scatter_all frames init) dd = nth k (snd (nth fi frames ([], []))) dd.
  Proof.
    unfold scatter_all. revert init fi. induction frames as [|fm frames IH]; intros init fi Hnd Hlen Hb Hfi Hk; [cbn in Hfi; lia|].
    cbn [map concat] in Hnd. cbn [fold_left].
    assert (Hnd_f : NoDup (fst fm)) by (eapply NoDup_app_remove_r; exact Hnd).
    assert (Hnd_r : NoDup (concat (map fst frames))) by (eapply NoDup_app_remove_l; exact Hnd).
    destruct fi as [|fi].
    - cbn [nth] in *.
      assert (Hkeep : forall fs out j, ~ In j (concat (map fst fs)) ->
                nth j (fold_left (fun out fm => scatter_frame (fst fm) (snd fm) out) fs out) dd = nth j out dd).
      { induction fs as [|g fs IHf]; intros out j Hn; cbn [fold_left]; [reflexivity|].
        cbn [map concat] in Hn. rewrite IHf by (intros H; apply Hn; apply in_or_app; now right).
        apply scatter_frame_untouched. intros H. apply Hn. apply in_or_app. now left. }
      rewrite Hkeep.
      + apply scatter_frame_slot; try assumption.
        * apply Hlen. now left.
        * apply Hb. cbn [map concat]. apply in_or_app. left. now apply nth_In.
      + apply (NoDup_app_disjoint _ _ _ Hnd). apply nth_In. exact Hk.
    - cbn [nth] in *. apply IH; try assumption.
      + intros g Hg. apply Hlen. now right.
      + intros i Hi. rewrite scatter_frame_length. apply Hb. cbn [map concat]. apply in_or_app. now right.
      + cbn in Hfi. lia.
  Qed.
End F.

(* ---------- refutation witnesses of the legacy code (repaired / known, see known_findings.json) -------------- *)
(* all-1-D composite in permuted order: the shortcut ignored axes_order *)
Example shortcut_refuted :
  route_legacy nat 0 [[1]; [0]] [10; 20] = [[10]; [20]] /\ route nat 0 [[1]; [0]] [10; 20] = [[20]; [10]].
Proof. split; reflexivity. Qed.

(* frames listed out of world-axis order: quantities came back in frame order *)
Example gather_frame_order_refuted :
  let frames := [[1; 2]; [0]] in let ws := [7; 8; 9] in
  gather_legacy nat (route nat 0 frames ws) = [8; 9; 7] /\ gather nat 0 3 frames (route nat 0 frames ws) = ws.
Proof. split; reflexivity. Qed.

Example covers_example : covers 3 [[1; 2]; [0]].
Proof.
  split; [cbn; repeat constructor; cbn; intuition lia|].
  intros i. cbn. split; [intros H; destruct i as [|[|[|i]]]; intuition lia | intuition lia].
Qed.
