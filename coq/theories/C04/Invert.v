(* C04 — inverse results and in_image respect the bounding box on every inversion path.
   Hand model (per point; batches are pointwise, C06) of WCS.invert's routing, the blanking tail of the iterative
   solver and WCS.in_image, with IEEE binary64 comparisons. *)
From Coq Require Import ZArith List Bool PrimFloat.
From GW Require Import Base.Fl C03.BBox.
Import ListNotations.

Definition all_finite (p : list float) : bool := forallb is_finite p.
(* closed box test used by the solver tail and by in_image: (c >= x1) & (c <= x2) on every axis *)
Fixpoint within (b : list interval) (p : list float) : bool :=
  match b, p with
  | iv :: b', c :: p' => PrimFloat.leb (fst iv) c && PrimFloat.leb c (snd iv) && within b' p'
  | _, _ => true
  end.

Section Inv.
  Variable npix : nat.
  Variable box : option (list interval).
  Variable analytic : option (list float -> list float).   (* backward_transform, when it exists *)
  Variable solve : list float -> list float.               (* raw result of the fixed-point iteration (NaN where invalid) *)

  Definition dflt_b (o : option bool) := match o with Some v => v | None => true end.
  Definition dflt_f (o : option float) := match o with Some v => v | None => nan end.

  (* tail of _vectorized_fixed_point: invalid (non-finite) solutions are left alone, valid ones outside the box are blanked *)
  Definition numerical_inverse (wb : option bool) (fill : option float) (x : list float) : list float :=
    let p := solve x in
    match box with
    | Some b => if dflt_b wb && all_finite p && negb (within b p) then repeat (dflt_f fill) npix else p
    | None => p
    end.

  (* masked := every inversion path blanks results outside the box.  analytic_masks = false is the code as it stands
     (the backward transform carries no box, so the forwarded with_bounding_box / fill_value do nothing). *)
  Variable analytic_masks : bool.
  Definition invert (wb : option bool) (fill : option float) (x : list float) : list float :=
    match analytic with
    | Some inv =>
        let p := inv x in
        match box with
        | Some b => if analytic_masks && dflt_b wb && outside b p then repeat (dflt_f fill) npix else p
        | None => p
        end
    | None => numerical_inverse wb fill x
    end.

  (* in_image: finite(invert(with_bounding_box=True, fill=nan)) on every axis, then the explicit closed-box test *)
  Definition in_image (x : list float) : bool :=
    let c := invert (Some true) (Some nan) x in
    let r := all_finite c in
    match box with
    | None => r
    | Some b => if r then within b c else false
    end.

  Definition raw (x : list float) : list float := match analytic with Some inv => inv x | None => solve x end.

  (* in_image is right on BOTH paths of the code as it stands (analytic path unmasked, iterative path masked) *)
  Theorem in_image_spec x : analytic_masks = false -> (0 < npix)%nat ->
    in_image x = all_finite (raw x) && match box with Some b => within b (raw x) | None => true end.
  Proof.
    intros Hm Hn. unfold in_image, invert, numerical_inverse, raw in *. rewrite Hm.
    destruct analytic as [inv|]; destruct box as [b|]; cbn [dflt_b dflt_f andb].
    - destruct (all_finite (inv x)); reflexivity.
    - now rewrite andb_true_r.
    - destruct (all_finite (solve x)) eqn:Ef; cbn [andb].
      + destruct (within b (solve x)) eqn:Ew; cbn [negb]; [now rewrite Ef|].
        destruct npix as [|n]; [inversion Hn|]. cbn [repeat all_finite forallb]. reflexivity.
      + now rewrite Ef.
    - now rewrite andb_true_r.
  Qed.

  (* consequences used by the no-box / open-box probes: a world point whose pixel position is not finite on some axis is never in
     the image, whatever the box (also a box open to infinity); without a box, finiteness is the whole test *)
  Corollary in_image_needs_finite x : analytic_masks = false -> (0 < npix)%nat ->
    in_image x = true -> all_finite (raw x) = true.
  Proof. intros Hm Hn H. rewrite (in_image_spec x Hm Hn) in H. now apply andb_prop in H. Qed.

  Corollary nonfinite_pixel_not_in_image x : analytic_masks = false -> (0 < npix)%nat ->
    existsb (fun c => negb (is_finite c)) (raw x) = true -> in_image x = false.
  Proof.
    intros Hm Hn H. destruct (in_image x) eqn:E; [|reflexivity].
    pose proof (in_image_needs_finite x Hm Hn E) as Hf. unfold all_finite in Hf. rewrite forallb_forall in Hf.
    apply existsb_exists in H. destruct H as [c [Hin Hc]]. rewrite (Hf c Hin) in Hc. discriminate Hc.
  Qed.

  Corollary in_image_without_box x : analytic_masks = false -> (0 < npix)%nat -> box = None ->
    in_image x = all_finite (raw x).
  Proof. intros Hm Hn Hb. rewrite (in_image_spec x Hm Hn), Hb. apply andb_true_r. Qed.

  (* the iterative path masks exactly the valid solutions that fall outside the closed box *)
  Theorem iterative_masks b wb fill x : box = Some b -> analytic = None ->
    invert wb fill x =
    if dflt_b wb && all_finite (solve x) && negb (within b (solve x)) then repeat (dflt_f fill) npix else solve x.
  Proof. intros Hb Ha. unfold invert, numerical_inverse. now rewrite Ha, Hb. Qed.

  Theorem masking_off_ignores_box fill x : invert (Some false) fill x = raw x.
  Proof.
    unfold invert, numerical_inverse, raw. destruct analytic; destruct box; cbn [dflt_b andb]; try reflexivity.
    now rewrite andb_false_r.
  Qed.
End Inv.

(* FULL STATEMENT of the clause about invert (both paths mask): it holds of the model iff analytic_masks = true.
   The code as it stands is the instance analytic_masks = false — KNOWN FINDING C04/analytic-path-unmasked: *)
Definition invert_masks_both_paths (analytic_masks : bool) : Prop :=
  forall npix b inv solve fill x, outside b (inv x) = true ->
    invert npix (Some b) (Some inv) solve analytic_masks None fill x = repeat (dflt_f fill) npix.

Theorem invert_masks_when_analytic_masks : invert_masks_both_paths true.
Proof. intros npix b inv solve fill x H. unfold invert. cbn. now rewrite H. Qed.

Theorem invert_analytic_unmasked_refuted : ~ invert_masks_both_paths false.
Proof.
  intros H. specialize (H 1%nat [(mk 2%Z 0%Z, mk 7%Z 0%Z)] (fun _ => [mk 22%Z 0%Z]) (fun _ => [nan]) None [mk 50%Z 0%Z]).
  assert (Ho : outside [(mk 2%Z 0%Z, mk 7%Z 0%Z)] [mk 22%Z 0%Z] = true) by (vm_compute; reflexivity).
  specialize (H Ho).
  apply (f_equal (fun l => match l with c :: _ => is_nan c | [] => false end)) in H. vm_compute in H. discriminate H.
Qed.

(* executable checkers for the correspondence cases *)
Definition check_invert (npix : nat) (box : option (list interval)) (has_analytic : bool) (raw_sol : list float)
           (wb : option bool) (fill : option float) (got : list float) : bool :=
  row_same (invert npix box (if has_analytic then Some (fun _ => raw_sol) else None) (fun _ => raw_sol) false wb fill []) got.
Definition check_in_image (npix : nat) (box : option (list interval)) (has_analytic : bool) (raw_sol : list float) (got : bool) : bool :=
  Bool.eqb (in_image npix box (if has_analytic then Some (fun _ => raw_sol) else None) (fun _ => raw_sol) false []) got.
