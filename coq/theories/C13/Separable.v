(* C13 — soundness of the axis correlation matrix.

   gwcs/api.py::axis_correlation_matrix forwards astropy.modeling.separable.separability_matrix of the
   forward transform.  This file models that computation on transform expressions (leaves that act per
   axis, leaves that mix all axes, Mapping, `|`, `&`, arithmetic operators) exactly as separable.py performs
   it (boolean image of the integer coordinate matrices: `&` = block diagonal, `|` = matrix product,
   arithmetic = all ones, top-level "1 input, several outputs" = all ones) and proves, by induction over the
   expression, the clause of the property: an entry `false` at (world i, pixel j) means that no change of
   pixel coordinate j — indeed no change of any set of pixel coordinates marked false in row i — can change
   world coordinate i.  The executable `depmat` is what the correspondence check compares entry by entry
   with the matrix the implementation returns for randomly built compound transforms. *)
From Coq Require Import List Arith Bool ZArith Lia.
Import ListNotations.

(* ---- expressions -------------------------------------------------------------------------------- *)
Inductive tx :=
| LeafSep (fs : list (Z -> Z))                          (* n inputs, n outputs, output k = fs[k] (input k); model.separable *)
| LeafMix (nin nout : nat) (f : list Z -> list Z)       (* not model.separable: any output may use any input          *)
| Map (nin : nat) (m : list nat)                        (* Mapping(m, n_inputs=nin): output k = input m[k]            *)
| Comp (a b : tx)                                       (* a | b *)
| Par (a b : tx)                                        (* a & b *)
| Arith (op : Z -> Z -> Z) (a b : tx).                  (* a + b, a - b, a * b, ...                                   *)

Fixpoint nin (e : tx) : nat :=
  match e with
  | LeafSep fs => length fs
  | LeafMix n _ _ => n
  | Map n _ => n
  | Comp a _ => nin a
  | Par a b => nin a + nin b
  | Arith _ a _ => nin a
  end.

Fixpoint nout (e : tx) : nat :=
  match e with
  | LeafSep fs => length fs
  | LeafMix _ n _ => n
  | Map _ m => length m
  | Comp _ b => nout b
  | Par a b => nout a + nout b
  | Arith _ a _ => nout a
  end.

Fixpoint zipapp (fs : list (Z -> Z)) (x : list Z) : list Z :=
  match fs, x with
  | f :: fs', v :: x' => f v :: zipapp fs' x'
  | _, _ => []
  end.

Fixpoint map2 (op : Z -> Z -> Z) (l1 l2 : list Z) : list Z :=
  match l1, l2 with
  | u :: l1', v :: l2' => op u v :: map2 op l1' l2'
  | _, _ => []
  end.

Fixpoint eval (e : tx) (x : list Z) : list Z :=
  match e with
  | LeafSep fs => zipapp fs x
  | LeafMix _ _ f => f x
  | Map _ m => map (fun k => nth k x 0%Z) m
  | Comp a b => eval b (eval a x)
  | Par a b => eval a (firstn (nin a) x) ++ eval b (skipn (nin a) x)
  | Arith op a b => map2 op (eval a x) (eval b x)
  end.

(* what the library rejects at construction time (ModelDefinitionError) or cannot express *)
Fixpoint wf (e : tx) : Prop :=
  match e with
  | LeafSep _ => True
  | LeafMix n m f => forall x, length x = n -> length (f x) = m
  | Map n m => Forall (fun k => k < n) m
  | Comp a b => wf a /\ wf b /\ nout a = nin b
  | Par a b => wf a /\ wf b
  | Arith _ a b => wf a /\ wf b /\ nin a = nin b /\ nout a = nout b
  end.

(* ---- the matrix, entry (output i, input j) ------------------------------------------------------ *)
Fixpoint dep (e : tx) (i j : nat) : bool :=
  match e with
  | LeafSep _ => Nat.eqb i j
  | LeafMix _ _ _ => true
  | Map _ m => Nat.eqb (nth i m 0) j
  | Comp a b => existsb (fun k => dep b i k && dep a k j) (seq 0 (nout a))
  | Par a b =>
      if Nat.ltb i (nout a) then Nat.ltb j (nin a) && dep a i j
      else Nat.leb (nin a) j && dep b (i - nout a) (j - nin a)
  | Arith _ _ _ => true
  end.

(* separability_matrix: the top-level short cut, then the boolean image of _separable *)
Definition depmat (e : tx) : list (list bool) :=
  if Nat.eqb (nin e) 1 && Nat.ltb 1 (nout e)
  then map (fun _ => map (fun _ => true) (seq 0 (nin e))) (seq 0 (nout e))
  else map (fun i => map (fun j => dep e i j) (seq 0 (nin e))) (seq 0 (nout e)).

Definition mat_entry (M : list (list bool)) (i j : nat) : bool := nth j (nth i M []) true.

(* ---- lengths ------------------------------------------------------------------------------------ *)
Lemma zipapp_length fs x : length x = length fs -> length (zipapp fs x) = length fs.
Proof.
  revert x; induction fs as [|f fs IH]; intros [|v x] H; simpl in *; try lia.
  rewrite IH; lia.
Qed.

Lemma map2_length op l1 l2 : length l1 = length l2 -> length (map2 op l1 l2) = length l1.
Proof.
  revert l2; induction l1 as [|u l1 IH]; intros [|v l2] H; simpl in *; try lia.
  rewrite IH; lia.
Qed.

Lemma eval_length e : wf e -> forall x, length x = nin e -> length (eval e x) = nout e.
Proof.
  induction e as [fs|n m f|n m|a IHa b IHb|a IHa b IHb|op a IHa b IHb]; simpl; intros W x L.
  - apply zipapp_length; exact L.
  - apply W; exact L.
  - apply map_length.
  - destruct W as (Wa & Wb & E). apply IHb; [exact Wb|]. rewrite IHa; auto.
  - destruct W as (Wa & Wb). rewrite app_length, IHa, IHb; auto.
    + rewrite skipn_length; lia.
    + rewrite firstn_length; lia.
  - destruct W as (Wa & Wb & E1 & E2). rewrite map2_length; [apply IHa; auto|].
    rewrite IHa, IHb; auto; lia.
Qed.

(* ---- element access ----------------------------------------------------------------------------- *)
Lemma nth_zipapp fs : forall x i, i < length fs -> length x = length fs ->
  nth i (zipapp fs x) 0%Z = (nth i fs (fun v => v)) (nth i x 0%Z).
Proof.
  induction fs as [|f fs IH]; intros [|v x] i Hi L; simpl in *; try lia.
  destruct i as [|i]; [reflexivity|]. apply IH; lia.
Qed.

Lemma nth_map2 op : forall l1 l2 i, i < length l1 -> length l1 = length l2 ->
  nth i (map2 op l1 l2) 0%Z = op (nth i l1 0%Z) (nth i l2 0%Z).
Proof.
  induction l1 as [|u l1 IH]; intros [|v l2] i Hi L; simpl in *; try lia.
  destruct i as [|i]; [reflexivity|]. apply IH; lia.
Qed.

Lemma nth_map_idx (x : list Z) m i : i < length m ->
  nth i (map (fun k => nth k x 0%Z) m) 0%Z = nth (nth i m 0) x 0%Z.
Proof.
  intros Hi. rewrite (nth_indep _ 0%Z (nth 0 x 0%Z)) by (rewrite map_length; exact Hi).
  apply (map_nth (fun k => nth k x 0%Z)).
Qed.

Lemma nth_firstn_lt (x : list Z) n j : j < n -> nth j (firstn n x) 0%Z = nth j x 0%Z.
Proof.
  revert x j; induction n as [|n IH]; intros x j H; [lia|].
  destruct x as [|v x]; [destruct j; reflexivity|]. destruct j as [|j]; simpl; [reflexivity|]. apply IH; lia.
Qed.

Lemma nth_skipn_add (x : list Z) n j : nth j (skipn n x) 0%Z = nth (n + j) x 0%Z.
Proof.
  revert x; induction n as [|n IH]; intros x; [reflexivity|].
  destruct x as [|v x]; [destruct j; reflexivity|]. simpl. apply IH.
Qed.

(* ---- soundness ---------------------------------------------------------------------------------- *)
(* two input vectors that agree on every coordinate row i is marked as depending on give the same output i *)
Theorem dep_sound e : wf e -> forall i x x',
  i < nout e -> length x = nin e -> length x' = nin e ->
  (forall j, j < nin e -> dep e i j = true -> nth j x 0%Z = nth j x' 0%Z) ->
  nth i (eval e x) 0%Z = nth i (eval e x') 0%Z.
Proof.
  induction e as [fs|n m f|n m|a IHa b IHb|a IHa b IHb|op a IHa b IHb]; cbn [eval nin nout wf dep]; intros W i x x' Hi L L' A.
  - rewrite !nth_zipapp by assumption. f_equal. apply A; [exact Hi|apply Nat.eqb_refl].
  - f_equal. f_equal. apply (nth_ext _ _ 0%Z 0%Z); [congruence|]. intros j Hj. apply A; [lia|reflexivity].
  - rewrite !nth_map_idx by exact Hi. apply A; [|apply Nat.eqb_refl].
    rewrite Forall_forall in W. apply W. apply nth_In. exact Hi.
  - destruct W as (Wa & Wb & E).
    apply IHb; [exact Wb|exact Hi|rewrite eval_length; auto|rewrite eval_length; auto|].
    intros k Hk Dk. apply IHa; [exact Wa|lia|exact L|exact L'|].
    intros j Hj Dj. apply A; [exact Hj|]. apply existsb_exists. exists k. split.
    + apply in_seq. lia.
    + rewrite Dk, Dj. reflexivity.
  - destruct W as (Wa & Wb).
    assert (La : length (firstn (nin a) x) = nin a) by (rewrite firstn_length; lia).
    assert (La' : length (firstn (nin a) x') = nin a) by (rewrite firstn_length; lia).
    assert (Lb : length (skipn (nin a) x) = nin b) by (rewrite skipn_length; lia).
    assert (Lb' : length (skipn (nin a) x') = nin b) by (rewrite skipn_length; lia).
    destruct (Nat.ltb i (nout a)) eqn:Hlt.
    + apply Nat.ltb_lt in Hlt.
      rewrite !app_nth1 by (rewrite eval_length; auto).
      apply IHa; auto. intros j Hj Dj. rewrite !nth_firstn_lt by exact Hj.
      apply A; [lia|]. apply andb_true_intro. split; [apply Nat.ltb_lt; exact Hj|exact Dj].
    + apply Nat.ltb_ge in Hlt.
      rewrite !app_nth2 by (rewrite eval_length; auto).
      rewrite !eval_length by auto.
      apply IHb; auto; [lia|]. intros j Hj Dj. rewrite !nth_skipn_add.
      apply A; [lia|]. apply andb_true_intro. split; [apply Nat.leb_le; lia|].
      replace (nin a + j - nin a) with j by lia. exact Dj.
  - destruct W as (Wa & Wb & E1 & E2).
    rewrite !nth_map2; try (rewrite !eval_length; auto; lia).
    f_equal.
    + apply IHa; [exact Wa|exact Hi|exact L|exact L'|]. intros j Hj _. apply A; [exact Hj|reflexivity].
    + apply IHb; [exact Wb|lia|lia|lia|]. intros j Hj _. apply A; [lia|reflexivity].
Qed.

(* the same for the matrix as separability_matrix returns it (with the top-level short cut) *)
Lemma nth_map_seq {A} (f : nat -> A) n i d : i < n -> nth i (map f (seq 0 n)) d = f i.
Proof.
  intros H. transitivity (nth i (map f (seq 0 n)) (f 0)).
  - apply nth_indep. rewrite map_length, seq_length. exact H.
  - rewrite map_nth. rewrite seq_nth by exact H. reflexivity.
Qed.

Lemma mat_entry_depmat e i j : i < nout e -> j < nin e ->
  mat_entry (depmat e) i j = false -> dep e i j = false.
Proof.
  intros Hi Hj. unfold mat_entry, depmat.
  destruct (Nat.eqb (nin e) 1 && Nat.ltb 1 (nout e)).
  - rewrite nth_map_seq by exact Hi. rewrite nth_map_seq by exact Hj. discriminate.
  - rewrite nth_map_seq by exact Hi. rewrite nth_map_seq by exact Hj. auto.
Qed.

(* the clause of C13: a `False` entry (world i, pixel j) — changing pixel coordinate j alone never changes world coordinate i *)
Theorem correlation_matrix_sound e : wf e -> forall i j x x',
  i < nout e -> j < nin e -> length x = nin e -> length x' = nin e ->
  mat_entry (depmat e) i j = false ->
  (forall k, k <> j -> nth k x 0%Z = nth k x' 0%Z) ->
  nth i (eval e x) 0%Z = nth i (eval e x') 0%Z.
Proof.
  intros W i j x x' Hi Hj L L' M A.
  apply dep_sound; auto. intros k Hk Dk. apply A. intros ->.
  rewrite (mat_entry_depmat e i j Hi Hj M) in Dk. discriminate.
Qed.

(* ... and any set of pixel coordinates all marked `False` in row i may change together *)
Theorem correlation_row_sound e : wf e -> forall i x x',
  i < nout e -> length x = nin e -> length x' = nin e ->
  (forall j, j < nin e -> mat_entry (depmat e) i j = true -> nth j x 0%Z = nth j x' 0%Z) ->
  nth i (eval e x) 0%Z = nth i (eval e x') 0%Z.
Proof.
  intros W i x x' Hi L L' A. apply dep_sound; auto. intros j Hj Dj. apply A; [exact Hj|].
  destruct (mat_entry (depmat e) i j) eqn:M; [reflexivity|].
  rewrite (mat_entry_depmat e i j Hi Hj M) in Dj. discriminate.
Qed.

(* the shape of the matrix is (world_n_dim, pixel_n_dim) *)
Theorem depmat_shape e : length (depmat e) = nout e /\ Forall (fun r => length r = nin e) (depmat e).
Proof.
  unfold depmat. destruct (Nat.eqb (nin e) 1 && Nat.ltb 1 (nout e)); split;
    try (rewrite map_length, seq_length; reflexivity);
    apply Forall_forall; intros r Hr; apply in_map_iff in Hr; destruct Hr as (k & <- & _);
    rewrite map_length, seq_length; reflexivity.
Qed.

(* non-vacuity: the matrix of  Shift & Shift | Mapping([0,1,0,1]) | Poly2D & Poly2D  (separable.py's own example: all True)
   and of a 3-axis imaging+spectral arrangement with a genuinely False entry that the theorem speaks about *)
Definition ex_cube : tx :=
  Comp (Par (LeafSep [Z.add 1; Z.add 2]) (LeafSep [Z.mul 3]))
       (Par (LeafMix 2 2 (fun v => [nth 0 v 0 + nth 1 v 0; nth 0 v 0 - nth 1 v 0])%Z) (LeafSep [Z.add 5])).

Example ex_cube_matrix : depmat ex_cube = [[true; true; false]; [true; true; false]; [false; false; true]].
Proof. vm_compute. reflexivity. Qed.

Example ex_cube_wf : wf ex_cube.
Proof. simpl. repeat split; auto. Qed.

Example ex_cube_independent : forall p q r r',
  nth 0 (eval ex_cube [p; q; r]) 0%Z = nth 0 (eval ex_cube [p; q; r']) 0%Z.
Proof.
  intros. apply (correlation_matrix_sound ex_cube ex_cube_wf 0 2); simpl; auto.
  intros [|[|[|k]]] Hk; simpl; auto; congruence.
Qed.

(* executable comparison used by the correspondence check *)
Fixpoint list_beq {A} (eqb : A -> A -> bool) (l1 l2 : list A) : bool :=
  match l1, l2 with
  | [], [] => true
  | u :: l1', v :: l2' => eqb u v && list_beq eqb l1' l2'
  | _, _ => false
  end.

Definition check_matrix (c : tx * list (list bool)) : bool :=
  list_beq (list_beq Bool.eqb) (depmat (fst c)) (snd c).

(* shape-only stand-ins for leaves, enough for `depmat` (which never looks at the functions) *)
Definition sepn (n : nat) : tx := LeafSep (repeat (fun v => v) n).
Definition mixn (n m : nat) : tx := LeafMix n m (fun _ => repeat 0%Z m).
Definition addn (a b : tx) : tx := Arith Z.add a b.

(* integer-exact leaves used by the correspondence check to compare `eval` with the implementation's evaluation *)
Definition aff2 (a b c d e f : Z) : tx :=
  LeafMix 2 2 (fun v => [a * nth 0 v 0 + b * nth 1 v 0 + e; c * nth 0 v 0 + d * nth 1 v 0 + f])%Z.
Definition poly21 (a b c : Z) : tx := LeafMix 2 1 (fun v => [a + b * nth 0 v 0 + c * nth 1 v 0])%Z.
Definition shift (k : Z) : tx := LeafSep [fun v => (v + k)%Z].
Definition scale (k : Z) : tx := LeafSep [fun v => (v * k)%Z].

Definition check_case (c : tx * list (list bool) * list (list Z * list Z)) : bool :=
  match c with
  | (e, M, pts) => check_matrix (e, M) && forallb (fun p => list_beq Z.eqb (eval e (fst p)) (snd p)) pts
  end.
