(* utils._toindex : floor(x + 0.5).  Exact (rational) convention and the binary64 instance. *)
From Coq Require Import ZArith List Bool Lia PrimFloat.
From GW Require Import Base.Fl.
Import ListNotations.
Local Open Scope Z_scope.

(* value n/d with d > 0 *)
Definition toindex_Q (n d : Z) : Z := (2 * n + d) / (2 * d).

(* nearest pixel centre, ties up: k - 1/2 <= n/d < k + 1/2 *)
Theorem toindex_nearest_halfup n d k : 0 < d ->
  toindex_Q n d = k <-> (2 * k - 1) * d <= 2 * n < (2 * k + 1) * d.
Proof.
  intros Hd. unfold toindex_Q.
  pose proof (Z.div_mod (2 * n + d) (2 * d) ltac:(lia)) as Hdm.
  pose proof (Z.mod_pos_bound (2 * n + d) (2 * d) ltac:(lia)) as Hr.
  set (q := (2 * n + d) / (2 * d)) in *. set (r := (2 * n + d) mod (2 * d)) in *.
  split; intros H.
  - subst k. nia.
  - assert (q < k + 1) by nia. assert (k - 1 < q) by nia. lia.
Qed.

Lemma toindex_translate n d t : 0 < d -> toindex_Q (n + t * d) d = toindex_Q n d + t.
Proof.
  intros Hd. unfold toindex_Q. replace (2 * (n + t * d) + d) with (2 * n + d + t * (2 * d)) by lia.
  rewrite Z.div_add by lia. reflexivity.
Qed.

(* the code, in binary64 *)
Definition half : float := Eval compute in mk 1 (-1).
Definition toindex_fl (x : float) : Z := floorZ (PrimFloat.add x half).

(* finite sweep: on all multiples of 1/8 with |x| <= 256 the float code equals the exact convention *)
Fixpoint zrange (lo : Z) (n : nat) : list Z := match n with O => [] | S n' => lo :: zrange (lo + 1) n' end.
Definition sweep_eighths : bool :=
  forallb (fun n => toindex_fl (mk n (-3)) =? toindex_Q n 8) (zrange (-2048) 4097).
Theorem toindex_fl_eighths : sweep_eighths = true.
Proof. vm_compute. reflexivity. Qed.

(* KNOWN FINDING half-minus-ulp: the largest double below 0.5 lies in cell 0 but x + 0.5 rounds to 1.0 *)
Example toindex_half_minus_ulp_refuted :
  toindex_fl (mk 9007199254740991 (-54)) = 1 /\ toindex_Q 9007199254740991 (2 ^ 54) = 0.
Proof. vm_compute. split; reflexivity. Qed.
