(* C08 — answers depend only on the current pipeline, never on earlier queries.
   A WCS object = current pipeline state P + a cached seed (the approximate inverse) computed from SOME
   earlier pipeline.  Queries may read and fill the cache; edits change P.  If every edit resets the cache
   (and queries write nothing else), the cache is always absent or the one a fresh twin would compute, so every
   answer equals the fresh twin's answer — for every finite interleaving. *)
From Coq Require Import List Bool.
Import ListNotations.

Section H.
  Variables (P S Q A : Type).
  Variable seed_of : P -> S.                 (* _calc_approx_inv on the current pipeline / box *)
  Variable answer : P -> S -> Q -> A.        (* the query's answer given the pipeline and the seed used *)

  Record obj := { cur : P; cache : option S }.
  Definition fresh (p : P) : obj := {| cur := p; cache := None |}.

  Inductive op :=
    | Edit (f : P -> P) (resets : bool)      (* resets = the method assigns _approx_inverse = None *)
    | Query (q : Q) (uses_cache : bool).     (* uses_cache = the query goes through numerical_inverse *)

  Definition seed_used (o : obj) : S := match cache o with Some s => s | None => seed_of (cur o) end.

  Definition step (o : obj) (x : op) : obj * option A :=
    match x with
    | Edit f r => ({| cur := f (cur o); cache := if r then None else cache o |}, None)
    | Query q true => ({| cur := cur o; cache := Some (seed_used o) |}, Some (answer (cur o) (seed_used o) q))
    | Query q false => (o, Some (answer (cur o) (seed_of (cur o)) q))
    end.

  Definition coherent (o : obj) : Prop := cache o = None \/ cache o = Some (seed_of (cur o)).
  Definition all_reset (ops : list op) : Prop := forall f r, In (Edit f r) ops -> r = true.

  Lemma step_coherent o x : coherent o -> (forall f r, x = Edit f r -> r = true) -> coherent (fst (step o x)).
  Proof.
    intros Hc Hx. destruct x as [f r|q [|]]; cbn.
    - rewrite (Hx f r eq_refl). now left.
    - right. unfold seed_used. destruct Hc as [-> | ->]; reflexivity.
    - exact Hc.
  Qed.

  (* the answer of a query on a coherent object is the fresh twin's answer *)
  Lemma coherent_answer o q u : coherent o ->
    snd (step o (Query q u)) = snd (step (fresh (cur o)) (Query q u)).
  Proof.
    intros Hc. destruct u; cbn; [|reflexivity]. unfold seed_used. cbn.
    destruct Hc as [-> | ->]; reflexivity.
  Qed.

  Fixpoint run (o : obj) (ops : list op) : obj :=
    match ops with [] => o | x :: r => run (fst (step o x)) r end.

  Lemma run_coherent : forall ops o, coherent o -> all_reset ops -> coherent (run o ops).
  Proof.
    induction ops as [|x ops IH]; intros o Hc Hall; cbn [run]; [assumption|].
    apply IH.
    - apply step_coherent; [assumption|]. intros f r ->. apply (Hall f r). now left.
    - intros f r Hin. apply (Hall f r). now right.
  Qed.

  (* history independence: after ANY interleaving of resetting edits and queries, the next query returns
     what a freshly built twin with the same pipeline returns *)
  Theorem history_independent (p0 : P) (ops : list op) (q : Q) (u : bool) :
    all_reset ops ->
    snd (step (run (fresh p0) ops) (Query q u)) =
    snd (step (fresh (cur (run (fresh p0) ops))) (Query q u)).
  Proof. intros Hall. apply coherent_answer. apply run_coherent; [now left|assumption]. Qed.

  (* queries never change the pipeline *)
  Theorem queries_keep_pipeline o q u : cur (fst (step o (Query q u))) = cur o.
  Proof. destruct u; reflexivity. Qed.
End H.

(* without the reset the property is false: edit after a cached query (the defect repaired in /repo) *)
Example stale_cache_refuted :
  let seed_of (p : nat) := p in
  let answer (p s q : nat) := s in
  let ops := [Query _ _ 0 true; Edit _ _ (fun _ => 7) false] in
  snd (step _ _ _ _ seed_of answer (run _ _ _ _ seed_of answer (fresh _ _ 1) ops) (Query _ _ 0 true))
  <> snd (step _ _ _ _ seed_of answer (fresh _ _ 7) (Query _ _ 0 true)).
Proof. cbn. discriminate. Qed.

(* ---------- obligations on the write table regenerated from the source -------------------- *)
From Coq Require Import String.
Local Open Scope string_scope.
Definition mem (s : string) (l : list string) : bool := existsb (String.eqb s) l.
Definition subset (a b : list string) : bool := forallb (fun x => mem x b) a.
Fixpoint lookup (m : string) (t : list (string * list string)) : list string :=
  match t with [] => [] | (k, v) :: r => if String.eqb k m then v else lookup m r end.

(* every edit method (transitively) assigns _approx_inverse = None *)
Definition edits_reset (resets : list (string * list string)) (edits : list string) : bool :=
  forallb (fun m => mem "_approx_inverse" (lookup m resets)) edits.
(* every query method (transitively) assigns nothing but the cache *)
Definition queries_pure (writes : list (string * list string)) (queries : list string) : bool :=
  forallb (fun m => subset (lookup m writes) ["_approx_inverse"]) queries.

(* no query mutates in place an object it obtained from the WCS, other than through the listed (benign, idempotent) sources: an
   attribute-write table cannot see `bb = self.bounding_box; bb[i] = ...` *)
Definition queries_alias_clean (alias_writes : list (string * list string)) (allowed queries : list string) : bool :=
  forallb (fun m => subset (lookup m alias_writes) allowed) queries.
