(* C15 — region selection: hand model (exact integer / scaled-integer arithmetic) of LabelMapperArray, LabelMapperRange
   (incl. its overlap check), LabelMapperDict, RegionsSelector.evaluate / set_input, and their theorems. *)
From Coq Require Import ZArith List Bool Lia ZifyBool Sorted Permutation.
From GW Require Import Base.Py C13.Toindex C14.Model C14.Proofs.
Import ListNotations.
Local Open Scope Z_scope.

(* ---------- LabelMapperArray: mask[y, x] after rounding to pixel centres ------------------------------- *)
(* indices have been rounded by _toindex (C13); numpy indexing wraps negative indices and raises IndexError beyond the far edge *)
Definition lma_eval (mask : list (list Z)) (ix iy : Z) : res Z :=
  do row <- py_getitem mask iy; py_getitem row ix.

Lemma py_getitem_in {A} (l : list A) (i : nat) d : (i < length l)%nat -> py_getitem l (Z.of_nat i) = Ok (nth i l d).
Proof.
  intros H. unfold py_getitem, Py.zlen.
  assert (E : (Z.of_nat i <? 0) = false) by lia. cbv zeta. rewrite !E. cbn [orb].
  replace (Z.of_nat (length l) <=? Z.of_nat i) with false by lia.
  rewrite Nat2Z.id. destruct (nth_error l i) eqn:En.
  - f_equal. symmetry. now apply nth_error_nth.
  - apply nth_error_None in En. lia.
Qed.

Lemma py_getitem_far {A} (l : list A) (i : Z) : Py.zlen l <= i -> py_getitem l i = Err IndexError.
Proof.
  intros H. unfold py_getitem, Py.zlen in *. assert (E : (i <? 0) = false) by lia. cbv zeta. rewrite !E. cbn [orb].
  replace (Z.of_nat (length l) <=? i) with true by lia. reflexivity.
Qed.

(* the cell whose pixel area contains the point: point (nxp/d, nyp/d), cell (kx, ky) = nearest centres, ties up *)
Theorem array_cell_correct (mask : list (list Z)) (nxp nyp d : Z) (kx ky : nat) :
  0 < d -> (ky < length mask)%nat -> (kx < length (nth ky mask []))%nat ->
  (2 * Z.of_nat kx - 1) * d <= 2 * nxp < (2 * Z.of_nat kx + 1) * d ->
  (2 * Z.of_nat ky - 1) * d <= 2 * nyp < (2 * Z.of_nat ky + 1) * d ->
  lma_eval mask (toindex_Q nxp d) (toindex_Q nyp d) = Ok (nth kx (nth ky mask []) 0).
Proof.
  intros Hd Hky Hkx Hx Hy.
  apply (proj2 (toindex_nearest_halfup nxp d (Z.of_nat kx) Hd)) in Hx.
  apply (proj2 (toindex_nearest_halfup nyp d (Z.of_nat ky) Hd)) in Hy.
  rewrite Hx, Hy. unfold lma_eval. rewrite (py_getitem_in mask ky []) by assumption. cbn [bind].
  now apply py_getitem_in.
Qed.

Theorem far_edge_is_error (mask : list (list Z)) (ix iy : Z) (row : list Z) :
  (Py.zlen mask <= iy) \/ (py_getitem mask iy = Ok row /\ Py.zlen row <= ix) -> lma_eval mask ix iy = Err IndexError.
Proof.
  intros [H|[H1 H2]]; unfold lma_eval.
  - now rewrite py_getitem_far.
  - rewrite H1. cbn [bind]. now apply py_getitem_far.
Qed.

(* ---------- LabelMapperRange ---------------------------------------------------------------------- *)
Definition range := (Z * Z)%type.
Definition in_open (r : range) (k : Z) : bool := (fst r <? k) && (k <? snd r).

(* dict(ranges): the last pair with a given start wins *)
Fixpoint dict_get (rs : list range) (k : Z) : Z :=
  match rs with [] => 0 | (a, b) :: r => if existsb (fun p => fst p =? k) r then dict_get r k else if a =? k then b else 0 end.

(* _has_overlapping: sort the starts, pair each with d[start], compare each end with the next start (np.roll),
   and the smallest start with every end *)
Definition sorted_pairs (rs : list range) : list range := map (fun v => (v, dict_get rs v)) (sortZ (map fst rs)).
Fixpoint adjacent_overlap (l : list range) : bool :=
  match l with
  | p :: ((q :: _) as r) => (0 <? snd p - fst q) || adjacent_overlap r
  | _ => false
  end.
Definition has_overlapping (rs : list range) : bool :=
  let l := sorted_pairs rs in
  adjacent_overlap l || match l with p :: _ => existsb (fun q => snd q <? fst p) l | [] => false end.

Lemma adjacent_nth : forall l (i : nat), adjacent_overlap l = false -> (S i < length l)%nat ->
  snd (nth i l (0, 0)) <= fst (nth (S i) l (0, 0)).
Proof.
  induction l as [|p l IH]; intros i H Hi; [cbn in Hi; lia|].
  destruct l as [|q l]; [cbn in Hi; lia|].
  cbn [adjacent_overlap] in H. apply orb_false_elim in H as [H1 H2].
  destruct i as [|i]; [cbn; lia|].
  change (nth (S i) (p :: q :: l) (0, 0)) with (nth i (q :: l) (0, 0)).
  change (nth (S (S i)) (p :: q :: l) (0, 0)) with (nth (S i) (q :: l) (0, 0)).
  apply IH; [assumption|cbn in *; lia].
Qed.

Lemma sorted_nth_le : forall (l : list Z) (i j : nat), StronglySorted Z.le l -> (i <= j)%nat -> (j < length l)%nat ->
  nth i l 0 <= nth j l 0.
Proof.
  induction l as [|a l IH]; intros i j Hs Hij Hj; [cbn in Hj; lia|].
  inversion Hs as [|? ? Hs' Hall]; subst. destruct i as [|i]; destruct j as [|j]; cbn [nth]; try lia.
  - rewrite Forall_forall in Hall. apply Hall. apply nth_In. cbn in Hj. lia.
  - apply IH; [assumption|lia|cbn in Hj; lia].
Qed.

(* the check is sound: if it passes, the ranges it looked at are pairwise disjoint as OPEN intervals *)
Theorem overlap_check_sound (rs : list range) (i j : nat) (k : Z) :
  has_overlapping rs = false -> (i < j)%nat -> (j < length (sorted_pairs rs))%nat ->
  ~ (in_open (nth i (sorted_pairs rs) (0, 0)) k = true /\ in_open (nth j (sorted_pairs rs) (0, 0)) k = true).
Proof.
  intros H Hij Hj [Hi' Hj']. unfold has_overlapping in H. apply orb_false_elim in H as [Hadj _].
  set (l := sorted_pairs rs) in *.
  assert (Hsi : (S i < length l)%nat) by lia.
  pose proof (adjacent_nth l i Hadj Hsi) as H1.
  assert (Hfst : map fst l = sortZ (map fst rs)).
  { unfold l, sorted_pairs. rewrite map_map. cbn [fst]. apply map_id. }
  assert (Hs : StronglySorted Z.le (map fst l)) by (rewrite Hfst; apply sortZ_sorted).
  assert (H2 : fst (nth (S i) l (0, 0)) <= fst (nth j l (0, 0))).
  { assert (Hl1 : (S i <= j)%nat) by lia.
    assert (Hl2 : (j < length (map fst l))%nat) by (rewrite map_length; exact Hj).
    pose proof (sorted_nth_le (map fst l) (S i) j Hs Hl1 Hl2) as Hle.
    change 0 with (fst (0, 0)) in Hle. now rewrite !map_nth in Hle. }
  unfold in_open in *. lia.
Qed.

(* evaluate: ranges are tried in dictionary order; a key strictly inside (lo, hi) takes that range's label;
   NaN keys (None) and keys in no range keep the no-label value 0 *)
Definition range_label (rs : list (range * Z)) (key : option Z) : Z :=
  match key with
  | None => 0
  | Some k => fold_left (fun acc rl => if in_open (fst rl) k then snd rl else acc) rs 0
  end.

Lemma fold_label_none (rs : list (range * Z)) (k : Z) : forall acc : Z,
  (forall rl, In rl rs -> in_open (fst rl) k = false) ->
  fold_left (fun acc rl => if in_open (fst rl) k then snd rl else acc) rs acc = acc.
Proof.
  induction rs as [|rl rs IH]; intros acc H; cbn [fold_left]; [reflexivity|].
  rewrite (H rl (or_introl eq_refl)). apply IH. intros x Hx. apply H. now right.
Qed.

Definition rl_eq_dec (a b : range * Z) : {a = b} + {a <> b}.
Proof. repeat decide equality. Defined.

(* the label of the unique range containing the key, whatever the dictionary order *)
Theorem range_unique_label (rs : list (range * Z)) (k : Z) (r : range) (lab : Z) :
  In (r, lab) rs -> in_open r k = true ->
  (forall rl, In rl rs -> rl <> (r, lab) -> in_open (fst rl) k = false) ->
  range_label rs (Some k) = lab.
Proof.
  intros Hin Hk Huniq. cbn [range_label].
  assert (L : forall acc, acc = lab \/ In (r, lab) rs ->
              fold_left (fun acc rl => if in_open (fst rl) k then snd rl else acc) rs acc = lab).
  { clear Hin. induction rs as [|rl rs IH]; intros acc Hacc; cbn [fold_left].
    - destruct Hacc as [->|[]]. reflexivity.
    - assert (Hu' : forall x, In x rs -> x <> (r, lab) -> in_open (fst x) k = false) by (intros x Hx; apply Huniq; now right).
      destruct (rl_eq_dec rl (r, lab)) as [->|Hne].
      + cbn [fst snd]. rewrite Hk. apply IH; [assumption|now left].
      + rewrite (Huniq rl (or_introl eq_refl) Hne). apply IH; [assumption|].
        destruct Hacc as [->|[->|Hin]]; [now left|congruence|now right]. }
  apply L. now right.
Qed.

Theorem no_label_outside (rs : list (range * Z)) (k : Z) :
  (forall rl, In rl rs -> in_open (fst rl) k = false) -> range_label rs (Some k) = 0.
Proof. intros H. cbn [range_label]. now apply fold_label_none. Qed.

Theorem nan_no_label rs : range_label rs None = 0.
Proof. reflexivity. Qed.

(* end points belong to no range (open intervals) *)
Theorem end_points_excluded (r : range) : in_open r (fst r) = false /\ in_open r (snd r) = false.
Proof. unfold in_open. split; lia. Qed.

(* ---------- LabelMapperDict: np.isclose(key, input, atol) with numpy's rtol = 1e-5 on the INPUT ------------- *)
(* all quantities in one integer unit; |key - x| <= atol + 1e-5 * |x| *)
Definition isclose (atol key x : Z) : bool := Z.abs (key - x) * 100000 <=? atol * 100000 + Z.abs x.
Definition dict_label (atol : Z) (tab : list (Z * Z)) (x : Z) : Z :=
  fold_left (fun acc kl => if isclose atol (fst kl) x then snd kl else acc) tab 0.

Theorem dict_label_within_tol atol tab x key lab :
  In (key, lab) tab -> isclose atol key x = true ->
  (forall kl, In kl tab -> kl <> (key, lab) -> isclose atol (fst kl) x = false) ->
  dict_label atol tab x = lab.
Proof.
  intros Hin Hk Huniq. unfold dict_label.
  assert (L : forall acc, acc = lab \/ In (key, lab) tab ->
              fold_left (fun acc kl => if isclose atol (fst kl) x then snd kl else acc) tab acc = lab).
  { clear Hin. induction tab as [|kl tab IH]; intros acc Hacc; cbn [fold_left].
    - destruct Hacc as [->|[]]. reflexivity.
    - assert (Hu' : forall y, In y tab -> y <> (key, lab) -> isclose atol (fst y) x = false) by (intros y Hy; apply Huniq; now right).
      assert (Hdec : {kl = (key, lab)} + {kl <> (key, lab)}) by (repeat decide equality).
      destruct Hdec as [->|Hne].
      + cbn [fst snd]. rewrite Hk. apply IH; [assumption|now left].
      + rewrite (Huniq kl (or_introl eq_refl) Hne). apply IH; [assumption|].
        destruct Hacc as [->|[->|Hin]]; [now left|congruence|now right]. }
  apply L. now right.
Qed.

(* ---------- RegionsSelector ------------------------------------------------------------------------ *)
Section Sel.
  Variable X Y : Type.                       (* a point's inputs / one output value *)
  Variable undef : Y.
  Variable no_label : Z.
  Variable tab : list (Z * (X -> Y)).        (* the transform registered for each label (pointwise on arrays, C06) *)

  Fixpoint lookup (l : Z) (t : list (Z * (X -> Y))) : option (X -> Y) :=
    match t with [] => None | (k, g) :: r => if k =? l then Some g else lookup l r end.

  (* what the selector must return for one point *)
  Definition select_point (lab : Z) (x : X) : Y :=
    if lab =? no_label then undef else match lookup lab tab with Some g => g x | None => undef end.

  (* set_input *)
  Definition set_input (rid : Z) : res (X -> Y) := match lookup rid tab with Some g => Ok g | None => Err OtherError end.

  (* the algorithm of evaluate: flatten, initialise, then per unique label: gather by mask, apply, scatter *)
  Fixpoint gather {A} (mask : list bool) (xs : list A) : list A :=
    match mask, xs with b :: m, x :: r => if b then x :: gather m r else gather m r | _, _ => [] end.
  Fixpoint scatter {A} (mask : list bool) (vals : list A) (out : list A) : list A :=
    match mask, out with
    | b :: m, o :: r => if b then match vals with v :: vs => v :: scatter m vs r | [] => o :: scatter m [] r end
                        else o :: scatter m vals r
    | _, _ => out
    end.

  Definition step_label (labs : list Z) (xs : list X) (out : list Y) (rid : Z) : list Y :=
    let mask := map (fun l => l =? rid) labs in
    let res := match lookup rid tab with
               | Some g => map g (gather mask xs)
               | None => map (fun _ => undef) (gather mask xs)
               end in
    scatter mask res out.

  Definition evaluate (labs : list Z) (xs : list X) (uniq : list Z) (init : list Y) : list Y :=
    let out0 := scatter (map (fun l => l =? no_label) labs) (map (fun _ => undef) (gather (map (fun l => l =? no_label) labs) xs)) init in
    fold_left (step_label labs xs) uniq out0.

  Lemma scatter_gather_nth {A B} (g : A -> B) d d' : forall mask xs out (i : nat),
    length mask = length xs -> length out = length xs -> (i < length xs)%nat ->
    nth i (scatter mask (map g (gather mask xs)) out) d' = if nth i mask false then g (nth i xs d) else nth i out d'.
  Proof.
    induction mask as [|b m IH]; intros [|x xs] [|o out] i Hm Ho Hi; cbn in *; try lia.
    destruct b; cbn [map scatter]; destruct i as [|i]; cbn [nth]; try reflexivity; apply IH; lia.
  Qed.

  Lemma scatter_length {A} : forall mask (vals out : list A), length (scatter mask vals out) = length out.
  Proof.
    induction mask as [|b m IH]; intros vals [|o out]; cbn; try reflexivity.
    destruct b; [destruct vals|]; cbn; now rewrite IH.
  Qed.

  Lemma step_label_nth dx labs xs out rid (i : nat) :
    length labs = length xs -> length out = length xs -> (i < length xs)%nat ->
    nth i (step_label labs xs out rid) undef =
    if nth i labs no_label =? rid then match lookup rid tab with Some g => g (nth i xs dx) | None => undef end else nth i out undef.
  Proof.
    intros Hl Ho Hi. unfold step_label.
    assert (Hm : nth i (map (fun l => l =? rid) labs) false = (nth i labs no_label =? rid)).
    { rewrite (nth_indep _ false ((fun l => l =? rid) no_label)) by (rewrite map_length; lia).
      exact (map_nth (fun l => l =? rid) labs no_label i). }
    destruct (lookup rid tab) as [g|].
    - rewrite (scatter_gather_nth g dx undef) by (rewrite ?map_length; lia). now rewrite Hm.
    - rewrite (scatter_gather_nth (fun _ => undef) dx undef) by (rewrite ?map_length; lia). now rewrite Hm.
  Qed.

  (* every point gets the outputs of the transform registered for ITS label (or the undefined value),
     provided every label present other than no_label is visited (uniq = the unique labels of the batch) *)
  Theorem selector_applies_own_transform dx labs xs uniq init (i : nat) :
    length labs = length xs -> length init = length xs -> (i < length xs)%nat ->
    NoDup uniq -> ~ In no_label uniq ->
    (nth i labs no_label = no_label \/ In (nth i labs no_label) uniq) ->
    nth i (evaluate labs xs uniq init) undef = select_point (nth i labs no_label) (nth i xs dx).
  Proof.
    intros Hl Hi0 Hi Hnd Hno Hcov. unfold evaluate, select_point.
    set (out0 := scatter _ _ init).
    assert (Hlen0 : length out0 = length xs) by (unfold out0; now rewrite scatter_length).
    assert (H0 : nth i out0 undef = if nth i labs no_label =? no_label then undef else nth i init undef).
    { unfold out0. rewrite (scatter_gather_nth (fun _ => undef) dx undef) by (rewrite ?map_length; lia).
      rewrite (nth_indep _ false ((fun l => l =? no_label) no_label)) by (rewrite map_length; lia).
      now rewrite (map_nth (fun l => l =? no_label) labs no_label i). }
    clearbody out0. revert out0 Hlen0 H0.
    induction uniq as [|rid uniq IH]; intros out Hlen H0; cbn [fold_left].
    - rewrite H0. destruct Hcov as [->|[]]. now rewrite Z.eqb_refl.
    - inversion Hnd as [|? ? Hnin Hnd']; subst.
      assert (Hlen' : length (step_label labs xs out rid) = length xs) by (unfold step_label; now rewrite scatter_length).
      pose proof (step_label_nth dx labs xs out rid i Hl Hlen Hi) as Hs.
      destruct (nth i labs no_label =? rid) eqn:E.
      + (* this point belongs to rid: later labels do not touch it *)
        apply Z.eqb_eq in E.
        assert (Hne : rid <> no_label) by (intros ->; apply Hno; now left).
        replace (nth i labs no_label =? no_label) with false by lia.
        assert (Hkeep : forall us o, ~ In rid us -> length o = length xs ->
                 nth i (fold_left (step_label labs xs) us o) undef = nth i o undef).
        { induction us as [|u us IHu]; intros o Hu Hlo; cbn [fold_left]; [reflexivity|].
          rewrite IHu; [|intros Hx; apply Hu; now right|unfold step_label; now rewrite scatter_length].
          rewrite (step_label_nth dx) by assumption. replace (nth i labs no_label =? u) with false; [reflexivity|].
          symmetry. apply Z.eqb_neq. intros Hx. apply Hu. left. congruence. }
        rewrite Hkeep by assumption. rewrite Hs, E. reflexivity.
      + apply IH; try assumption.
        * intros Hx. apply Hno. now right.
        * destruct Hcov as [Hc|[Hc|Hc]]; [now left| apply Z.eqb_neq in E; congruence | now right].
        * rewrite Hs. exact H0.
  Qed.
End Sel.

(* executable checkers for the correspondence cases *)
Definition res_eqb (r : res Z) (e : option Z) : bool :=
  match r, e with Ok a, Some b => a =? b | Err _, None => true | _, _ => false end.
Definition check_array (mask : list (list Z)) (x8 y8 : Z) (e : option Z) : bool :=
  res_eqb (lma_eval mask (toindex_Q x8 8) (toindex_Q y8 8)) e.
