(* C09 — ASDF converters as field tables.  A frame is a finite map from constructor fields to (abstract) values;
   `to_tree` writes the fields named by the converter's write table, `from_tree` rebuilds constructor arguments from
   its read table.  If, for every field the property cares about, the two tables agree on a key (and keys are not
   shared), reading back what was written returns the frame.  The tables are REGENERATED from gwcs/converters/wcs.py. *)
From Coq Require Import String List Bool Arith Lia.
Import ListNotations.
Local Open Scope string_scope.

Section R.
  Variable value : Type.
  Definition assoc := list (string * value).

  Fixpoint lookup (k : string) (m : assoc) : option value :=
    match m with [] => None | (k', v) :: r => if String.eqb k' k then Some v else lookup k r end.

  (* write table: (tree key, frame field); read table: (constructor argument, tree key) *)
  Definition to_tree (wt : list (string * string)) (f : assoc) : assoc :=
    flat_map (fun kf => match lookup (snd kf) f with Some v => [(fst kf, v)] | None => [] end) wt.
  Definition from_tree (rt : list (string * string)) (node : assoc) : assoc :=
    flat_map (fun ak => match lookup (snd ak) node with Some v => [(fst ak, v)] | None => [] end) rt.

  (* field fld travels: written under a key k that no other write entry uses before it, and read back from k as fld,
     with no earlier read entry producing fld from another key *)
  Fixpoint first_key_for (fld : string) (wt : list (string * string)) : option string :=
    match wt with [] => None | (k, f) :: r => if String.eqb f fld then Some k else first_key_for fld r end.
  Fixpoint first_src_for (arg : string) (rt : list (string * string)) : option string :=
    match rt with [] => None | (a, k) :: r => if String.eqb a arg then Some k else first_src_for arg r end.
  Definition key_unique (k : string) (wt : list (string * string)) : bool :=
    Nat.eqb (length (filter (fun kf => String.eqb (fst kf) k) wt)) 1.
  Definition travels (wt rt : list (string * string)) (fld : string) : bool :=
    match first_key_for fld wt, first_src_for fld rt with
    | Some k, Some k' => String.eqb k k' && key_unique k wt
    | _, _ => false
    end.
  Definition matching (wt rt : list (string * string)) (spec : list string) : bool := forallb (travels wt rt) spec.

  Lemma lookup_flat_unique (wt : list (string * string)) (f : assoc) (k fld : string) (v : value) :
    key_unique k wt = true -> first_key_for fld wt = Some k -> lookup fld f = Some v -> lookup k (to_tree wt f) = Some v.
  Proof.
    unfold key_unique, to_tree. induction wt as [|[k0 f0] wt IH]; intros Hu Hk Hv; cbn in *; [discriminate|].
    destruct (String.eqb f0 fld) eqn:Ef.
    - apply String.eqb_eq in Ef. subst f0. inversion Hk; subst k0. rewrite Hv. cbn. now rewrite String.eqb_refl.
    - destruct (String.eqb k0 k) eqn:Ek.
      + (* another entry writes key k before: then k would be used twice *)
        exfalso. cbn in Hu.
        assert (Hin : exists f1, In (k, f1) wt).
        { clear -Hk. induction wt as [|[k1 f1] wt IH]; cbn in Hk; [discriminate|].
          destruct (String.eqb f1 fld); [inversion Hk; subst; eexists; now left|destruct (IH Hk) as [x Hx]; eexists; right; exact Hx]. }
        destruct Hin as [f1 Hin].
        assert (Hlen : (1 <= length (filter (fun kf => String.eqb (fst kf) k) wt))%nat).
        { clear -Hin. induction wt as [|[k1 f2] wt IH]; [destruct Hin|]. cbn. destruct Hin as [H|H].
          - inversion H; subst. rewrite String.eqb_refl. cbn. lia.
          - destruct (String.eqb k1 k); cbn; [specialize (IH H); lia|now apply IH]. }
        apply Nat.eqb_eq in Hu. lia.
      + cbn in Hu. specialize (IH Hu Hk Hv).
        destruct (lookup f0 f); cbn; [rewrite Ek|]; exact IH.
  Qed.

  Lemma from_tree_lookup (rt : list (string * string)) (node : assoc) (fld k : string) (v : value) :
    first_src_for fld rt = Some k -> lookup k node = Some v -> lookup fld (from_tree rt node) = Some v.
  Proof.
    unfold from_tree. induction rt as [|[a k0] rt IH]; intros Hs Hv; cbn in *; [discriminate|].
    destruct (String.eqb a fld) eqn:Ea.
    - inversion Hs; subst k0. rewrite Hv. cbn. now rewrite Ea.
    - destruct (lookup k0 node); cbn; [rewrite Ea|]; now apply IH.
  Qed.

  (* every field named by the specification survives write-then-read *)
  Theorem roundtrip (wt rt : list (string * string)) (spec : list string) (f : assoc) (fld : string) (v : value) :
    matching wt rt spec = true -> In fld spec -> lookup fld f = Some v ->
    lookup fld (from_tree rt (to_tree wt f)) = Some v.
  Proof.
    intros Hm Hin Hv. unfold matching in Hm. rewrite forallb_forall in Hm. specialize (Hm fld Hin).
    unfold travels in Hm. destruct (first_key_for fld wt) as [k|] eqn:Ek; [|discriminate].
    destruct (first_src_for fld rt) as [k'|] eqn:Ek'; [|discriminate].
    apply andb_prop in Hm as [He Hu]. apply String.eqb_eq in He. subst k'.
    eapply from_tree_lookup; [exact Ek'|]. eapply lookup_flat_unique; eassumption.
  Qed.

End R.

(* the legacy SpectralFrameConverter: reference_position is written but never read (the read looked into the kwargs
   dictionary it had just rebound `node` to) *)
Example spectral_refpos_refuted :
  let wt := [("name", "name"); ("reference_position", "reference_position")] in
  let rt_legacy := [("name", "name")] in
  let rt_fixed := [("name", "name"); ("reference_position", "reference_position")] in
  matching wt rt_legacy ["name"; "reference_position"] = false /\ matching wt rt_fixed ["name"; "reference_position"] = true.
Proof. split; reflexivity. Qed.
