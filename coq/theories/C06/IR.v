(* C06 — array IR of the models' `evaluate` bodies and the pointwise theorem.
   An expression built from elementwise operations evaluates on a batch exactly as the map of its scalar
   evaluation over the batch; `IIndex0` (taking element 0 of an intermediate array — what SellmeierZemax did)
   is the one construct that breaks this, and `elementwise` detects it syntactically. *)
From Coq Require Import String ZArith List Bool Lia.
Import ListNotations.

Inductive ir :=
  | IVar (i : nat)                         (* i-th input *)
  | IPar (name : string) (idx : nat)       (* model parameter (component idx) — the same for the whole batch *)
  | ICst (num den : Z)                     (* literal constant num/den *)
  | IUn (op : string) (a : ir)
  | IBin (op : string) (a b : ir)
  | IWhere (c a b : ir)                    (* numpy masked update / where= *)
  | IIndex0 (a : ir).                      (* a[0] *)

Fixpoint elementwise (e : ir) : bool :=
  match e with
  | IVar _ | IPar _ _ | ICst _ _ => true
  | IUn _ a => elementwise a
  | IBin _ a b => elementwise a && elementwise b
  | IWhere c a b => elementwise c && elementwise a && elementwise b
  | IIndex0 _ => false
  end.

Section Sem.
  Variable T : Type.
  Variable d : T.
  Variable cst : Z -> Z -> T.
  Variable par : string -> nat -> T.
  Variable un : string -> T -> T.
  Variable bin : string -> T -> T -> T.
  Variable whr : T -> T -> T -> T.

  Fixpoint eval_scl (env : list T) (e : ir) : T :=
    match e with
    | IVar i => nth i env d
    | IPar s k => par s k
    | ICst n m => cst n m
    | IUn op a => un op (eval_scl env a)
    | IBin op a b => bin op (eval_scl env a) (eval_scl env b)
    | IWhere c a b => whr (eval_scl env c) (eval_scl env a) (eval_scl env b)
    | IIndex0 a => eval_scl env a
    end.

  Fixpoint map2 {A B C} (f : A -> B -> C) (l1 : list A) (l2 : list B) : list C :=
    match l1, l2 with x :: r1, y :: r2 => f x y :: map2 f r1 r2 | _, _ => [] end.
  Fixpoint map3 {A B C D} (f : A -> B -> C -> D) (l1 : list A) (l2 : list B) (l3 : list C) : list D :=
    match l1, l2, l3 with x :: r1, y :: r2, z :: r3 => f x y z :: map3 f r1 r2 r3 | _, _, _ => [] end.

  (* batch of n points: env = one column (length n) per input *)
  Fixpoint eval_arr (n : nat) (env : list (list T)) (e : ir) : list T :=
    match e with
    | IVar i => nth i env (repeat d n)
    | IPar s k => repeat (par s k) n
    | ICst a b => repeat (cst a b) n
    | IUn op a => map (un op) (eval_arr n env a)
    | IBin op a b => map2 (bin op) (eval_arr n env a) (eval_arr n env b)
    | IWhere c a b => map3 whr (eval_arr n env c) (eval_arr n env a) (eval_arr n env b)
    | IIndex0 a => repeat (hd d (eval_arr n env a)) n
    end.

  Definition point (env : list (list T)) (k : nat) : list T := map (fun col => nth k col d) env.
  Definition uniform (n : nat) (env : list (list T)) : Prop := Forall (fun col => length col = n) env.

  Lemma map2_length {A B C} (f : A -> B -> C) : forall l1 l2 n, length l1 = n -> length l2 = n -> length (map2 f l1 l2) = n.
  Proof. induction l1 as [|x r IH]; intros [|y r2] n H1 H2; cbn in *; try lia. destruct n; [lia|]. f_equal. apply IH; lia. Qed.
  Lemma map3_length {A B C D} (f : A -> B -> C -> D) : forall l1 l2 l3 n,
    length l1 = n -> length l2 = n -> length l3 = n -> length (map3 f l1 l2 l3) = n.
  Proof. induction l1 as [|x r IH]; intros [|y r2] [|z r3] n H1 H2 H3; cbn in *; try lia. destruct n; [lia|]. f_equal. apply IH; lia. Qed.
  Lemma map2_nth {A B C} (f : A -> B -> C) da db dc : forall l1 l2 k, length l1 = length l2 -> (k < length l1)%nat ->
    nth k (map2 f l1 l2) dc = f (nth k l1 da) (nth k l2 db).
  Proof. induction l1 as [|x r IH]; intros [|y r2] k Hl Hk; cbn in *; try lia. destruct k; [reflexivity|]. apply IH; lia. Qed.
  Lemma map3_nth {A B C D} (f : A -> B -> C -> D) da db dc dd : forall l1 l2 l3 k,
    length l1 = length l2 -> length l1 = length l3 -> (k < length l1)%nat ->
    nth k (map3 f l1 l2 l3) dd = f (nth k l1 da) (nth k l2 db) (nth k l3 dc).
  Proof. induction l1 as [|x r IH]; intros [|y r2] [|z r3] k H2 H3 Hk; cbn in *; try lia. destruct k; [reflexivity|]. apply IH; lia. Qed.

  Lemma eval_arr_length n env e : uniform n env -> length (eval_arr n env e) = n.
  Proof.
    intros Hu. induction e as [i|s k|a b|op a IH|op a IHa b IHb|c IHc a IHa b IHb|a IH]; cbn [eval_arr].
    - destruct (Nat.lt_ge_cases i (length env)) as [H|H].
      + unfold uniform in Hu. rewrite Forall_forall in Hu. apply Hu. now apply nth_In.
      + rewrite nth_overflow by assumption. apply repeat_length.
    - apply repeat_length.
    - apply repeat_length.
    - now rewrite map_length.
    - now apply map2_length.
    - now apply map3_length.
    - apply repeat_length.
  Qed.

  Lemma nth_repeat_lt (a : T) : forall n k, (k < n)%nat -> nth k (repeat a n) d = a.
  Proof. induction n as [|n IH]; intros [|k] H; cbn; try lia; [reflexivity|]. apply IH. lia. Qed.

  Lemma nth_point env k : forall i, (i < length env)%nat -> nth i (point env k) d = nth k (nth i env []) d.
  Proof. unfold point. induction env as [|c r IH]; intros [|i] H; cbn in *; try lia; [reflexivity|]. apply IH. lia. Qed.

  (* every conversion built from elementwise operations is a pointwise map over the batch *)
  Theorem elementwise_is_pointwise n env e k :
    uniform n env -> elementwise e = true -> (k < n)%nat ->
    nth k (eval_arr n env e) d = eval_scl (point env k) e.
  Proof.
    intros Hu He Hk. induction e as [i|s j|a b|op a IH|op a IHa b IHb|c IHc a IHa b IHb|a IH]; cbn [eval_arr eval_scl elementwise] in *.
    - destruct (Nat.lt_ge_cases i (length env)) as [H|H].
      + rewrite (nth_indep env (repeat d n) []) by assumption. now rewrite nth_point.
      + rewrite (nth_overflow env) by assumption. rewrite (nth_overflow (point env k)) by (unfold point; rewrite map_length; assumption).
        apply nth_repeat.
    - now apply nth_repeat_lt.
    - now apply nth_repeat_lt.
    - rewrite <- IH by assumption. rewrite (nth_indep _ d (un op d)) by (rewrite map_length, eval_arr_length; assumption).
      apply map_nth.
    - apply andb_prop in He as [Ha Hb]. rewrite <- IHa, <- IHb by assumption.
      apply map2_nth; rewrite !eval_arr_length; auto.
    - apply andb_prop in He as [Hca Hb]. apply andb_prop in Hca as [Hc Ha]. rewrite <- IHc, <- IHa, <- IHb by assumption.
      apply map3_nth; rewrite !eval_arr_length; auto.
    - discriminate.
  Qed.

  (* consequently a permutation / split / concatenation of the batch permutes / splits / concatenates the result:
     stated for the basic case of appending two batches *)
  Theorem split_concat_commutes n m env1 env2 e :
    uniform n env1 -> uniform m env2 -> length env1 = length env2 -> elementwise e = true ->
    eval_arr (n + m) (map2 (@app T) env1 env2) e = eval_arr n env1 e ++ eval_arr m env2 e.
  Proof.
    intros H1 H2 Hl He.
    assert (Hu : uniform (n + m) (map2 (@app T) env1 env2)).
    { clear e He. unfold uniform in *. revert env2 H2 Hl. induction env1 as [|c1 r1 IH]; intros [|c2 r2] H2 Hl; cbn in *; try lia; constructor.
      - inversion H1; inversion H2; subst. now rewrite app_length.
      - inversion H1; inversion H2; subst. apply IH; auto. }
    apply (nth_ext _ _ d d).
    - now rewrite app_length, !eval_arr_length.
    - intros k Hk. rewrite eval_arr_length in Hk by assumption.
      rewrite elementwise_is_pointwise by assumption.
      assert (Hlt : forall j, (j < n)%nat -> point (map2 (@app T) env1 env2) j = point env1 j).
      { clear -H1 H2 Hl. intros j Hj. unfold point. revert env2 H2 Hl.
        induction env1 as [|c1 r1 IH]; intros [|c2 r2] H2 Hl; cbn [map2 map length] in *; try lia; try reflexivity.
        inversion H1 as [|? ? Hc1 Hr1]; inversion H2 as [|? ? Hc2 Hr2]; subst.
        rewrite app_nth1 by assumption. f_equal. apply IH; auto. }
      assert (Hge : forall j, (n <= j)%nat -> point (map2 (@app T) env1 env2) j = point env2 (j - n)).
      { clear -H1 H2 Hl. intros j Hj. unfold point. revert env2 H2 Hl.
        induction env1 as [|c1 r1 IH]; intros [|c2 r2] H2 Hl; cbn [map2 map length] in *; try lia; try reflexivity.
        inversion H1 as [|? ? Hc1 Hr1]; inversion H2 as [|? ? Hc2 Hr2]; subst.
        rewrite app_nth2 by assumption. f_equal. apply IH; auto. }
      destruct (Nat.ltb k n) eqn:E.
      + apply Nat.ltb_lt in E. rewrite Hlt by assumption. rewrite app_nth1 by now rewrite eval_arr_length.
        now rewrite elementwise_is_pointwise.
      + apply Nat.ltb_ge in E. rewrite Hge by assumption. rewrite app_nth2 by now rewrite eval_arr_length.
        rewrite eval_arr_length by assumption. rewrite elementwise_is_pointwise by (try assumption; lia). reflexivity.
  Qed.
End Sem.

(* the legacy SellmeierZemax shape: an Index0 node makes the batch answer constant *)
Example index0_refuted :
  let e := IBin "mul" (IVar 0) (IIndex0 (IVar 0)) in
  elementwise e = false /\
  eval_arr Z 0%Z (fun a _ => a) (fun _ _ => 0%Z) (fun _ x => x) (fun _ => Z.mul) (fun _ a _ => a) 3 [[1; 2; 3]%Z] e = [1; 2; 3]%Z /\
  map (fun x => eval_scl Z 0%Z (fun a _ => a) (fun _ _ => 0%Z) (fun _ x => x) (fun _ => Z.mul) (fun _ a _ => a) [x] e) [1; 2; 3]%Z = [1; 4; 9]%Z.
Proof. cbn. repeat split; reflexivity. Qed.
