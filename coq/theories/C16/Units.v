(* C16 — unit handling of the values / object interfaces, generic in the number type K so that the same code is
   executed over Q (correspondence with the implementation) and reasoned about over R (UnitsR.v: units whose factor is
   irrational, such as rad, included).  Hand model of gwcs/api.py (_add_units_input, _remove_quantity_output,
   _sanitize_pixel_inputs, *_values, pixel_to_world, world_to_pixel), gwcs/wcs.py (__call__, invert),
   gwcs/utils.py (get_values) and the coordinates()/coordinate_to_quantity() of the single frames. *)
From Coq Require Import List Bool Arith.
Import ListNotations.

Inductive uerr := UnitConversionError | UnitsError | ValueError | TypeError.
Inductive ures (A : Type) := UOk (a : A) | UErr (e : uerr).
Arguments UOk {A} a.
Arguments UErr {A} e.
Definition ubind {A B} (m : ures A) (f : A -> ures B) : ures B := match m with UOk a => f a | UErr e => UErr e end.
Notation "'udo' x <- m ; f" := (ubind m (fun x => f)) (at level 200, x name, m at level 100, f at level 200).

Section Units.
  Variable K : Type.
  Variables (kmul kdiv : K -> K -> K).

  (* a unit: identity (name), physical dimension, size in the base unit of that dimension *)
  Record unit := { uid : nat; dim : nat; factor : K }.
  Definition unit_eqb (a b : unit) : bool := Nat.eqb (uid a) (uid b).

  Inductive value := Num (x : K) | Qty (x : K) (u : unit).

  Definition convert (x : K) (from to : unit) : K := kdiv (kmul x (factor from)) (factor to).
  Definition convertible (a b : unit) : bool := Nat.eqb (dim a) (dim b).

  (* Quantity.to_value(unit); a bare number has no to_value *)
  Definition to_value (v : value) (u : unit) : ures K :=
    match v with
    | Qty x u0 => if convertible u0 u then UOk (convert x u0 u) else UErr UnitConversionError
    | Num _ => UErr TypeError
    end.

  (* utils.get_values(units, *args) : zip semantics *)
  Fixpoint get_values (units : list unit) (args : list value) : ures (list K) :=
    match args, units with
    | a :: r, u :: us => udo x <- to_value a u; udo xs <- get_values us r; UOk (x :: xs)
    | _, _ => UOk []
    end.

  Fixpoint attach (xs : list K) (units : list unit) : list value :=
    match xs, units with x :: r, u :: us => Qty x u :: attach r us | _, _ => [] end.

  (* ---- transforms: an arbitrary numeric core; a unit-carrying transform converts its inputs to its own input units
          (astropy: UnitsError when not convertible, bare numbers are dimensionless) and returns quantities ---- *)
  Record transform := { uses_quantity : bool; tin : list unit; tout : list unit; core : list K -> list K }.

  Fixpoint strip_inputs (args : list value) (units : list unit) : ures (list K) :=
    match args, units with
    | [], _ => UOk []
    | Qty x u0 :: r, u :: us => if convertible u0 u then udo xs <- strip_inputs r us; UOk (convert x u0 u :: xs) else UErr UnitsError
    | _, _ => UErr UnitsError
    end.

  Fixpoint all_num (args : list value) : ures (list K) :=
    match args with
    | [] => UOk []
    | Num x :: r => udo xs <- all_num r; UOk (x :: xs)
    | Qty _ _ :: _ => UErr UnitsError
    end.

  Definition eval (t : transform) (args : list value) : ures (list value) :=
    if uses_quantity t then udo xs <- strip_inputs args (tin t); UOk (attach (core t xs) (tout t))
    else udo xs <- all_num args; UOk (map Num (core t xs)).

  (* ---- frames ---- *)
  Inductive fkind := Generic | Frame2D | Celestial (ref : nat) | Spectral | Temporal.
  Record frame := { kind : fkind; funit : list unit }.

  (* rich world inputs *)
  Inductive warg :=
  | WNum (x : K) | WQty (x : K) (u : unit)
  | WSky (fr : nat) (lon lat : K)      (* SkyCoord in sky frame fr, degrees *)
  | WSpec (x : K) (u : unit)           (* SpectralCoord: a Quantity *)
  | WTime (sec : K).                   (* Time, seconds after the frame's reference time *)

  Variable skyconv : nat -> nat -> K * K -> K * K.     (* astropy's frame-to-frame conversion (degrees) *)
  Variables (deg sec : unit).

  Definition is_numerical (a : warg) : bool := match a with WNum _ => true | _ => false end.
  Definition as_quantity (a : warg) : option value :=
    match a with WQty x u | WSpec x u => Some (Qty x u) | _ => None end.

  Definition coordinate_to_quantity (f : frame) (args : list warg) : ures (list value) :=
    match kind f with
    | Celestial ref =>
        match args with
        | [WSky fr lon lat] => let '(l, b) := skyconv fr ref (lon, lat) in UOk [Qty l deg; Qty b deg]
        | [a; b] => match as_quantity a, as_quantity b with
                    | Some qa, Some qb => UOk [qa; qb]
                    | _, _ => UErr ValueError
                    end
        | _ => UErr ValueError
        end
    | Spectral =>
        match args with
        | a :: _ => match a with
                    | WQty x u | WSpec x u => UOk [Qty x u]
                    | WNum x => match funit f with u :: _ => UOk [Qty x u] | [] => UErr ValueError end
                    | _ => UErr TypeError
                    end
        | [] => UErr ValueError
        end
    | Temporal =>
        match args with
        | WTime s :: _ => match funit f with
                          | u :: _ => if convertible sec u then UOk [Qty (convert s sec u) u] else UErr UnitConversionError
                          | [] => UErr ValueError
                          end
        | WQty x u :: _ | WSpec x u :: _ => UOk [Qty x u]
        | _ => UErr ValueError
        end
    | Generic | Frame2D =>
        (* "NoOp leaves it to the model to handle" *)
        UOk (map (fun a => match a with WNum x => Num x | WQty x u | WSpec x u => Qty x u
                                   | WSky _ l _ => Num l | WTime s => Num s end) args)
    end.

  (* world objects returned by coordinates() *)
  Inductive wobj :=
  | OQty (l : list value)                       (* tuple of quantities *)
  | OSky (ref : nat) (lon lat : K) (u1 u2 : unit)   (* SkyCoord in `ref`, degrees, displayed in u1/u2 *)
  | OSpec (x : K) (u : unit)
  | OTime (sec : K).

  Fixpoint to_units (args : list value) (units : list unit) : ures (list value) :=
    match args, units with
    | Num x :: r, u :: us => udo ys <- to_units r us; UOk (Qty x u :: ys)
    | Qty x u0 :: r, u :: us => if convertible u0 u then udo ys <- to_units r us; UOk (Qty (convert x u0 u) u :: ys)
                                else UErr UnitConversionError
    | _, _ => UOk []
    end.

  (* Frame2D.coordinates multiplies by the unit whatever the argument is *)
  Variable unit_mul : unit -> unit -> unit.
  Fixpoint times_units (args : list value) (units : list unit) : list value :=
    match args, units with
    | Num x :: r, u :: us => Qty x u :: times_units r us
    | Qty x u0 :: r, u :: us => Qty x (unit_mul u0 u) :: times_units r us
    | _, _ => []
    end.

  Definition in_unit (v : value) (u : unit) : ures K :=     (* number taken in u / quantity converted to u *)
    match v with Num x => UOk x | Qty x u0 => if convertible u0 u then UOk (convert x u0 u) else UErr UnitConversionError end.

  Definition coordinates (f : frame) (args : list value) : ures wobj :=
    match kind f with
    | Generic => udo l <- to_units args (funit f); UOk (OQty l)
    | Frame2D => UOk (OQty (times_units args (funit f)))
    | Celestial ref =>
        match args, funit f with
        | [a; b], [u1; u2] =>
            if convertible u1 deg && convertible u2 deg then
              udo x <- in_unit a u1; udo y <- in_unit b u2; UOk (OSky ref (convert x u1 deg) (convert y u2 deg) u1 u2)
            else UErr UnitConversionError
        | _, _ => UErr ValueError
        end
    | Spectral =>
        match args, funit f with
        | a :: _, u :: _ => udo x <- in_unit a u; UOk (OSpec x u)
        | _, _ => UErr ValueError
        end
    | Temporal =>
        match args, funit f with
        | a :: _, u :: _ => if convertible u sec then udo x <- in_unit a u; UOk (OTime (convert x u sec)) else UErr UnitConversionError
        | _, _ => UErr ValueError
        end
    end.

  (* ---- the WCS ---- *)
  Record wcs := { fwd : transform; bwd : transform; fin : frame; fout : frame }.

  Definition add_units_input (xs : list K) (t : transform) (f : frame) : list value :=
    if uses_quantity t then attach xs (funit f) else map Num xs.

  (* r.to_value(unit) for quantities, bare numbers pass (a user-supplied inverse need not carry units although the forward
     transform does); zip semantics *)
  Fixpoint strip_values (units : list unit) (args : list value) : ures (list K) :=
    match args, units with
    | Qty x u0 :: r, u :: us => udo y <- to_value (Qty x u0) u; udo ys <- strip_values us r; UOk (y :: ys)
    | Num x :: r, _ :: us => udo ys <- strip_values us r; UOk (x :: ys)
    | _, _ => UOk []
    end.

  (* note: the code tests forward_transform.uses_quantity in both directions *)
  Definition remove_quantity_output (w : wcs) (r : list value) (f : frame) : ures (list K) :=
    if uses_quantity (fwd w) then strip_values (funit f) r else all_num r.

  Definition call (w : wcs) (args : list value) : ures (list value) := eval (fwd w) args.

  Definition pixel_to_world_values (w : wcs) (xs : list K) : ures (list K) :=
    udo r <- call w (add_units_input xs (fwd w) (fin w)); remove_quantity_output w r (fout w).

  Definition warg_value (a : warg) : value :=
    match a with WNum x => Num x | WQty x u | WSpec x u => Qty x u | WSky _ l _ => Num l | WTime s => Num s end.

  Definition invert (w : wcs) (args : list warg) : ures (list value) :=
    match args with
    | [] => UErr ValueError
    | a0 :: _ =>
        if is_numerical a0 then eval (bwd w) (map warg_value args)
        else udo qs <- coordinate_to_quantity (fout w) args;
             if uses_quantity (bwd w) then eval (bwd w) qs
             else udo xs <- get_values (funit (fout w)) qs; eval (bwd w) (map Num xs)
    end.

  Definition world_to_pixel_values (w : wcs) (ws : list K) : ures (list K) :=
    let args := add_units_input ws (bwd w) (fout w) in
    udo r <- invert w (map (fun v => match v with Num x => WNum x | Qty x u => WQty x u end) args);
    remove_quantity_output w r (fin w).

  Definition value_of (v : value) : K := match v with Num x | Qty x _ => x end.

  (* world_to_pixel: invert(with_units=True) then .value of whatever input_frame.coordinates returned *)
  Definition world_to_pixel (w : wcs) (args : list warg) : ures (list K) :=
    udo r <- invert w args;
    udo o <- coordinates (fin w) r;
    match o with OQty l => UOk (map value_of l) | _ => UErr TypeError end.

  Fixpoint sanitize_units (pixels : list value) (units : list unit) : list value :=   (* uses_quantity: attach to bare numbers *)
    match pixels, units with
    | Num x :: r, u :: us => Qty x u :: sanitize_units r us
    | q :: r, _ :: us => q :: sanitize_units r us
    | l, [] => l
    | [], _ => []
    end.

  Fixpoint sanitize_free (pixels : list value) (units : list unit) : ures (list value) :=
    match pixels, units with
    | Num x :: r, _ :: us => udo ys <- sanitize_free r us; UOk (Num x :: ys)
    | Qty x u0 :: r, u :: us => if unit_eqb u0 u then udo ys <- sanitize_free r us; UOk (Num x :: ys) else UErr ValueError
    | [], _ => UOk []
    | _, [] => UErr ValueError
    end.

  Definition sanitize_pixel_inputs (w : wcs) (pixels : list value) : ures (list value) :=
    if uses_quantity (fwd w) then UOk (sanitize_units pixels (funit (fin w))) else sanitize_free pixels (funit (fin w)).

  Definition pixel_to_world (w : wcs) (pixels : list value) : ures wobj :=
    udo p <- sanitize_pixel_inputs w pixels; udo r <- call w p; coordinates (fout w) r.

  (* ---- the unit-free twin of a unit-carrying WCS: same numeric cores expressed in frame units ---- *)
  Fixpoint conv_list (xs : list K) (from to : list unit) : list K :=
    match xs, from, to with x :: r, a :: fs, b :: ts => convert x a b :: conv_list r fs ts | _, _, _ => [] end.

  Definition free_transform (t : transform) (fi fo : list unit) : transform :=
    if uses_quantity t then
      {| uses_quantity := false; tin := []; tout := [];
         core := fun xs => conv_list (core t (conv_list xs fi (tin t))) (tout t) fo |}
    else t.        (* already works on bare numbers (in frame units) *)


  Lemma free_transform_on t fi fo : uses_quantity t = true ->
    free_transform t fi fo = {| uses_quantity := false; tin := []; tout := [];
                                core := fun xs => conv_list (core t (conv_list xs fi (tin t))) (tout t) fo |}.
  Proof. intro H. unfold free_transform. now rewrite H. Qed.

  Definition twin (w : wcs) : wcs :=
    {| fwd := free_transform (fwd w) (funit (fin w)) (funit (fout w));
       bwd := free_transform (bwd w) (funit (fout w)) (funit (fin w)); fin := fin w; fout := fout w |}.

  Fixpoint all_convertible (a b : list unit) : bool :=
    match a, b with x :: r, y :: s => convertible x y && all_convertible r s | [], [] => true | _, _ => false end.

  (* a unit-carrying WCS whose frames agree in length and dimension with its transforms *)
  Definition well_formed (w : wcs) : Prop :=
    uses_quantity (fwd w) = true /\ uses_quantity (bwd w) = true /\
    all_convertible (funit (fin w)) (tin (fwd w)) = true /\ all_convertible (tout (fwd w)) (funit (fout w)) = true /\
    all_convertible (funit (fout w)) (tin (bwd w)) = true /\ all_convertible (tout (bwd w)) (funit (fin w)) = true /\
    (forall xs, length xs = length (tin (fwd w)) -> length (core (fwd w) xs) = length (tout (fwd w))) /\
    (forall xs, length xs = length (tin (bwd w)) -> length (core (bwd w) xs) = length (tout (bwd w))).

  (* ---------------- theorems that need no arithmetic: they hold for every number type ---------------- *)
  Lemma all_convertible_length a b : all_convertible a b = true -> length a = length b.
  Proof. revert b; induction a as [|x a IH]; intros [|y b] H; cbn in *; try discriminate; auto.
         apply andb_true_iff in H. destruct H as [_ H]. f_equal. auto. Qed.

  Lemma strip_attach : forall xs fu tu, all_convertible fu tu = true -> length xs = length fu ->
    strip_inputs (attach xs fu) tu = UOk (conv_list xs fu tu).
  Proof.
    induction xs as [|x xs IH]; intros [|a fu] [|b tu] H L; cbn in *; try discriminate; auto.
    apply andb_true_iff in H. destruct H as [H1 H2]. rewrite H1. rewrite (IH fu tu H2); [reflexivity|]. now inversion L.
  Qed.

  Lemma get_values_attach : forall ys tu fu, all_convertible tu fu = true -> length ys = length tu ->
    get_values fu (attach ys tu) = UOk (conv_list ys tu fu).
  Proof.
    induction ys as [|y ys IH]; intros [|a tu] [|b fu] H L; cbn in *; try discriminate; auto.
    apply andb_true_iff in H. destruct H as [H1 H2]. rewrite H1. cbn. rewrite (IH tu fu H2); [reflexivity|]. now inversion L.
  Qed.

  Lemma strip_values_attach : forall ys tu fu, all_convertible tu fu = true -> length ys = length tu ->
    strip_values fu (attach ys tu) = UOk (conv_list ys tu fu).
  Proof.
    induction ys as [|y ys IH]; intros [|a tu] [|b fu] H L; cbn in *; try discriminate; auto.
    apply andb_true_iff in H. destruct H as [H1 H2]. fold (convertible a b) in H1. rewrite H1. cbn. rewrite (IH tu fu H2); [reflexivity|]. now inversion L.
  Qed.

  Lemma all_num_map_num xs : all_num (map Num xs) = UOk xs.
  Proof. induction xs as [|x xs IH]; cbn; [reflexivity|]. now rewrite IH. Qed.

  Lemma conv_list_length : forall xs a b, length xs = length a -> length a = length b -> length (conv_list xs a b) = length xs.
  Proof. induction xs as [|x xs IH]; intros [|u a] [|v b] L1 L2; cbn in *; try discriminate; auto. Qed.

  (* the values interface of a unit-carrying WCS and of its unit-free twin return the same bare numbers *)
  Theorem values_twin_forward : forall w xs, well_formed w -> length xs = length (funit (fin w)) ->
    pixel_to_world_values w xs = pixel_to_world_values (twin w) xs /\
    exists ys, pixel_to_world_values w xs = UOk ys.
  Proof.
    intros w xs [Hf [Hb [H1 [H2 [H3 [H4 [L1 L2]]]]]]] L.
    unfold pixel_to_world_values, call, add_units_input, remove_quantity_output, eval, twin.
    rewrite (free_transform_on (fwd w) _ _ Hf), (free_transform_on (bwd w) _ _ Hb). cbn [fwd uses_quantity core fin fout].
    rewrite Hf. rewrite (strip_attach _ _ _ H1 L). cbn [ubind].
    assert (Lc : length (conv_list xs (funit (fin w)) (tin (fwd w))) = length (tin (fwd w))).
    { rewrite conv_list_length; [rewrite L; now apply all_convertible_length|assumption|now apply all_convertible_length]. }
    rewrite (strip_values_attach _ _ _ H2 (L1 _ Lc)). rewrite all_num_map_num. cbn [ubind]. rewrite all_num_map_num.
    split; [reflexivity|eexists; reflexivity].
  Qed.

  Definition frame_ok (f : frame) : Prop :=
    match kind f with Celestial _ => length (funit f) = 2 | Spectral | Temporal => length (funit f) = 1 | _ => True end.

  Definition as_warg (v : value) : warg := match v with Num x => WNum x | Qty x u => WQty x u end.

  Lemma c2q_quantities_gen : forall f ws us, frame_ok f -> length ws = length (funit f) -> length us = length ws -> ws <> [] ->
    coordinate_to_quantity f (map as_warg (attach ws us)) = UOk (attach ws us).
  Proof.
    intros f ws us Hok L Lu Hne. unfold coordinate_to_quantity, frame_ok in *.
    destruct (kind f) eqn:Ek.
    - clear. revert us. induction ws as [|x ws IH]; intros [|u us]; cbn; try reflexivity.
      specialize (IH us). inversion IH as [E]. now rewrite !E.
    - clear. revert us. induction ws as [|x ws IH]; intros [|u us]; cbn; try reflexivity.
      specialize (IH us). inversion IH as [E]. now rewrite !E.
    - rewrite Hok in L. destruct ws as [|x [|y [|z ws]]]; try discriminate L.
      destruct us as [|u1 [|u2 [|u3 us]]]; try discriminate Lu. reflexivity.
    - rewrite Hok in L. destruct ws as [|x [|y ws]]; try discriminate L.
      destruct us as [|u1 [|u2 us]]; try discriminate Lu. reflexivity.
    - rewrite Hok in L. destruct ws as [|x [|y ws]]; try discriminate L.
      destruct us as [|u1 [|u2 us]]; try discriminate Lu. reflexivity.
  Qed.

  Lemma c2q_quantities : forall f ws, frame_ok f -> length ws = length (funit f) -> ws <> [] ->
    coordinate_to_quantity f (map as_warg (attach ws (funit f))) = UOk (attach ws (funit f)).
  Proof. intros. apply c2q_quantities_gen; auto. Qed.

  Lemma attach_head : forall ws us, ws <> [] -> length ws = length us ->
    exists x u r, map as_warg (attach ws us) = WQty x u :: r.
  Proof. intros [|x ws] [|u us] Hne L; try congruence; try discriminate L. cbn. eauto. Qed.

  Lemma map_as_warg_num xs : map warg_value (map as_warg (map Num xs)) = map Num xs.
  Proof. induction xs as [|x xs IH]; cbn; [reflexivity|]. now rewrite IH. Qed.

  Theorem values_twin_backward : forall w ws, well_formed w -> frame_ok (fout w) ->
    length ws = length (funit (fout w)) -> ws <> [] ->
    world_to_pixel_values w ws = world_to_pixel_values (twin w) ws /\
    exists xs, world_to_pixel_values w ws = UOk xs.
  Proof.
    intros w ws [Hf [Hb [H1 [H2 [H3 [H4 [L1 L2]]]]]]] Hok L Hne.
    unfold world_to_pixel_values, add_units_input, remove_quantity_output, twin.
    rewrite (free_transform_on (fwd w) _ _ Hf), (free_transform_on (bwd w) _ _ Hb). cbn [fwd bwd uses_quantity fin fout].
    rewrite Hf, Hb.
    assert (Hq : invert w (map as_warg (attach ws (funit (fout w)))) =
                 eval (bwd w) (attach ws (funit (fout w)))).
    { unfold invert. destruct (attach_head ws (funit (fout w)) Hne L) as [x [u [r E]]].
      remember (map as_warg (attach ws (funit (fout w)))) as args eqn:Ha.
      rewrite E. cbn [is_numerical]. rewrite <- E, Ha. rewrite (c2q_quantities _ _ Hok L Hne). cbn [ubind]. now rewrite Hb. }
    fold as_warg. rewrite Hq. unfold eval. rewrite Hb. rewrite (strip_attach _ _ _ H3 L). cbn [ubind].
    assert (Lc : length (conv_list ws (funit (fout w)) (tin (bwd w))) = length (tin (bwd w))).
    { rewrite conv_list_length; [rewrite L; now apply all_convertible_length|assumption|now apply all_convertible_length]. }
    rewrite (strip_values_attach _ _ _ H4 (L2 _ Lc)).
    (* twin side *)
    unfold invert. destruct ws as [|x ws]; [congruence|]. cbn [map as_warg is_numerical].
    change (WNum x :: map as_warg (map Num ws)) with (map as_warg (map Num (x :: ws))).
    rewrite map_as_warg_num. unfold eval. cbn [uses_quantity core bwd warg_value]. change (Num x :: map Num ws) with (map Num (x :: ws)).
    rewrite all_num_map_num. cbn [ubind]. rewrite all_num_map_num.
    split; [reflexivity|eexists; reflexivity].
  Qed.

  (* pixel quantities in the wrong unit are rejected by the unit-free form, never reinterpreted *)
  Theorem wrong_pixel_unit_rejected_free : forall w pre x u0 post,
    uses_quantity (fwd w) = false -> length pre < length (funit (fin w)) ->
    unit_eqb u0 (nth (length pre) (funit (fin w)) u0) = false ->
    (forall v, In v pre -> exists y, v = Num y) ->
    pixel_to_world w (pre ++ Qty x u0 :: post) = UErr ValueError.
  Proof.
    intros w pre x u0 post Hf Hl Hu Hpre. unfold pixel_to_world, sanitize_pixel_inputs. rewrite Hf.
    assert (E : sanitize_free (pre ++ Qty x u0 :: post) (funit (fin w)) = UErr ValueError).
    { revert Hl Hu Hpre. generalize (funit (fin w)). induction pre as [|v pre IH]; intros [|u us] Hl Hu Hpre; cbn in *; try (now inversion Hl).
      - now rewrite Hu.
      - destruct (Hpre v (or_introl eq_refl)) as [y ->]. rewrite IH; [reflexivity|apply Nat.succ_lt_mono; exact Hl|exact Hu|].
        intros v' Hv'. apply Hpre. now right. }
    now rewrite E.
  Qed.

  (* ... and by the unit-carrying form when the dimension differs (a convertible pixel unit is converted, not reinterpreted) *)
  Theorem wrong_pixel_unit_rejected_units : forall w pre x u0 post,
    uses_quantity (fwd w) = true -> length pre < length (tin (fwd w)) -> length (funit (fin w)) = length (tin (fwd w)) ->
    all_convertible (funit (fin w)) (tin (fwd w)) = true ->
    convertible u0 (nth (length pre) (tin (fwd w)) u0) = false ->
    (forall v, In v pre -> exists y, v = Num y) ->
    pixel_to_world w (pre ++ Qty x u0 :: post) = UErr UnitsError.
  Proof.
    intros w pre x u0 post Hf Hl Hlen Hc Hu Hpre. unfold pixel_to_world, sanitize_pixel_inputs, call, eval. rewrite Hf. cbn [ubind].
    assert (E : strip_inputs (sanitize_units (pre ++ Qty x u0 :: post) (funit (fin w))) (tin (fwd w)) = UErr UnitsError).
    { revert Hl Hlen Hc Hu Hpre. generalize (funit (fin w)) (tin (fwd w)).
      induction pre as [|v pre IH]; intros [|u us] [|t ts] Hl Hlen Hc Hu Hpre; cbn in *; try discriminate; try (now inversion Hl).
      - now rewrite Hu.
      - destruct (Hpre v (or_introl eq_refl)) as [y ->]. apply andb_true_iff in Hc. destruct Hc as [Hc1 Hc2]. pose proof Hc1 as Hc1'. fold (convertible u t) in Hc1'. unfold convertible in Hc1. first [rewrite Hc1|rewrite Hc1'|cbn; rewrite Hc1'].
        rewrite IH; [reflexivity|apply Nat.succ_lt_mono; exact Hl|now inversion Hlen|exact Hc2|exact Hu|].
        intros v' Hv'. apply Hpre. now right. }
    now rewrite E.
  Qed.

  (* results requested with units carry the output frame's declared units *)
  Definition obj_units (o : wobj) : list unit :=
    match o with
    | OQty l => flat_map (fun v => match v with Qty _ u => [u] | Num _ => [] end) l
    | OSky _ _ _ u1 u2 => [u1; u2] | OSpec _ u => [u] | OTime _ => []
    end.

  Lemma to_units_units : forall args us l, to_units args us = UOk l -> length args = length us ->
    obj_units (OQty l) = us.
  Proof.
    induction args as [|a args IH]; intros [|u us] l H L; cbn in *; try discriminate.
    - now inversion H.
    - destruct a as [x|x u0].
      + destruct (to_units args us) as [ys|e] eqn:E; cbn in H; [|discriminate]. inversion H; subst. cbn. f_equal. eapply IH; eauto.
      + destruct (convertible u0 u); [|discriminate]. destruct (to_units args us) as [ys|e] eqn:E; cbn in H; [|discriminate].
        inversion H; subst. cbn. f_equal. eapply IH; eauto.
  Qed.

  Theorem with_units_in_declared_units : forall f args o,
    frame_ok f -> kind f <> Frame2D -> kind f <> Temporal -> coordinates f args = UOk o -> length args = length (funit f) ->
    obj_units o = funit f.
  Proof.
    intros f args o Hok H2d Ht H L. unfold coordinates in H. unfold frame_ok in Hok. destruct (kind f) eqn:Ek; try congruence.
    - destruct (to_units args (funit f)) as [l|e] eqn:E; cbn in H; [|discriminate]. inversion H; subst. eapply to_units_units; eauto.
    - destruct (funit f) as [|u1 [|u2 [|u3 us]]]; try discriminate Hok.
      destruct args as [|a [|b [|c args]]]; try discriminate L.
      destruct (convertible u1 deg && convertible u2 deg); [|discriminate].
      destruct (in_unit a u1); cbn in H; [|discriminate]. destruct (in_unit b u2); cbn in H; [|discriminate]. now inversion H.
    - destruct (funit f) as [|u [|u' us]]; try discriminate Hok.
      destruct args as [|a [|b args]]; try discriminate L.
      destruct (in_unit a u); cbn in H; [|discriminate]. now inversion H.
  Qed.

  (* a SkyCoord is first expressed in the output frame's reference frame: whatever frame it came in, it inverts like the
     same position given in the reference frame *)
  Theorem invert_sky_any_frame : forall w ref fr p,
    kind (fout w) = Celestial ref ->
    skyconv fr ref (skyconv ref fr p) = p -> skyconv ref ref p = p ->
    invert w [WSky fr (fst (skyconv ref fr p)) (snd (skyconv ref fr p))] = invert w [WSky ref (fst p) (snd p)] /\
    invert w [WSky ref (fst p) (snd p)] = invert w [WQty (fst p) deg; WQty (snd p) deg].
  Proof.
    intros w ref fr p Hk H1 H2. unfold invert. cbn [is_numerical]. unfold coordinate_to_quantity. rewrite Hk.
    rewrite <- (surjective_pairing (skyconv ref fr p)), H1. rewrite <- (surjective_pairing p), H2.
    destruct p as [l b]. cbn. split; reflexivity.
  Qed.

  (* the object interface of the two forms returns the same objects *)
  Lemma coordinates_attach : forall f ys tu, kind f <> Frame2D -> frame_ok f ->
    all_convertible tu (funit f) = true -> length ys = length tu ->
    coordinates f (attach ys tu) = coordinates f (map Num (conv_list ys tu (funit f))).
  Proof.
    intros f ys tu H2d Hok Hc L. unfold coordinates, frame_ok in *. destruct (kind f) eqn:Ek; try congruence.
    - f_equal. revert Hc L. generalize (funit f). revert tu. induction ys as [|y ys IH]; intros [|t tu] [|u us] Hc L; cbn in *; try discriminate; auto.
      apply andb_true_iff in Hc. destruct Hc as [Hc1 Hc2]. fold (convertible t u) in Hc1. fold (convertible t u). rewrite Hc1.
      rewrite (IH tu us Hc2); [reflexivity|now inversion L].
    - pose proof (all_convertible_length _ _ Hc) as Lt. rewrite Hok in Lt.
      destruct tu as [|t1 [|t2 [|t3 tu]]]; try discriminate Lt. destruct ys as [|a [|b [|c ys]]]; try discriminate L.
      destruct (funit f) as [|u1 [|u2 [|u3 us]]]; try discriminate Hok.
      cbn in Hc. apply andb_true_iff in Hc. destruct Hc as [Hc1 Hc2]. apply andb_true_iff in Hc2. destruct Hc2 as [Hc2 _].
      cbn [attach map conv_list in_unit]. fold (convertible t1 u1) in Hc1. fold (convertible t2 u2) in Hc2. now rewrite Hc1, Hc2.
    - pose proof (all_convertible_length _ _ Hc) as Lt. rewrite Hok in Lt.
      destruct tu as [|t1 [|t2 tu]]; try discriminate Lt. destruct ys as [|a [|b ys]]; try discriminate L.
      destruct (funit f) as [|u1 [|u2 us]]; try discriminate Hok.
      cbn in Hc. apply andb_true_iff in Hc. destruct Hc as [Hc1 _]. cbn [attach map conv_list in_unit]. fold (convertible t1 u1) in Hc1. now rewrite Hc1.
    - pose proof (all_convertible_length _ _ Hc) as Lt. rewrite Hok in Lt.
      destruct tu as [|t1 [|t2 tu]]; try discriminate Lt. destruct ys as [|a [|b ys]]; try discriminate L.
      destruct (funit f) as [|u1 [|u2 us]]; try discriminate Hok.
      cbn in Hc. apply andb_true_iff in Hc. destruct Hc as [Hc1 _]. cbn [attach map conv_list in_unit]. fold (convertible t1 u1) in Hc1. now rewrite Hc1.
  Qed.

  Lemma sanitize_units_num : forall xs us, length xs = length us -> sanitize_units (map Num xs) us = attach xs us.
  Proof. induction xs as [|x xs IH]; intros [|u us] L; cbn in *; try discriminate; auto. rewrite IH; [reflexivity|now inversion L]. Qed.

  Lemma sanitize_free_num : forall xs us, length xs = length us -> sanitize_free (map Num xs) us = UOk (map Num xs).
  Proof. induction xs as [|x xs IH]; intros [|u us] L; cbn in *; try discriminate; auto. rewrite IH; [reflexivity|now inversion L]. Qed.

  Theorem objects_twin : forall w xs, well_formed w -> kind (fout w) <> Frame2D -> frame_ok (fout w) ->
    length xs = length (funit (fin w)) ->
    pixel_to_world w (map Num xs) = pixel_to_world (twin w) (map Num xs).
  Proof.
    intros w xs [Hf [Hb [H1 [H2 [H3 [H4 [L1 L2]]]]]]] H2d Hok L.
    unfold pixel_to_world, sanitize_pixel_inputs, call, eval, twin.
    rewrite (free_transform_on (fwd w) _ _ Hf), (free_transform_on (bwd w) _ _ Hb). cbn [fwd uses_quantity core fin fout].
    rewrite Hf. rewrite (sanitize_units_num _ _ L), (sanitize_free_num _ _ L). cbn [ubind].
    rewrite (strip_attach _ _ _ H1 L), all_num_map_num. cbn [ubind].
    assert (Lc : length (conv_list xs (funit (fin w)) (tin (fwd w))) = length (tin (fwd w))).
    { rewrite conv_list_length; [rewrite L; now apply all_convertible_length|assumption|now apply all_convertible_length]. }
    apply coordinates_attach; auto.
  Qed.

End Units.
