(* C16 — the arithmetic part over the reals: unit factors are arbitrary non-zero reals (deg, arcsec, rad = 180/PI deg, ...). *)
From Coq Require Import Reals List Bool Arith Lra.
From GW Require Import C16.Units.
Import ListNotations.
Local Open Scope R_scope.

Notation unitR := (unit R).
Notation convertR := (convert R Rmult Rdiv).
Notation conv_listR := (conv_list R Rmult Rdiv).

Definition nonzero (u : unitR) : Prop := factor R u <> 0.

Lemma convert_id : forall x u, nonzero u -> convertR x u u = x.
Proof. intros x u H. unfold convert, nonzero in *. field. exact H. Qed.

Lemma convert_compose : forall x a b c, nonzero b -> nonzero c -> convertR (convertR x a b) b c = convertR x a c.
Proof. intros x a b c Hb Hc. unfold convert, nonzero in *. field. split; assumption. Qed.

Lemma convert_roundtrip : forall x a b, nonzero a -> nonzero b -> convertR (convertR x a b) b a = x.
Proof. intros x a b Ha Hb. unfold convert, nonzero in *. field. split; assumption. Qed.

(* the same physical quantity expressed in two units converts to the same number *)
Theorem same_quantity_same_value : forall x a b c, nonzero b -> nonzero c ->
  convertR (convertR x a b) b c = convertR x a c.
Proof. exact convert_compose. Qed.

Lemma conv_list_compose : forall xs a b c, Forall nonzero b -> Forall nonzero c ->
  length xs = length a -> length a = length b -> length b = length c ->
  conv_listR (conv_listR xs a b) b c = conv_listR xs a c.
Proof.
  induction xs as [|x xs IH]; intros [|ua a] [|ub b] [|uc c] Hb Hc L1 L2 L3; cbn in *; try discriminate; auto.
  inversion Hb; inversion Hc; subst. rewrite convert_compose by assumption. f_equal. apply IH; auto.
Qed.

Lemma conv_list_roundtrip : forall xs a b, Forall nonzero a -> Forall nonzero b ->
  length xs = length a -> length a = length b -> conv_listR (conv_listR xs a b) b a = xs.
Proof.
  induction xs as [|x xs IH]; intros [|ua a] [|ub b] Ha Hb L1 L2; cbn in *; try discriminate; auto.
  inversion Ha; inversion Hb; subst. rewrite convert_roundtrip by assumption. f_equal. apply IH; auto.
Qed.

Section Invert.
  Variable skyconv : nat -> nat -> R * R -> R * R.
  Variables (deg sec : unitR) (unit_mul : unitR -> unitR -> unitR).

  Notation invertR := (invert R Rmult Rdiv skyconv deg sec).
  Notation as_wargR := (as_warg R).
  Notation attachR := (attach R).
  Notation twinR := (twin R Rmult Rdiv).

  (* world positions given as quantities in any convertible units us' invert to the same pixels as the same positions
     given in the frame's own units: unit-carrying form *)
  Theorem invert_any_unit_units : forall (w : wcs R) ws us',
    well_formed R w -> frame_ok R (fout R w) -> ws <> [] ->
    length ws = length (funit R (fout R w)) -> length us' = length ws ->
    all_convertible R (funit R (fout R w)) us' = true -> all_convertible R us' (tin R (bwd R w)) = true ->
    Forall nonzero us' -> Forall nonzero (tin R (bwd R w)) ->
    invertR w (map as_wargR (attachR (conv_listR ws (funit R (fout R w)) us') us')) =
    invertR w (map as_wargR (attachR ws (funit R (fout R w)))).
  Proof.
    intros w ws us' Hwf Hok Hne L Lu Hc1 Hc2 Hn1 Hn2.
    destruct Hwf as [Hf [Hb [H1 [H2 [H3 [H4 [L1 L2]]]]]]].
    assert (Lws' : length (conv_listR ws (funit R (fout R w)) us') = length ws) by (apply conv_list_length; congruence).
    assert (Hne' : conv_listR ws (funit R (fout R w)) us' <> []) by (intro E; rewrite E in Lws'; destruct ws; [congruence|discriminate]).
    unfold invert.
    destruct (attach_head R _ us' Hne' ltac:(congruence)) as [x1 [u1 [r1 E1]]].
    destruct (attach_head R ws (funit R (fout R w)) Hne L) as [x2 [u2 [r2 E2]]].
    remember (map as_wargR (attachR (conv_listR ws (funit R (fout R w)) us') us')) as a1 eqn:Ha1.
    remember (map as_wargR (attachR ws (funit R (fout R w)))) as a2 eqn:Ha2.
    rewrite E1, E2. cbn [is_numerical]. rewrite <- E1, <- E2, Ha1, Ha2.
    rewrite (c2q_quantities_gen R Rmult Rdiv skyconv deg sec (fout R w) (conv_listR ws (funit R (fout R w)) us') us' Hok ltac:(congruence) ltac:(congruence) Hne').
    rewrite (c2q_quantities R Rmult Rdiv skyconv deg sec (fout R w) ws Hok L Hne). cbn [ubind]. rewrite Hb.
    unfold eval. rewrite Hb.
    rewrite (strip_attach R Rmult Rdiv (conv_listR ws (funit R (fout R w)) us') us' _ Hc2 ltac:(congruence)).
    rewrite (strip_attach R Rmult Rdiv _ _ _ H3 L).
    pose proof (all_convertible_length R _ _ Hc1). pose proof (all_convertible_length R _ _ Hc2).
    rewrite conv_list_compose; auto; congruence.
  Qed.

  (* ... and the unit-free form: get_values converts to the frame units before the numbers reach the transform *)
  Theorem invert_any_unit_free : forall (w : wcs R) ws us',
    well_formed R w -> frame_ok R (fout R w) -> ws <> [] ->
    length ws = length (funit R (fout R w)) -> length us' = length ws ->
    all_convertible R us' (funit R (fout R w)) = true ->
    Forall nonzero us' -> Forall nonzero (funit R (fout R w)) ->
    invertR (twinR w) (map as_wargR (attachR (conv_listR ws (funit R (fout R w)) us') us')) =
    invertR (twinR w) (map (fun x => WNum R x) ws).
  Proof.
    intros w ws us' Hwf Hok Hne L Lu Hc1 Hn1 Hn2.
    assert (Lws' : length (conv_listR ws (funit R (fout R w)) us') = length ws) by (apply conv_list_length; congruence).
    assert (Hne' : conv_listR ws (funit R (fout R w)) us' <> []) by (intro E; rewrite E in Lws'; destruct ws; [congruence|discriminate]).
    unfold invert.
    destruct (attach_head R _ us' Hne' ltac:(congruence)) as [x1 [u1 [r1 E1]]].
    remember (map as_wargR (attachR (conv_listR ws (funit R (fout R w)) us') us')) as a1 eqn:Ha1.
    rewrite E1. cbn [is_numerical]. rewrite <- E1, Ha1.
    change (fout R (twinR w)) with (fout R w).
    rewrite (c2q_quantities_gen R Rmult Rdiv skyconv deg sec (fout R w) (conv_listR ws (funit R (fout R w)) us') us' Hok ltac:(congruence) ltac:(congruence) Hne').
    cbn [ubind]. unfold twin. destruct Hwf as [Hf' [Hb' _]]. rewrite (free_transform_on R Rmult Rdiv (bwd R w) _ _ Hb'). cbn [bwd uses_quantity].
    rewrite (get_values_attach R Rmult Rdiv (conv_listR ws (funit R (fout R w)) us') us' _ Hc1 ltac:(congruence)). cbn [ubind].
    rewrite conv_list_roundtrip; auto; try congruence.
    destruct ws as [|x ws]; [congruence|]. cbn [map is_numerical].
    f_equal. cbn [warg_value]. f_equal. clear. induction ws as [|y ws IH]; cbn; [reflexivity|]. now rewrite IH.
  Qed.
End Invert.

(* non-vacuity: deg / arcsec / rad with a unit-carrying imaging WCS *)
Example nonzero_units_exist :
  let deg := {| uid := 0; dim := 1; factor := 1 |} in
  let arcsec := {| uid := 1; dim := 1; factor := / 3600 |} in
  let rad := {| uid := 2; dim := 1; factor := 180 / PI |} in
  nonzero deg /\ nonzero arcsec /\ nonzero rad /\ convertR PI rad deg = 180.
Proof.
  cbn. unfold nonzero, convert. cbn. pose proof PI_RGT_0 as Hpi.
  assert (H1 : (1 : R) <> 0) by lra.
  assert (H2 : / 3600 <> 0) by (apply Rinv_neq_0_compat; lra).
  assert (H3 : 180 / PI <> 0) by (unfold Rdiv; apply Rmult_integral_contrapositive_currified; [lra|apply Rinv_neq_0_compat; lra]).
  repeat split; try assumption. field. lra.
Qed.
