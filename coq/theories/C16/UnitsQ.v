(* C16 — the generic unit model instantiated at Q, with a small case runner for the correspondence check. *)
From Coq Require Import QArith List Bool Arith.
From GW Require Import C16.Units.
Import ListNotations.
Local Open Scope Q_scope.

Notation unitQ := (unit Q).
Definition mku (id d : nat) (f : Q) : unitQ := Build_unit Q id d f.
Definition deg : unitQ := mku 1 1 1.
Definition sec : unitQ := mku 11 4 1.
Definition unit_mulQ (a b : unitQ) : unitQ := mku (1000 + uid Q a * 50 + uid Q b) (100 + dim Q a * 10 + dim Q b) (factor Q a * factor Q b).

(* per-axis affine numeric core: y_i = a_i * x_i + b_i *)
Fixpoint affine (rows : list (Q * Q)) (xs : list Q) : list Q :=
  match rows, xs with (a, b) :: r, x :: t => (a * x + b) :: affine r t | _, _ => [] end.

Record spec := { rows : list (Q * Q); s_tin : list unitQ; s_tout : list unitQ;
                 kin : fkind; uin : list unitQ; kout : fkind; uout : list unitQ;
                 bq : bool   (* the backward transform carries units too; false: a user-supplied inverse on bare numbers in frame units *) }.

Definition inv_rows (r : list (Q * Q)) : list (Q * Q) := map (fun ab => (1 / fst ab, - snd ab / fst ab)) r.

Definition wcs_of (s : spec) : wcs Q :=
  let b := Build_transform Q true (s_tout s) (s_tin s) (affine (inv_rows (rows s))) in
  Build_wcs Q (Build_transform Q true (s_tin s) (s_tout s) (affine (rows s)))
              (if bq s then b else free_transform Q Qmult Qdiv b (uout s) (uin s))
              (Build_frame Q (kin s) (uin s)) (Build_frame Q (kout s) (uout s)).

Inductive op :=
| OpP2WV (xs : list Q) | OpW2PV (ws : list Q) | OpInvert (args : list (warg Q)) | OpW2P (args : list (warg Q))
| OpP2W (pixels : list (value Q)).

Inductive outcome :=
| RNums (l : list Q)
| RVals (l : list (Q * option nat))
| RSky (ref : nat) (lon lat : Q) (u1 u2 : nat)
| RSpec (x : Q) (u : nat)
| RTime (s : Q)
| RErr (e : uerr).

Definition of_nums (r : ures (list Q)) : outcome := match r with UOk l => RNums l | UErr e => RErr e end.
Definition val_pair (v : value Q) : Q * option nat := match v with Num _ x => (x, None) | Qty _ x u => (x, Some (uid Q u)) end.

Definition norm_vals (l : list (Q * option nat)) : outcome :=
  if forallb (fun p => match snd p with None => true | Some _ => false end) l then RNums (map fst l) else RVals l.

Definition run (free : bool) (s : spec) (given : Q * Q) (o : op) : outcome :=
  let w0 := wcs_of s in
  let w := if free then twin Q Qmult Qdiv w0 else w0 in
  let skyconv := fun (fr ref : nat) (p : Q * Q) => if Nat.eqb fr ref then p else given in
  match o with
  | OpP2WV xs => of_nums (pixel_to_world_values Q Qmult Qdiv w xs)
  | OpW2PV ws => of_nums (world_to_pixel_values Q Qmult Qdiv skyconv deg sec w ws)
  | OpInvert args => match invert Q Qmult Qdiv skyconv deg sec w args with UOk l => norm_vals (map val_pair l) | UErr e => RErr e end
  | OpW2P args => of_nums (world_to_pixel Q Qmult Qdiv skyconv deg sec unit_mulQ w args)
  | OpP2W px => match pixel_to_world Q Qmult Qdiv deg sec unit_mulQ w px with
                | UOk (OQty _ l) => norm_vals (map val_pair l)
                | UOk (OSky _ r lon lat u1 u2) => RSky r lon lat (uid Q u1) (uid Q u2)
                | UOk (OSpec _ x u) => RSpec x (uid Q u)
                | UOk (OTime _ t) => RTime t
                | UErr e => RErr e
                end
  end.

Definition Qabs' (q : Q) : Q := if Qle_bool 0 q then q else - q.
Definition close (a b : Q) : bool := Qle_bool (Qabs' (a - b)) ((1 # 1000000000) * (1 + Qabs' b)).
Fixpoint close_list (a b : list Q) : bool :=
  match a, b with [], [] => true | x :: r, y :: s => close x y && close_list r s | _, _ => false end.
Definition opt_eqb (a b : option nat) : bool :=
  match a, b with None, None => true | Some x, Some y => Nat.eqb x y | _, _ => false end.
Fixpoint close_vals (a b : list (Q * option nat)) : bool :=
  match a, b with [], [] => true | (x, u) :: r, (y, v) :: s => close x y && opt_eqb u v && close_vals r s | _, _ => false end.
Definition uerr_eqb (a b : uerr) : bool :=
  match a, b with UnitConversionError, UnitConversionError | UnitsError, UnitsError | ValueError, ValueError | TypeError, TypeError => true
  | _, _ => false end.

Definition same_outcome (a b : outcome) : bool :=
  match a, b with
  | RNums x, RNums y => close_list x y
  | RVals x, RVals y => close_vals x y
  | RSky r1 l1 b1 u1 v1, RSky r2 l2 b2 u2 v2 => Nat.eqb r1 r2 && close l1 l2 && close b1 b2 && Nat.eqb u1 u2 && Nat.eqb v1 v2
  | RSpec x u, RSpec y v => close x y && Nat.eqb u v
  | RTime s, RTime t => close s t
  | RErr e, RErr f => uerr_eqb e f
  | _, _ => false
  end.

(* non-vacuity of the well-formedness premise of the twin theorems *)
Example imaging_well_formed :
  let pix := mku 0 0 1 in let arcsec := mku 2 1 (1 # 3600) in
  let s := {| rows := [(2, 10); (3, -5)]; s_tin := [pix; pix]; s_tout := [arcsec; arcsec];
              kin := Frame2D; uin := [pix; pix]; kout := Celestial 0; uout := [deg; deg]; bq := true |} in
  well_formed Q (wcs_of s) /\ frame_ok Q (fout Q (wcs_of s)) /\
  same_outcome (run false s (0, 0) (OpP2WV [1; 2])) (run true s (0, 0) (OpP2WV [1; 2])) = true.
Proof.
  cbn. repeat split; try reflexivity.
  - intros xs H. destruct xs as [|x [|y [|z xs]]]; try discriminate H. reflexivity.
  - intros xs H. destruct xs as [|x [|y [|z xs]]]; try discriminate H. reflexivity.
Qed.
