(* C03 — bounding-box masking, with IEEE binary64 comparisons (closed intervals, NaN, +-inf, one ulp).
   Hand model of what WCS.__call__ + astropy's ModelBoundingBox evaluation do with one point / a batch. *)
From Coq Require Import ZArith List Bool Lia PrimFloat FloatOps SpecFloat FloatAxioms.
From GW Require Import Base.Fl.
Import ListNotations.

Definition interval := (float * float)%type.

(* astropy: outside = (x < lower) | (x > upper), per axis; a point is masked iff some axis is outside *)
Definition outside1 (iv : interval) (x : float) : bool := PrimFloat.ltb x (fst iv) || PrimFloat.ltb (snd iv) x.
Fixpoint outside (b : list interval) (xs : list float) : bool :=
  match b, xs with
  | iv :: b', x :: xs' => outside1 iv x || outside b' xs'
  | _, _ => false
  end.

Section Call.
  Variable f : list float -> list float.      (* the unmasked transform (evaluation without the box) *)
  Variable nout : nat.

  Definition call_masked (b : list interval) (fill : float) (xs : list float) : list float :=
    if outside b xs then repeat fill nout else f xs.

  (* WCS.__call__: defaults with_bounding_box=True, fill_value=NaN; no box => plain evaluation *)
  Definition wcs_call (box : option (list interval)) (with_bbox : option bool) (fill : option float)
             (xs : list float) : list float :=
    match box with
    | None => f xs
    | Some b =>
        if match with_bbox with Some v => v | None => true end
        then call_masked b (match fill with Some v => v | None => nan end) xs
        else f xs
    end.

  (* a batch is evaluated point by point *)
  Definition wcs_call_batch box wb fill (pts : list (list float)) : list (list float) :=
    map (wcs_call box wb fill) pts.

  Theorem mask_exact b wb fill xs :
    wcs_call (Some b) wb fill xs =
    if (match wb with Some v => v | None => true end) && outside b xs
    then repeat (match fill with Some v => v | None => nan end) nout else f xs.
  Proof. unfold wcs_call, call_masked. destruct wb as [[|]|]; cbn [andb]; reflexivity. Qed.

  Theorem mask_off_noop box fill xs : wcs_call box (Some false) fill xs = f xs.
  Proof. destruct box; reflexivity. Qed.

  Theorem no_box_noop wb fill xs : wcs_call None wb fill xs = f xs.
  Proof. reflexivity. Qed.

  Theorem inside_is_plain b wb fill xs : outside b xs = false -> wcs_call (Some b) wb fill xs = f xs.
  Proof. intros H. rewrite mask_exact, H, andb_false_r. reflexivity. Qed.

  Theorem outside_is_fill b fill xs : outside b xs = true ->
    wcs_call (Some b) None fill xs = repeat (match fill with Some v => v | None => nan end) nout.
  Proof. intros H. rewrite mask_exact, H. reflexivity. Qed.

  Theorem batch_pointwise box wb fill pts k :
    nth k (wcs_call_batch box wb fill pts) [] = if Nat.ltb k (length pts) then wcs_call box wb fill (nth k pts []) else [].
  Proof.
    unfold wcs_call_batch. destruct (Nat.ltb k (length pts)) eqn:E.
    - apply Nat.ltb_lt in E. rewrite (nth_indep _ [] (wcs_call box wb fill [])) by now rewrite map_length.
      now rewrite map_nth.
    - apply Nat.ltb_ge in E. apply nth_overflow. now rewrite map_length.
  Qed.
End Call.

(* ---------- interval edges in IEEE arithmetic ------------------------------------------------ *)
Lemma SFcompare_refl s : s <> S754_nan -> SFcompare s s = Some Eq.
Proof.
  destruct s as [b|b| |b m e]; intros H; try congruence; cbn.
  - reflexivity.
  - destruct b; reflexivity.
  - destruct b; rewrite Z.compare_refl, ?Pos.compare_refl; reflexivity.
Qed.

Lemma ltb_irrefl x : is_nan x = false -> PrimFloat.ltb x x = false.
Proof.
  intros H. rewrite ltb_spec. unfold SFltb. unfold is_nan in H.
  destruct (Prim2SF x) eqn:E; try discriminate; rewrite SFcompare_refl; congruence.
Qed.

Lemma SFcompare_antisym a b : SFcompare b a = option_map CompOpp (SFcompare a b).
Proof.
  destruct a as [s1|s1| |s1 m1 e1], b as [s2|s2| |s2 m2 e2]; cbn; try reflexivity;
    try (destruct s1; reflexivity); try (destruct s2; reflexivity); try (destruct s1, s2; reflexivity).
  destruct s1, s2; cbn; try reflexivity;
    rewrite (Z.compare_antisym e1 e2); destruct (Z.compare e1 e2); cbn; try reflexivity;
    change (Pcompare m2 m1 Eq) with (Pos.compare m2 m1); change (Pcompare m1 m2 Eq) with (Pos.compare m1 m2);
    rewrite (Pos.compare_antisym m1 m2); destruct (Pos.compare m1 m2); reflexivity.
Qed.

(* closed interval: both end points are inside (for a proper interval lo <= hi of non-NaN bounds) *)
Theorem edge_inclusive lo hi : is_nan lo = false -> is_nan hi = false -> PrimFloat.leb lo hi = true ->
  outside1 (lo, hi) lo = false /\ outside1 (lo, hi) hi = false.
Proof.
  intros Hlo Hhi Hle. unfold outside1. cbn [fst snd].
  rewrite !ltb_irrefl by assumption. cbn [orb].
  rewrite leb_spec in Hle. rewrite !ltb_spec. unfold SFleb in Hle. unfold SFltb.
  rewrite (SFcompare_antisym (Prim2SF lo) (Prim2SF hi)).
  destruct (SFcompare (Prim2SF lo) (Prim2SF hi)) as [[| |]|]; try discriminate; split; reflexivity.
Qed.

(* NaN coordinates are not "outside": the transform is evaluated on them (and yields NaN by itself) *)
Theorem nan_not_outside iv : outside1 iv nan = false.
Proof.
  unfold outside1. rewrite !ltb_spec. unfold SFltb. cbn.
  destruct (Prim2SF (fst iv)); destruct (Prim2SF (snd iv)); reflexivity.
Qed.

(* concrete one-ulp facts used as non-vacuity / regression anchors *)
Example ulp_examples :
  outside1 (mk 2 0, mk 7 0) (mk 7 0) = false /\
  outside1 (mk 2 0, mk 7 0) (PrimFloat.next_up (mk 7 0)) = true /\
  outside1 (mk 2 0, mk 7 0) (PrimFloat.next_down (mk 2 0)) = true /\
  outside1 (mk 2 0, mk 7 0) (mk 2 0) = false /\
  outside1 (mk 5 (-1), mk 5 (-1)) (mk 5 (-1)) = false /\
  outside1 (mk 2 0, mk 7 0) infinity = true /\ outside1 (mk 2 0, mk 7 0) neg_infinity = true.
Proof. vm_compute. repeat split; reflexivity. Qed.

(* executable checker for the correspondence cases: expected = fill rows or the given unmasked rows *)
Definition row_same (a b : list float) : bool :=
  Nat.eqb (length a) (length b) && forallb (fun xy => same (fst xy) (snd xy)) (combine a b).

Definition check_point (nout : nat) (box : option (list interval)) (wb : option bool) (fill : option float)
           (xs unmasked got : list float) : bool :=
  row_same (wcs_call (fun _ => unmasked) nout box wb fill xs) got.
