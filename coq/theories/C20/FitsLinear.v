(* C20 — read_wcs_from_header (numeric keywords of a 2-axis header) and fitswcs_linear, over Q.
   FITS paper I: intermediate world coordinate  x_i = CDELT_i * sum_j PC_ij (p_j - CRPIX_j)   (PC form)
                                                 x_i =           sum_j CD_ij (p_j - CRPIX_j)   (CD form)
   with 1-based pixel p; gwcs uses 0-based pixels, hence CRPIX - 1. *)
From Coq Require Import QArith List String Ascii Bool.
Import ListNotations.
Local Open Scope Q_scope.

Definition header := list (string * Q).

Fixpoint lookup (h : header) (k : string) : option Q :=
  match h with [] => None | (k', v) :: r => if String.eqb k' k then Some v else lookup r k end.

Definition digit (n : nat) : string := String (ascii_of_nat (48 + n)) EmptyString.
Definition key1 (p : string) (i : nat) : string := (p ++ digit i)%string.
Definition key2 (p : string) (i j : nat) : string := (p ++ digit i ++ "_" ++ digit j)%string.

(* header['CD?_?'] is non-empty *)
Definition is_cd_key (s : string) : bool :=
  match s with
  | String "C" (String "D" (String _ (String "_" (String _ EmptyString)))) => true
  | _ => false
  end.
Definition has_cd (h : header) : bool := existsb (fun kv => is_cd_key (fst kv)) h.

Definition getd (h : header) (k : string) (d : Q) : Q := match lookup h k with Some v => v | None => d end.

Definition pc (h : header) (i j : nat) : Q :=
  match lookup h (key2 (if has_cd h then "CD" else "PC") i j) with
  | Some v => v
  | None => if Nat.eqb i j && negb (has_cd h) then 1 else 0
  end.
Definition crpix (h : header) (i : nat) : Q := getd h (key1 "CRPIX" i) 0.
Definition crval (h : header) (i : nat) : Q := getd h (key1 "CRVAL" i) 0.
Definition cdelt (h : header) (i : nat) : Q := getd h (key1 "CDELT" i) 1.

(* the three astropy stages fitswcs_linear composes *)
Definition shift2 (a b : Q) (p : Q * Q) : Q * Q := (fst p + a, snd p + b).
Definition affine2 (m11 m12 m21 m22 : Q) (p : Q * Q) : Q * Q := (m11 * fst p + m12 * snd p, m21 * fst p + m22 * snd p).
Definition scale2 (a b : Q) (p : Q * Q) : Q * Q := (a * fst p, b * snd p).

Definition fitswcs_linear (h : header) (p : Q * Q) : Q * Q :=
  let translation := shift2 (- (crpix h 1 - 1)) (- (crpix h 2 - 1)) in
  let rotation := affine2 (pc h 1 1) (pc h 1 2) (pc h 2 1) (pc h 2 2) in
  let scaling := scale2 (cdelt h 1) (cdelt h 2) in
  if has_cd h then rotation (translation p) else scaling (rotation (translation p)).

(* the FITS definition, 0-based pixel *)
Definition fits_spec (m11 m12 m21 m22 s1 s2 r1 r2 : Q) (p : Q * Q) : Q * Q :=
  (s1 * (m11 * (fst p + 1 - r1) + m12 * (snd p + 1 - r2)), s2 * (m21 * (fst p + 1 - r1) + m22 * (snd p + 1 - r2))).

Definition peq (a b : Q * Q) : Prop := fst a == fst b /\ snd a == snd b.

Theorem linear_is_fits_pc : forall h p, has_cd h = false ->
  peq (fitswcs_linear h p)
      (fits_spec (pc h 1 1) (pc h 1 2) (pc h 2 1) (pc h 2 2) (cdelt h 1) (cdelt h 2) (crpix h 1) (crpix h 2) p).
Proof. intros h p H. unfold fitswcs_linear. rewrite H. unfold peq, fits_spec, scale2, affine2, shift2; cbn [fst snd]. split; ring. Qed.

Theorem linear_is_fits_cd : forall h p, has_cd h = true ->
  peq (fitswcs_linear h p)
      (fits_spec (pc h 1 1) (pc h 1 2) (pc h 2 1) (pc h 2 2) 1 1 (crpix h 1) (crpix h 2) p).
Proof. intros h p H. unfold fitswcs_linear. rewrite H. unfold peq, fits_spec, affine2, shift2; cbn [fst snd]. split; ring. Qed.

(* the reference pixel maps to the origin of the intermediate plane: the point the projection sends to the fiducial *)
Theorem reference_pixel_to_origin : forall h, peq (fitswcs_linear h (crpix h 1 - 1, crpix h 2 - 1)) (0, 0).
Proof. intros h. unfold fitswcs_linear, peq, scale2, affine2, shift2. destruct (has_cd h); cbn [fst snd]; split; ring. Qed.

(* defaults *)
Theorem pc_default_identity : forall h i j, has_cd h = false -> lookup h (key2 "PC" i j) = None ->
  pc h i j = if Nat.eqb i j then 1 else 0.
Proof. intros h i j H L. unfold pc. rewrite H, L. cbn. now rewrite andb_true_r. Qed.
Theorem cd_default_zero : forall h i j, has_cd h = true -> lookup h (key2 "CD" i j) = None -> pc h i j = 0.
Proof. intros h i j H L. unfold pc. rewrite H, L. cbn. now rewrite andb_false_r. Qed.
Theorem any_cd_keyword_selects_cd : forall h k v, In (k, v) h -> is_cd_key k = true -> has_cd h = true.
Proof. intros h k v Hin Hk. unfold has_cd. apply existsb_exists. exists (k, v). split; assumption. Qed.

(* scaling before the matrix (CDELT_j applied to columns) is a different map: the order matters *)
Example order_matters :
  let h := [("CDELT1", 2); ("CDELT2", 1); ("PC1_2", 1)]%string in
  ~ peq (fitswcs_linear h (0, 1))
        (affine2 (pc h 1 1) (pc h 1 2) (pc h 2 1) (pc h 2 2) (scale2 (cdelt h 1) (cdelt h 2) (shift2 (- (crpix h 1 - 1)) (- (crpix h 2 - 1)) (0, 1)))).
Proof. cbv. intros [H _]. discriminate H. Qed.

Definition same (a b : Q * Q) : bool := Qeq_bool (fst a) (fst b) && Qeq_bool (snd a) (snd b).

(* FITS default LONPOLE over Q (same rule as Rotation.default_lonpole), for the correspondence with _compute_lon_pole *)
Definition default_lonpole_q (theta0 lat : Q) : Q := if Qle_bool theta0 lat then 0 else 180.
