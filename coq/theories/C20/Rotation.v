(* C20 — the sky rotation a fiducial WCS is built from.  Model of astropy's RotateNative2Celestial(lon, lat, lon_pole)
   (zxz Euler rotation with passive axis matrices, as in astropy.modeling.rotations / coordinates.matrix_utilities) on
   direction cosines, over the reals.  gwcs's _sky_transform is  projection | RotateNative2Celestial(lon, lat, lon_pole)
   with (lon, lat) the fiducial. *)
From Coq Require Import Reals Lra.
Local Open Scope R_scope.

Definition vec := (R * R * R)%type.

(* rotation_matrix(angle, 'z') and (..., 'x') of astropy: they rotate the axes *)
Definition Rz (a : R) (v : vec) : vec := let '(x, y, z) := v in (cos a * x + sin a * y, - sin a * x + cos a * y, z).
Definition Rx (a : R) (v : vec) : vec := let '(x, y, z) := v in (x, cos a * y + sin a * z, - sin a * y + cos a * z).

(* unit vector of spherical (lon, lat), radians *)
Definition uv (lon lat : R) : vec := (cos lat * cos lon, cos lat * sin lon, sin lat).

(* RotateNative2Celestial.evaluate: phi = lon_pole - pi/2, theta = -(pi/2 - lat), psi = -(pi/2 + lon);
   matrix = Rz(psi) . Rx(theta) . Rz(phi) *)
Definition native2celestial (lon lat lon_pole : R) (v : vec) : vec :=
  Rz (- (PI / 2 + lon)) (Rx (- (PI / 2 - lat)) (Rz (lon_pole - PI / 2) v)).

Lemma sin_m_half_minus a : sin (- (PI / 2 - a)) = - cos a.
Proof. rewrite sin_neg. rewrite sin_shift. reflexivity. Qed.
Lemma cos_m_half_minus a : cos (- (PI / 2 - a)) = sin a.
Proof. rewrite cos_neg. rewrite cos_shift. reflexivity. Qed.
Lemma sin_m_half_plus a : sin (- (PI / 2 + a)) = - cos a.
Proof. rewrite sin_neg. replace (PI / 2 + a) with (a + PI / 2) by ring. rewrite sin_plus, sin_PI2, cos_PI2. ring. Qed.
Lemma cos_m_half_plus a : cos (- (PI / 2 + a)) = - sin a.
Proof. rewrite cos_neg. replace (PI / 2 + a) with (a + PI / 2) by ring. rewrite cos_plus, sin_PI2, cos_PI2. ring. Qed.

(* the native pole (theta = 90 deg, where every zenithal projection puts its reference point) is carried onto the fiducial,
   whatever the pole longitude *)
Theorem native_pole_to_fiducial : forall lon lat lon_pole phi,
  native2celestial lon lat lon_pole (uv phi (PI / 2)) = uv lon lat.
Proof.
  intros lon lat lp phi. unfold native2celestial, uv, Rz, Rx.
  rewrite sin_PI2, cos_PI2. rewrite sin_m_half_minus, cos_m_half_minus, sin_m_half_plus, cos_m_half_plus.
  f_equal; [f_equal|]; ring.
Qed.

(* rotations preserve the norm: the image of a direction is a direction *)
Definition norm2 (v : vec) : R := let '(x, y, z) := v in x * x + y * y + z * z.
Lemma Rz_norm a v : norm2 (Rz a v) = norm2 v.
Proof. destruct v as [[x y] z]. unfold Rz, norm2. pose proof (sin2_cos2 a) as H. unfold Rsqr in H.
       replace ((cos a * x + sin a * y) * (cos a * x + sin a * y) + (- sin a * x + cos a * y) * (- sin a * x + cos a * y) + z * z)
         with ((sin a * sin a + cos a * cos a) * (x * x + y * y) + z * z) by ring. rewrite H. ring. Qed.
Lemma Rx_norm a v : norm2 (Rx a v) = norm2 v.
Proof. destruct v as [[x y] z]. unfold Rx, norm2. pose proof (sin2_cos2 a) as H. unfold Rsqr in H.
       replace (x * x + (cos a * y + sin a * z) * (cos a * y + sin a * z) + (- sin a * y + cos a * z) * (- sin a * y + cos a * z))
         with (x * x + (sin a * sin a + cos a * cos a) * (y * y + z * z)) by ring. rewrite H. ring. Qed.
Theorem native2celestial_norm lon lat lp v : norm2 (native2celestial lon lat lp v) = norm2 v.
Proof. unfold native2celestial. now rewrite Rz_norm, Rx_norm, Rz_norm. Qed.

(* a projection whose reference point is NOT the native pole (cylindrical, conic, quad-cube ...: theta0 <> 90 deg) is not
   anchored by this construction: with fiducial (0, 0) and lon_pole 0 the native reference point (phi, theta) = (0, 0) of a
   cylindrical projection lands on the celestial pole, 90 degrees away from the fiducial *)
Theorem nonzenithal_reference_refuted :
  exists lon lat lon_pole, native2celestial lon lat lon_pole (uv 0 0) <> uv lon lat.
Proof.
  exists 0, 0, 0. unfold native2celestial, uv, Rz, Rx.
  replace (0 - PI / 2) with (- (PI / 2)) by ring.
  replace (- (PI / 2 - 0)) with (- (PI / 2)) by ring. replace (- (PI / 2 + 0)) with (- (PI / 2)) by ring.
  rewrite sin_neg, cos_neg, sin_PI2, cos_PI2, sin_0, cos_0.
  intro H. injection H as _ _ Hz. lra.
Qed.

(* the FITS default for LONPOLE (paper II, sect. 2.4): 0 when the fiducial latitude is not below the native latitude of the
   reference point, otherwise 180; degrees *)
Definition default_lonpole (theta0 lat : R) : R := if Rle_dec theta0 lat then 0 else 180.

Theorem zenithal_lonpole : forall lat, lat < 90 -> default_lonpole 90 lat = 180.
Proof. intros lat H. unfold default_lonpole. destruct (Rle_dec 90 lat); [lra|reflexivity]. Qed.
Theorem zenithal_lonpole_at_pole : default_lonpole 90 90 = 0.
Proof. unfold default_lonpole. destruct (Rle_dec 90 90); [reflexivity|lra]. Qed.
