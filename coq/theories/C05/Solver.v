(* C05 — index bookkeeping of WCS._vectorized_fixed_point (the iterative world->pixel solver).
   The numerics are adversarial: an oracle supplies, for every iteration and point, the squared norm of the new
   correction (possibly NaN) and whether the corrected pixel stays finite.  Points interact only through batch-global
   tests (nanmax, any-divergent), which decide WHICH kind of iteration happens next; the model lets any kind happen at
   any time (sound over-approximation) and keeps the real exit conditions.
   Norms are `option Z` (None = NaN): every comparison with NaN is false, as in IEEE arithmetic. *)
From Coq Require Import ZArith List Bool Lia.
Import ListNotations.
Local Open Scope Z_scope.

Definition fl := option Z.
Definition fge (a b : fl) : bool := match a, b with Some x, Some y => y <=? x | _, _ => false end.   (* a >= b *)
Definition flt (a b : fl) : bool := match a, b with Some x, Some y => x <? y | _, _ => false end.    (* a <  b *)

Record pt := { dn : fl; dnprev : fl; pixfin : bool; active : bool;
               hole : bool  (* ghost: the last correction of this point was NaN and was NOT applied *) }.

Section S.
  Variable tol2 : Z.
  Variable detect : bool.

  (* one oracle answer: new squared norm, and "pix - correction is finite"; a NaN norm means a NaN correction *)
  Definition ans := (fl * bool)%type.
  Definition ans_ok (a : ans) : Prop := fst a = None -> snd a = false.

  (* non-adaptive iteration that does not switch: every point is re-evaluated and corrected *)
  Definition t_na (p : pt) (a : ans) : pt :=
    {| dn := fst a; dnprev := if detect then fst a else dnprev p; pixfin := pixfin p && snd a; active := true; hole := false |}.

  (* the iteration on which divergence is detected: only converging points are corrected, the still-slow converging
     ones stay active, and the loop turns adaptive *)
  Definition t_switch (p : pt) (a : ans) : pt :=
    let conv := flt (fst a) (dnprev p) in
    let act := fge (fst a) (Some tol2) && conv in
    {| dn := fst a; dnprev := if act then fst a else dnprev p;
       pixfin := if conv then pixfin p && snd a else pixfin p; active := act;
       hole := negb conv && match fst a with None => pixfin p | Some _ => false end |}.

  (* entering the adaptive loop without a switch: the active set is the points with finite pixels *)
  Definition t_enter (p : pt) : pt :=
    {| dn := dn p; dnprev := dnprev p; pixfin := pixfin p; active := pixfin p; hole := false |}.

  (* adaptive iteration: active points are re-evaluated and corrected (conv is all-True in the code: either every
     point converges or `conv = ones`), then dropped once their norm is below tolerance *)
  Definition t_ad (p : pt) (a : ans) : pt :=
    if active p then {| dn := fst a; dnprev := dn p; pixfin := pixfin p && snd a; active := fge (fst a) (Some tol2); hole := false |}
    else p.

  (* ---- final classification (per point) ---- *)
  (* a non-finite pixel, or (since the repair in /repo) a NaN correction norm, for a finite world point *)
  Definition isnan (a : fl) : bool := match a with None => true | Some _ => false end.
  Definition invalid (worldfin : bool) (p : pt) : bool := (negb (pixfin p) || isnan (dn p)) && worldfin.
  (* the code before the repair: only the pixel was looked at *)
  Definition invalid_legacy (worldfin : bool) (p : pt) : bool := negb (pixfin p) && worldfin.
  Definition in_div0 wf (p : pt) : bool := (fge (dn p) (Some tol2) && fge (dn p) (dnprev p)) || invalid wf p.
  (* scipy fallback: only with detect_divergence; success removes the point from the divergent list and validates it *)
  Definition rescued wf (p : pt) (sc : bool) : bool := detect && in_div0 wf p && sc.
  Definition divergent wf (p : pt) (sc : bool) : bool := in_div0 wf p && negb (rescued wf p sc).
  Definition invalid_after wf (p : pt) (sc : bool) : bool := invalid wf p && negb (rescued wf p sc).
  Definition slow wf (p : pt) (sc kmax : bool) : bool :=
    kmax && fge (dn p) (Some tol2) && flt (dn p) (dnprev p) && negb (invalid_after wf p sc).
  Definition reported wf (p : pt) (sc kmax : bool) : bool := divergent wf p sc || slow wf p sc kmax.
  Definition converged (p : pt) : bool := flt (dn p) (Some tol2) && pixfin p.

  (* ---- invariants ---- *)
  (* phase A (non-adaptive loop): a NaN norm goes with a non-finite pixel *)
  Definition InvA (p : pt) : Prop :=
    (dn p = None -> pixfin p = false) /\ (dnprev p = None -> pixfin p = false).
  (* phase B (adaptive loop): the same up to the ghost flag; holes are inactive; an inactive point is settled *)
  Definition InvB (p : pt) : Prop :=
    (dn p = None -> pixfin p = false \/ hole p = true) /\
    (dnprev p = None -> pixfin p = false \/ hole p = true) /\
    (hole p = true -> active p = false /\ dn p = None) /\
    (active p = false ->
       pixfin p = false \/ hole p = true \/ flt (dn p) (Some tol2) = true \/
       (fge (dn p) (Some tol2) && fge (dn p) (dnprev p) = true)).

  Lemma invA_na p a : ans_ok a -> InvA p -> InvA (t_na p a).
  Proof.
    intros Ha [I1 I2]. unfold InvA, t_na. cbn. split.
    - intros H. rewrite (Ha H). apply andb_false_r.
    - destruct detect; intros H; [rewrite (Ha H); apply andb_false_r | rewrite (I2 H); reflexivity].
  Qed.

  Lemma invB_enter p : InvA p -> InvB (t_enter p).
  Proof.
    intros [I1 I2]. unfold InvB, t_enter. cbn. repeat split.
    - intros H. left. auto.
    - intros H. left. auto.
    - discriminate.
    - discriminate.
    - intros H. left. exact H.
  Qed.

  Lemma invB_switch p a : ans_ok a -> InvA p -> InvB (t_switch p a).
  Proof.
    intros Ha [I1 I2]. unfold InvB, t_switch. destruct a as [d cf]. unfold ans_ok in Ha. cbn [fst snd] in *.
    destruct d as [d|].
    - destruct (dnprev p) as [q|] eqn:Eq; cbn [flt fge].
      + destruct (d <? q) eqn:E1; destruct (tol2 <=? d) eqn:E2; cbn [andb negb dn dnprev pixfin active hole];
          (split; [intros H; discriminate H|split; [intros H; discriminate H|split; [intros H; discriminate H|intros Hact; try discriminate Hact]]]).
        * right. right. left. cbn. lia.
        * right. right. right. cbn. lia.
        * right. right. left. cbn. lia.
      + specialize (I2 eq_refl). cbn [andb negb dn dnprev pixfin active hole]. rewrite andb_false_r.
        split; [intros H; discriminate H|split; [intros _; left; exact I2|split; [intros H; discriminate H|intros _; left; exact I2]]].
    - specialize (Ha eq_refl). cbn [flt fge andb negb dn dnprev pixfin active hole].
      split; [intros _; destruct (pixfin p); [right|left]; reflexivity|].
      split; [intros H; left; apply I2; exact H|].
      split; [intros _; split; reflexivity|].
      intros _. destruct (pixfin p); [right; left|left]; reflexivity.
  Qed.

  Lemma invB_ad p a : ans_ok a -> InvB p -> InvB (t_ad p a).
  Proof.
    intros Ha HI. pose proof HI as [I1 [I2 [I3 I4]]]. unfold t_ad. destruct (active p) eqn:Eact; [|exact HI].
    assert (Hnh : hole p = false) by (destruct (hole p); [destruct (I3 eq_refl); congruence|reflexivity]).
    unfold InvB. destruct a as [d cf]. unfold ans_ok in Ha. cbn [fst snd] in *. cbn. repeat split.
    - intros H. left. rewrite (Ha H). apply andb_false_r.
    - intros H. destruct (I1 H) as [Hp|Hh]; [left; now rewrite Hp|congruence].
    - discriminate.
    - discriminate.
    - intros H. destruct d as [d|]; cbn [fge] in H.
      + right. right. left. cbn. lia.
      + left. rewrite (Ha eq_refl). apply andb_false_r.
  Qed.

  (* ---- what the final classification guarantees ---- *)
  Theorem final_adaptive (p : pt) (sc kmax : bool) :
    InvB p -> (kmax = true \/ active p = false) ->
    reported true p sc kmax = true \/ rescued true p sc = true \/ converged p = true.
  Proof.
    intros [I1 [I2 [I3 I4]]] Hexit.
    unfold reported, divergent, slow, rescued, invalid_after, in_div0, invalid, converged.
    destruct (dn p) as [d|] eqn:Ed.
    2:{ destruct (pixfin p), detect, sc, kmax; cbn; auto. }
    destruct (hole p) eqn:Eh; [destruct (I3 eq_refl); congruence|].
    destruct (pixfin p) eqn:Ep.
    2:{ destruct (dnprev p) as [q|]; cbn [fge flt isnan negb andb orb];
        [destruct (tol2 <=? d), (q <=? d), (d <? q), detect, sc, kmax | destruct (tol2 <=? d), detect, sc, kmax]; cbn; auto. }
    destruct (dnprev p) as [q|] eqn:Eq; [|destruct (I2 eq_refl); congruence].
    cbn [negb andb isnan orb]. rewrite ?orb_false_r, ?andb_true_r.
    cbn [fge flt].
    destruct (tol2 <=? d) eqn:E1.
    - destruct (q <=? d) eqn:E2.
      + destruct detect, sc; cbn; auto.
      + assert (Hlt : (d <? q) = true) by lia. rewrite Hlt.
        destruct Hexit as [->|Hact].
        * left. destruct detect, sc; cbn; reflexivity.
        * destruct (I4 Hact) as [H|[H|[H|H]]]; try congruence.
          -- cbn in H. lia.
          -- cbn in H. lia.
    - right. right. cbn. lia.
  Qed.

  Theorem final_nonadaptive (p : pt) (sc kmax : bool) :
    InvA p -> (kmax = true \/ fge (dn p) (Some tol2) = false) ->
    reported true p sc kmax = true \/ rescued true p sc = true \/ converged p = true.
  Proof.
    intros [I1 I2] Hexit.
    unfold reported, divergent, slow, rescued, invalid_after, in_div0, invalid, converged.
    destruct (pixfin p) eqn:Ep.
    2:{ destruct (dn p) as [d|]; destruct (dnprev p) as [q|]; cbn [fge flt isnan negb andb orb];
        try destruct (tol2 <=? d); try destruct (q <=? d); try destruct (d <? q); destruct detect, sc, kmax; cbn; auto. }
    destruct (dn p) as [d|] eqn:Ed; [|specialize (I1 eq_refl); congruence].
    destruct (dnprev p) as [q|] eqn:Eq; [|specialize (I2 eq_refl); congruence].
    cbn [negb andb isnan orb]. rewrite ?orb_false_r, ?andb_true_r.
    cbn [fge flt] in *.
    destruct (tol2 <=? d) eqn:E1.
    - destruct (q <=? d) eqn:E2.
      + destruct detect, sc; cbn; auto.
      + assert (Hlt : (d <? q) = true) by lia. rewrite Hlt.
        destruct Hexit as [->|H]; [|discriminate]. left. destruct detect, sc; cbn; reflexivity.
    - right. right. cbn. lia.
  Qed.

  (* NaN world input: the point is never reported (invalid requires a finite world point) and its pixel is NaN *)
  Theorem nan_world_not_reported (p : pt) sc kmax : pixfin p = false -> dn p = None -> reported false p sc kmax = false.
  Proof.
    intros Hp Hd. unfold reported, divergent, slow, rescued, invalid_after, in_div0, invalid. rewrite Hd, Hp. cbn.
    now rewrite !andb_false_r.
  Qed.

  (* ---- the machine: batches, any sequence of iteration kinds ---- *)
  Inductive reachA : list pt -> Prop :=
    | RA_init ps : Forall InvA ps -> reachA ps
    | RA_step ps ans : reachA ps -> Forall ans_ok ans -> length ans = length ps ->
                       reachA (map (fun pa => t_na (fst pa) (snd pa)) (combine ps ans)).
  Inductive reachB : list pt -> Prop :=
    | RB_switch ps ans : reachA ps -> Forall ans_ok ans -> length ans = length ps ->
                         reachB (map (fun pa => t_switch (fst pa) (snd pa)) (combine ps ans))
    | RB_enter ps : reachA ps -> reachB (map t_enter ps)
    | RB_step ps ans : reachB ps -> Forall ans_ok ans -> length ans = length ps ->
                       reachB (map (fun pa => t_ad (fst pa) (snd pa)) (combine ps ans)).

  Lemma Forall_map_combine {A B C} (P : A -> Prop) (Q : B -> Prop) (R : C -> Prop) (f : A * B -> C) :
    (forall a b, P a -> Q b -> R (f (a, b))) ->
    forall l1 l2, Forall P l1 -> Forall Q l2 -> Forall R (map f (combine l1 l2)).
  Proof.
    intros H. induction l1 as [|a l1 IH]; intros [|b l2] H1 H2; cbn; try constructor.
    - inversion H1; inversion H2; subst. now apply H.
    - inversion H1; inversion H2; subst. now apply IH.
  Qed.

  Lemma reachA_inv ps : reachA ps -> Forall InvA ps.
  Proof.
    induction 1 as [ps H|ps ans _ IH Hok Hl]; [assumption|].
    apply (Forall_map_combine InvA ans_ok InvA); auto. intros a b Ha Hb. cbn. now apply invA_na.
  Qed.

  Lemma reachB_inv ps : reachB ps -> Forall InvB ps.
  Proof.
    induction 1 as [ps ans HA Hok Hl|ps HA|ps ans _ IH Hok Hl].
    - apply (Forall_map_combine InvA ans_ok InvB); auto using reachA_inv. intros a b Ha Hb. cbn. now apply invB_switch.
    - apply Forall_forall. intros q Hq. apply in_map_iff in Hq as [p [<- Hp]]. apply invB_enter.
      pose proof (reachA_inv ps HA) as Hall. rewrite Forall_forall in Hall. now apply Hall.
    - apply (Forall_map_combine InvB ans_ok InvB); auto. intros a b Ha Hb. cbn. now apply invB_ad.
  Qed.

  (* every point of every batch, for every oracle and every interleaving of iteration kinds: when the adaptive loop has
     ended (iteration budget used up, or no active point left), a point with a finite world coordinate is reported
     (divergent or slow), rescued by the fallback solver, or converged with a finite pixel.
     (Before the repair aaeda87 in /repo there was a fourth case, the `hole`: a NaN correction on the very iteration that
     switches the loop to adaptive mode is not applied, and the point was reported by neither list — see hole_witness.) *)
  Theorem unreported_implies_converged ps p sc kmax :
    reachB ps -> In p ps -> (kmax = true \/ Forall (fun q => active q = false) ps) ->
    reported true p sc kmax = true \/ rescued true p sc = true \/ converged p = true.
  Proof.
    intros Hr Hin Hexit. pose proof (reachB_inv ps Hr) as Hall. rewrite Forall_forall in Hall.
    apply final_adaptive; [now apply Hall|].
    destruct Hexit as [->|Hx]; [now left|right]. rewrite Forall_forall in Hx. now apply Hx.
  Qed.

  Theorem unreported_implies_converged_nonadaptive ps p sc kmax :
    reachA ps -> In p ps -> (kmax = true \/ Forall (fun q => fge (dn q) (Some tol2) = false) ps) ->
    reported true p sc kmax = true \/ rescued true p sc = true \/ converged p = true.
  Proof.
    intros Hr Hin Hexit. pose proof (reachA_inv ps Hr) as Hall. rewrite Forall_forall in Hall.
    apply final_nonadaptive; [now apply Hall|].
    destruct Hexit as [->|Hx]; [now left|right]. rewrite Forall_forall in Hx. now apply Hx.
  Qed.
End S.

(* non-vacuity and the hole: the switch iteration with a NaN correction leaves an unconverged point that the legacy
   classification (invalid = non-finite pixel only) did not report; the repaired one does *)
Definition reported_legacy (tol2 : Z) (detect : bool) (p : pt) (sc kmax : bool) : bool :=
  let inv := invalid_legacy true p in
  let div0 := (fge (dn p) (Some tol2) && fge (dn p) (dnprev p)) || inv in
  (div0 && negb (detect && div0 && sc)) || (kmax && fge (dn p) (Some tol2) && flt (dn p) (dnprev p) && negb (inv && negb (detect && div0 && sc))).

Example hole_witness :
  let p0 := {| dn := Some 9; dnprev := Some 9; pixfin := true; active := true; hole := false |} in
  let p := t_switch 4 p0 (None, false) in
  InvA p0 /\ InvB 4 p /\ hole p = true /\ converged 4 p = false /\
  reported_legacy 4 true p false true = false /\ reported 4 true true p false true = true.
Proof. cbn. repeat split; try discriminate; auto. Qed.

(* the final comparison must be >= : with > a point whose norm did not change would be reported by neither list *)
Example equal_norm_is_reported :
  let p := {| dn := Some 9; dnprev := Some 9; pixfin := true; active := true; hole := false |} in
  reported 4 true true p false true = true /\ converged 4 p = false.
Proof. cbn. split; reflexivity. Qed.
