(* C14 — refutation witnesses (informational: each documents a defect, repaired or known). *)
From Coq Require Import ZArith List Bool.
From GW Require Import Base.PyList C14.Model C14.Proofs C14.Geometry.
Import ListNotations.
Local Open Scope Z_scope.

(* (fixed in /repo: 79f88a2) unguarded slice: a polygon wholly left of the image marks columns *)
Example C14_negslice_refuted :
  let polys := [(1, ([-48; -24; -24; -48; -48], [8; 8; 32; 32; 8]))] in
  from_vertices false xint_fl init_poly_legacy 8 8 polys <> blank 8 8 /\
  from_vertices true xint_fl init_poly 8 8 polys = blank 8 8.
Proof. split; vm_compute; [discriminate|reflexivity]. Qed.

(* (fixed: 7db2e7b) shift-before-round: vertex 0.3 (=2/8... here 2/8 -> 3/8) goes to column 1 when another vertex is at -0.4 *)
Example C14_shift_round_refuted :
  vx (init_poly_legacy [-3; 2; 32; 32; -3] [0; 32; 32; 0; 0]) <> map round_half_up8 [-3; 2; 32; 32; -3]
  /\ vx (init_poly [-3; 2; 32; 32; -3] [0; 32; 32; 0; 0]) = map round_half_up8 [-3; 2; 32; 32; -3].
Proof. split; vm_compute; [discriminate|reflexivity]. Qed.

(* (fixed: 922962a) half-even rounding is not translation covariant *)
Example C14_half_even_refuted :
  round_half_even8 (4 + 8) <> round_half_even8 4 + 1.
Proof. vm_compute. discriminate. Qed.

(* KNOWN FINDING C14/float-ceil-translate: the binary64 intersection is not translation covariant:
   edge (200,0)->(20,10) on row 7 crosses at exactly x = 74; the code computes
   ceil(fl(fl(0.7 * -180) + 200)) = 75, but after moving the polygon by +1000 px it computes 1074. *)
Example C14_float_translate_refuted :
  let e := {| sx := 200; sy := 0; ex := 20; ey := 10 |} in
  let e' := {| sx := 1200; sy := 0; ex := 1020; ey := 10 |} in
  xint_fl 180 e 7 = 75 /\ xint_fl 180 e' 7 = 1074 /\ xint_exact 180 e 7 = 74 /\
  contract_b xint_fl 180 e 7 = true /\ contract_b xint_fl 180 e' 7 = true.
Proof. vm_compute. repeat split; reflexivity. Qed.
