(* C14 — lemmas about the model of region.Polygon.scan (guarded fill, any xint). *)
From Coq Require Import ZArith List Bool Lia Permutation ZifyBool.
From GW Require Import Base.PyList C14.Model.
Import ListNotations.
Local Open Scope Z_scope.

(* ---------- canvases ------------------------------------------------------- *)
Definition cell (data : list (list Z)) (x y : Z) : Z := znth 0 (znth [] data y) x.

Definition rect (ny nx : nat) (data : list (list Z)) : Prop :=
  length data = ny /\ Forall (fun r => length r = nx) data.

Definition in_span (u : Z) (ij : Z * Z) : bool := (fst ij <=? u) && (u <=? snd ij).

(* ---------- one span ------------------------------------------------------- *)
Lemma fill_span_length nx shx rid row ij :
  length (fill_span true nx shx rid row ij) = length row.
Proof.
  unfold fill_span. destruct (true && _); [reflexivity|]. apply slice_assign_length.
Qed.

Lemma fill_span_nth nx shx rid row ij (j : nat) :
  (j < length row)%nat -> Z.of_nat (length row) = nx ->
  nth j (fill_span true nx shx rid row ij) 0 =
  if in_span (Z.of_nat j - shx) ij then rid else nth j row 0.
Proof.
  intros Hj Hnx. unfold fill_span, in_span. destruct ij as [a b]; cbn [fst snd].
  set (xs := Z.max 0 (a + shx)). set (xe := Z.min (b + shx) (nx - 1)).
  cbn [andb].
  destruct (xe <? xs) eqn:E.
  - destruct (a <=? Z.of_nat j - shx) eqn:E1; destruct (Z.of_nat j - shx <=? b) eqn:E2;
      cbn [andb]; try reflexivity. exfalso. subst xs xe. lia.
  - rewrite slice_assign_nth by (subst xs xe; lia).
    destruct (xs <=? Z.of_nat j) eqn:E1; destruct (Z.of_nat j <? xe + 1) eqn:E2;
    destruct (a <=? Z.of_nat j - shx) eqn:E3; destruct (Z.of_nat j - shx <=? b) eqn:E4;
    cbn [andb]; try reflexivity; exfalso; subst xs xe; lia.
Qed.

Lemma fill_row_length nx shx rid spans : forall row,
  length (fill_row true nx shx rid spans row) = length row.
Proof.
  unfold fill_row. induction spans as [|s r IH]; intros row; cbn [fold_left]; [reflexivity|].
  rewrite IH. apply fill_span_length.
Qed.

Lemma fill_row_nth nx shx rid spans : forall row (j : nat),
  (j < length row)%nat -> Z.of_nat (length row) = nx ->
  nth j (fill_row true nx shx rid spans row) 0 =
  if existsb (in_span (Z.of_nat j - shx)) spans then rid else nth j row 0.
Proof.
  unfold fill_row. induction spans as [|s r IH]; intros row j Hj Hnx; cbn [fold_left existsb].
  - reflexivity.
  - rewrite IH by (rewrite ?fill_span_length; assumption).
    rewrite fill_span_nth by assumption.
    destruct (in_span (Z.of_nat j - shx) s); cbn [orb];
      destruct (existsb _ r); reflexivity.
Qed.

(* ---------- one row of the canvas ------------------------------------------- *)
Lemma update_row_length k f : forall data, length (update_row k f data) = length data.
Proof. induction k as [|k IH]; intros [|r rest]; cbn; try reflexivity. now rewrite IH. Qed.

Lemma update_row_nth f : forall data k (i : nat),
  nth i (update_row k f data) [] =
  if (i =? k)%nat && (i <? length data)%nat then f (nth i data []) else nth i data [].
Proof.
  induction data as [|r rest IH]; intros k i.
  - destruct k; cbn [update_row length]; rewrite andb_false_r; reflexivity.
  - destruct k as [|k]; destruct i as [|i]; cbn [update_row nth length]; try reflexivity.
    rewrite IH. reflexivity.
Qed.

Lemma update_row_Forall (P : list Z -> Prop) f : (forall r, P r -> P (f r)) ->
  forall data k, Forall P data -> Forall P (update_row k f data).
Proof.
  intros Hf. induction data as [|r rest IH]; intros k Hall; [destruct k; constructor|].
  inversion Hall as [|? ? Hr Hrest]; subst.
  destruct k as [|k]; cbn [update_row]; constructor; auto.
Qed.

Lemma update_row_rect ny nx k f data :
  (forall r, length (f r) = length r) -> rect ny nx data -> rect ny nx (update_row k f data).
Proof.
  intros Hf [Hl Hall]. split; [now rewrite update_row_length|].
  apply update_row_Forall; [|assumption]. intros r Hr. now rewrite Hf.
Qed.

(* ---------- sorting is insensitive to the order of its input ---------------------- *)
Lemma insertZ_comm a b : forall s, insertZ a (insertZ b s) = insertZ b (insertZ a s).
Proof.
  induction s as [|c s IH]; cbn [insertZ].
  - destruct (a <=? b) eqn:E1; destruct (b <=? a) eqn:E2; try reflexivity; try lia.
    assert (a = b) by lia. now subst.
  - destruct (b <=? c) eqn:E1; destruct (a <=? c) eqn:E2; cbn [insertZ]; rewrite ?E1, ?E2.
    + destruct (a <=? b) eqn:E3; destruct (b <=? a) eqn:E4; try reflexivity; try lia.
      assert (a = b) by lia. now subst.
    + destruct (a <=? b) eqn:E3; [lia|]. reflexivity.
    + destruct (b <=? a) eqn:E3; [lia|]. reflexivity.
    + now rewrite IH.
Qed.

Lemma sortZ_perm l l' : Permutation l l' -> sortZ l = sortZ l'.
Proof.
  unfold sortZ. induction 1 as [|x l l' _ IH|x y l|l l' l'' _ IH1 _ IH2]; cbn [fold_right].
  - reflexivity.
  - now rewrite IH.
  - apply insertZ_comm.
  - now rewrite IH1.
Qed.

(* ---------- the active edge table --------------------------------------------------- *)
(* the half-open rule: an edge is active on scan line v iff ymin <= v < ymax *)
Definition alive (v : Z) (e : edge) : bool :=
  nonhoriz e && (e_ymin e <=? v) && (v <? e_ymax e).

Lemma filter_split {A} (p q r : A -> bool) l :
  (forall x, r x = p x || q x) -> (forall x, p x && q x = false) ->
  Permutation (filter r l) (filter p l ++ filter q l).
Proof.
  intros Hr Hd. induction l as [|x l IH]; cbn [filter app]; [constructor|].
  rewrite Hr. specialize (Hd x).
  destruct (p x) eqn:Ep; destruct (q x) eqn:Eq; cbn [orb app] in *; try discriminate.
  - now constructor.
  - now apply Permutation_cons_app.
  - exact IH.
Qed.

Lemma filter_perm {A} (p : A -> bool) l l' : Permutation l l' -> Permutation (filter p l) (filter p l').
Proof.
  induction 1 as [|x l l' _ IH|x y l|l l' l'' _ IH1 _ IH2]; cbn [filter].
  - constructor.
  - destruct (p x); [now constructor|assumption].
  - destruct (p x); destruct (p y); try apply Permutation_refl; constructor.
  - now transitivity (filter p l').
Qed.

Lemma filter_filter2 {A} (p q : A -> bool) l :
  filter p (filter q l) = filter (fun x => q x && p x) l.
Proof.
  induction l as [|x l IH]; cbn [filter]; [reflexivity|].
  destruct (q x); cbn [filter andb]; [destruct (p x)|]; now rewrite IH.
Qed.

Lemma update_AET_alive es v aet :
  Permutation aet (filter (alive (v - 1)) es) ->
  Permutation (update_AET es v aet) (filter (alive v) es).
Proof.
  intros H. unfold update_AET.
  rewrite filter_app.
  set (drop := fun e => negb (e_ymax e =? v)).
  set (start := fun e => nonhoriz e && (e_ymin e =? v)).
  etransitivity.
  { apply Permutation_app; [apply filter_perm, H | apply Permutation_refl]. }
  rewrite !filter_filter2.
  symmetry. apply filter_split.
  - intros e. unfold alive, drop, start, nonhoriz, e_ymin, e_ymax.
    destruct (sy e =? ey e) eqn:E0; cbn [negb andb orb]; [reflexivity|].
    destruct (Z.min (sy e) (ey e) <=? v - 1) eqn:E1; destruct (v - 1 <? Z.max (sy e) (ey e)) eqn:E2;
    destruct (Z.min (sy e) (ey e) <=? v) eqn:E3; destruct (v <? Z.max (sy e) (ey e)) eqn:E4;
    destruct (Z.max (sy e) (ey e) =? v) eqn:E5; destruct (Z.min (sy e) (ey e) =? v) eqn:E6;
    cbn [negb andb orb]; try reflexivity; exfalso; lia.
  - intros e. unfold alive, drop, start, nonhoriz, e_ymin, e_ymax.
    destruct (sy e =? ey e) eqn:E0; cbn [negb andb orb]; [now rewrite ?andb_false_r|].
    destruct (Z.min (sy e) (ey e) <=? v - 1) eqn:E1; destruct (v - 1 <? Z.max (sy e) (ey e)) eqn:E2;
    destruct (Z.max (sy e) (ey e) =? v) eqn:E5; destruct (Z.min (sy e) (ey e) =? v) eqn:E6;
    cbn [negb andb orb]; try reflexivity; exfalso; lia.
Qed.

(* ---------- the scan loop, cell by cell ------------------------------------------------ *)
Lemma znth_of_nat {A} (d : A) l (n : nat) : znth d l (Z.of_nat n) = nth n l d.
Proof. unfold znth. destruct (Z.of_nat n <? 0) eqn:E; [lia|]. now rewrite Nat2Z.id. Qed.

Lemma cell_nat data (x y : nat) : cell data (Z.of_nat x) (Z.of_nat y) = nth x (nth y data []) 0.
Proof. unfold cell. now rewrite !znth_of_nat. Qed.

Lemma rect_row ny nx data (y : nat) : rect ny nx data -> (y < ny)%nat -> length (nth y data []) = nx.
Proof.
  intros [Hl Hall] Hy. rewrite Forall_forall in Hall. apply Hall, nth_In. lia.
Qed.

Section Spec.
  Variable xint : Z -> edge -> Z -> Z.
  Variables (p : poly) (rid : Z) (ny nx : nat).
  Let es := edges_of (vx p) (vy p).
  Let scline := bbox_y p + bbox_h p.
  Let bw := bbox_w p.

  Definition spans_of (aet : list edge) (y : Z) : list (Z * Z) :=
    pairs (sortZ (map (fun e => xint bw e y) aet)).

  Fixpoint row_hit (n : nat) (y : Z) (aet : list edge) (x yy : Z) : bool :=
    match n with
    | O => false
    | S n' =>
        let aet' := if y <? scline then update_AET es y aet else aet in
        ((0 <? bw) && (y + shifty p =? yy) && existsb (in_span (x - shiftx p)) (spans_of aet' y))
        || row_hit n' (y + 1) aet' x yy
    end.

  Lemma scan_rows_cell : forall n y aet data (x yy : nat),
    rect ny nx data -> (x < nx)%nat -> (yy < ny)%nat ->
    let out := scan_rows true xint n p es rid (Z.of_nat ny) (Z.of_nat nx) scline y aet data in
    rect ny nx out /\
    cell out (Z.of_nat x) (Z.of_nat yy) =
      if row_hit n y aet (Z.of_nat x) (Z.of_nat yy) then rid else cell data (Z.of_nat x) (Z.of_nat yy).
  Proof.
    induction n as [|n IH]; intros y aet data x yy Hrect Hx Hyy; cbn [scan_rows row_hit].
    - split; [assumption|reflexivity].
    - set (aet' := if y <? scline then update_AET es y aet else aet).
      fold bw. unfold spans_of.
      destruct (bw <=? 0) eqn:Ebw.
      + replace (0 <? bw) with false by lia. cbn [andb orb]. apply IH; assumption.
      + replace (0 <? bw) with true by lia. cbn [andb].
        set (spans := pairs (sortZ (map (fun e => xint bw e y) aet'))).
        destruct ((y + shifty p <? 0) || (Z.of_nat ny <=? y + shifty p)) eqn:Eout.
        * replace (y + shifty p =? Z.of_nat yy) with false by lia. cbn [andb orb]. apply IH; assumption.
        * set (k := Z.to_nat (y + shifty p)).
          set (f := fill_row true (Z.of_nat nx) (shiftx p) rid spans).
          assert (Hf : forall r, length (f r) = length r) by (intros r; apply fill_row_length).
          assert (Hrect' : rect ny nx (update_row k f data)) by (apply update_row_rect; assumption).
          destruct (IH (y + 1) aet' (update_row k f data) x yy Hrect' Hx Hyy) as [IH1 IH2].
          split; [exact IH1|]. rewrite IH2.
          destruct (row_hit n (y + 1) aet' (Z.of_nat x) (Z.of_nat yy)); [now rewrite orb_true_r|].
          rewrite orb_false_r, !cell_nat, update_row_nth.
          destruct Hrect as [Hl Hall]. rewrite Hl.
          replace (yy <? ny)%nat with true by (symmetry; apply Nat.ltb_lt; assumption).
          rewrite andb_true_r.
          destruct (yy =? k)%nat eqn:Ek.
          -- apply Nat.eqb_eq in Ek. replace (y + shifty p =? Z.of_nat yy) with true by (subst k; lia).
             subst f. rewrite fill_row_nth.
             ++ reflexivity.
             ++ rewrite (rect_row ny nx) by (try split; assumption). assumption.
             ++ rewrite (rect_row ny nx) by (try split; assumption). reflexivity.
          -- apply Nat.eqb_neq in Ek. replace (y + shifty p =? Z.of_nat yy) with false by (subst k; lia).
             reflexivity.
  Qed.
End Spec.

(* ---------- bounding box facts ------------------------------------------------------------ *)
Lemma lmin_le_d l : forall d, lmin d l <= d.
Proof. unfold lmin. induction l as [|a l IH]; intros d; cbn [fold_left]; [lia|]. specialize (IH (Z.min d a)). lia. Qed.
Lemma lmin_le_in l a : forall d, In a l -> lmin d l <= a.
Proof.
  unfold lmin. induction l as [|b l IH]; intros d H; cbn [fold_left]; [destruct H|].
  destruct H as [->|H]; [pose proof (lmin_le_d l (Z.min d a)); unfold lmin in *; lia | now apply IH].
Qed.
Lemma lmax_ge_d l : forall d, d <= lmax d l.
Proof. unfold lmax. induction l as [|a l IH]; intros d; cbn [fold_left]; [lia|]. specialize (IH (Z.max d a)). lia. Qed.

Lemma bbox_h_nonneg p : 0 <= bbox_h p.
Proof. unfold bbox_h, bbox_y. pose proof (lmin_le_d (vy p) (hd0 (vy p))). pose proof (lmax_ge_d (vy p) (hd0 (vy p))). lia. Qed.

Lemma edges_of_in xs : forall ys e, In e (edges_of xs ys) -> In (sy e) ys /\ In (ey e) ys.
Proof.
  induction xs as [|x0 xs IH]; intros ys e H; [cbn in H; contradiction|].
  destruct xs as [|x1 xs]; [cbn in H; contradiction|].
  destruct ys as [|y0 ys]; [cbn in H; contradiction|].
  destruct ys as [|y1 ys]; [cbn in H; contradiction|].
  cbn [edges_of] in H. destruct H as [<-|H]; cbn [sy ey].
  - split; [now left | right; now left].
  - destruct (IH (y1 :: ys) e H) as [H1 H2]. split; now right.
Qed.

Lemma no_edge_below p e : In e (edges_of (vx p) (vy p)) -> bbox_y p <= e_ymin e.
Proof.
  intros H. destruct (edges_of_in _ _ _ H) as [H1 H2]. unfold bbox_y, e_ymin.
  pose proof (lmin_le_in _ _ (hd0 (vy p)) H1). pose proof (lmin_le_in _ _ (hd0 (vy p)) H2). lia.
Qed.

Lemma filter_nil {A} (f : A -> bool) l : (forall x, In x l -> f x = false) -> filter f l = [].
Proof.
  induction l as [|x l IH]; intros H; cbn [filter]; [reflexivity|].
  rewrite (H x (or_introl eq_refl)). apply IH. intros y Hy. apply H. now right.
Qed.

(* ---------- declarative characterisation of the whole loop ----------------------------------- *)
Section Spec2.
  Variable xint : Z -> edge -> Z -> Z.
  Variable p : poly.
  Let es := edges_of (vx p) (vy p).
  Let scline := bbox_y p + bbox_h p.

  (* shifted-polygon coordinates (u, v) are covered by a filled span *)
  Definition covered (u v : Z) : bool :=
    (0 <? bbox_w p) && (bbox_y p <=? v) && (v <=? scline) &&
    existsb (in_span u) (spans_of xint p (filter (alive (Z.min v (scline - 1))) es) v).

  Lemma spans_of_perm a b y : Permutation a b -> spans_of xint p a y = spans_of xint p b y.
  Proof. intros H. unfold spans_of. f_equal. apply sortZ_perm. now apply Permutation_map. Qed.

  Lemma row_hit_spec : forall n y aet x yy,
    y + Z.of_nat n = scline + 1 ->
    Permutation aet (filter (alive (y - 1)) es) ->
    row_hit xint p n y aet x yy =
      (0 <? bbox_w p) && (y <=? yy - shifty p) && (yy - shifty p <=? scline) &&
      existsb (in_span (x - shiftx p))
              (spans_of xint p (filter (alive (Z.min (yy - shifty p) (scline - 1))) es) (yy - shifty p)).
  Proof.
    induction n as [|n IH]; intros y aet x yy Hn Hperm; cbn [row_hit].
    - replace (y <=? yy - shifty p) with (negb (yy - shifty p <=? scline)) by lia.
      destruct (yy - shifty p <=? scline); cbn [negb andb]; now rewrite ?andb_false_r.
    - fold es. fold scline.
      set (aet' := if y <? scline then update_AET es y aet else aet).
      assert (Hperm' : Permutation aet' (filter (alive (Z.min y (scline - 1))) es)).
      { subst aet'. destruct (y <? scline) eqn:E.
        - replace (Z.min y (scline - 1)) with y by lia. now apply update_AET_alive.
        - replace (Z.min y (scline - 1)) with (y - 1) by lia. exact Hperm. }
      destruct (y + shifty p =? yy) eqn:Ey.
      + assert (yy - shifty p = y) as -> by lia.
        rewrite (spans_of_perm _ _ y Hperm').
        replace (y <=? y) with true by lia. replace (y <=? scline) with true by lia.
        rewrite !andb_true_r.
        destruct n as [|n].
        * cbn [row_hit]. now rewrite orb_false_r.
        * rewrite IH.
          -- replace (y + 1 <=? yy - shifty p) with false by lia.
             rewrite !andb_false_r. cbn [andb]. now rewrite orb_false_r.
          -- lia.
          -- replace (y + 1 - 1) with (Z.min y (scline - 1)) by lia. exact Hperm'.
      + rewrite andb_false_r. cbn [andb orb].
        destruct n as [|n].
        * cbn [row_hit].
          replace (y <=? yy - shifty p) with (negb (yy - shifty p <=? scline)) by lia.
          destruct (yy - shifty p <=? scline); cbn [negb andb]; now rewrite ?andb_false_r.
        * rewrite IH.
          -- replace (y + 1 <=? yy - shifty p) with (y <=? yy - shifty p) by lia. reflexivity.
          -- lia.
          -- replace (y + 1 - 1) with (Z.min y (scline - 1)) by lia. exact Hperm'.
  Qed.

  Theorem scan_pixel (rid : Z) (ny nx : nat) data (x yy : nat) :
    rect ny nx data -> (x < nx)%nat -> (yy < ny)%nat ->
    rect ny nx (scan true xint p rid data) /\
    cell (scan true xint p rid data) (Z.of_nat x) (Z.of_nat yy) =
      if covered (Z.of_nat x - shiftx p) (Z.of_nat yy - shifty p) then rid
      else cell data (Z.of_nat x) (Z.of_nat yy).
  Proof.
    intros Hrect Hx Hyy. unfold scan.
    assert (Hny : zlen data = Z.of_nat ny) by (destruct Hrect as [Hl0 _]; unfold zlen; now rewrite Hl0).
    assert (Hnx : zlen (hd [] data) = Z.of_nat nx).
    { destruct Hrect as [Hl Hall]. destruct data as [|r rest]; [cbn in Hl; lia|].
      inversion Hall as [|? ? Hr0 ?]; subst. cbn [hd]. unfold zlen. reflexivity. }
    rewrite Hny, Hnx.
    pose proof (bbox_h_nonneg p) as Hh.
    destruct (scan_rows_cell xint p rid ny nx (Z.to_nat (bbox_h p + 1)) (bbox_y p) [] data x yy Hrect Hx Hyy)
      as [H1 H2].
    split; [exact H1|]. rewrite H2. rewrite row_hit_spec.
    - unfold covered. fold es scline. reflexivity.
    - fold scline. lia.
    - rewrite filter_nil; [constructor|].
      intros e He. unfold alive. pose proof (no_edge_below p e He).
      replace (e_ymin e <=? bbox_y p - 1) with false by lia. now rewrite andb_false_r.
  Qed.
End Spec2.

(* ---------- corollaries of the pixel characterisation ---------------------------------------- *)
Section Corollaries.
  Variable xint : Z -> edge -> Z -> Z.

  (* rows the polygon does not reach are untouched; zero-width polygons mark nothing *)
  Lemma covered_rows p u v : v < bbox_y p \/ bbox_y p + bbox_h p < v -> covered xint p u v = false.
  Proof.
    intros H. unfold covered.
    destruct (bbox_y p <=? v) eqn:E1; destruct (v <=? bbox_y p + bbox_h p) eqn:E2;
      rewrite ?andb_false_r; cbn [andb]; try reflexivity; lia.
  Qed.

  Lemma covered_zero_width p u v : bbox_w p <= 0 -> covered xint p u v = false.
  Proof. intros H. unfold covered. replace (0 <? bbox_w p) with false by lia. reflexivity. Qed.

  (* crop: the answer at a cell does not depend on the canvas it is computed on *)
  Theorem crop_commutes p rid ny nx NY NX small big (x y : nat) :
    rect ny nx small -> rect NY NX big -> (x < nx)%nat -> (y < ny)%nat -> (x < NX)%nat -> (y < NY)%nat ->
    cell small (Z.of_nat x) (Z.of_nat y) = cell big (Z.of_nat x) (Z.of_nat y) ->
    cell (scan true xint p rid small) (Z.of_nat x) (Z.of_nat y) =
    cell (scan true xint p rid big) (Z.of_nat x) (Z.of_nat y).
  Proof.
    intros Hs Hb Hx Hy HX HY Heq.
    destruct (scan_pixel xint p rid ny nx small x y Hs Hx Hy) as [_ ->].
    destruct (scan_pixel xint p rid NY NX big x y Hb HX HY) as [_ ->].
    now rewrite Heq.
  Qed.

  (* a marked pixel lies between the (ceiled) crossings of two edges active on its row *)
  Lemma in_pairs a b : forall l, In (a, b) (pairs l) -> In a l /\ In b l.
  Proof.
    fix IH 1. intros [|c [|d r]] H; cbn [pairs] in H; try contradiction.
    destruct H as [H|H]; [inversion H; subst; split; [now left|right; now left]|].
    destruct (IH r H). split; right; now right.
  Qed.

  Lemma insertZ_in a c : forall l, In c (insertZ a l) -> c = a \/ In c l.
  Proof.
    induction l as [|b l IH]; cbn [insertZ]; intros H.
    - destruct H as [<-|[]]; now left.
    - destruct (a <=? b); destruct H as [<-|H]; auto.
      + right; now left.
      + destruct (IH H); auto. right; now right.
  Qed.

  Lemma sortZ_in c : forall l, In c (sortZ l) -> In c l.
  Proof.
    induction l as [|a l IH]; cbn; intros H; [assumption|].
    destruct (insertZ_in _ _ _ H) as [->|H']; [now left | right; now apply IH].
  Qed.

  Theorem marked_between_crossings p u v :
    covered xint p u v = true ->
    let es := edges_of (vx p) (vy p) in
    let act := filter (alive (Z.min v (bbox_y p + bbox_h p - 1))) es in
    bbox_y p <= v <= bbox_y p + bbox_h p /\
    exists e1 e2, In e1 act /\ In e2 act /\
                  xint (bbox_w p) e1 v <= u <= xint (bbox_w p) e2 v.
  Proof.
    unfold covered. intros H.
    apply andb_prop in H as [H H4]. apply andb_prop in H as [H H3]. apply andb_prop in H as [_ H2].
    split; [lia|].
    apply existsb_exists in H4 as [[a b] [Hin Hspan]]. unfold spans_of in Hin.
    apply in_pairs in Hin as [Ha Hb]. apply sortZ_in in Ha. apply sortZ_in in Hb.
    apply in_map_iff in Ha as [e1 [<- He1]]. apply in_map_iff in Hb as [e2 [<- He2]].
    exists e1, e2. unfold in_span in Hspan. cbn [fst snd] in Hspan. repeat split; try assumption; lia.
  Qed.

  (* several labelled polygons: the label of the last polygon covering the cell, else the old value *)
  Variable mkpoly : list Z -> list Z -> poly.

  Definition last_cover (polys : list (Z * (list Z * list Z))) (x y : Z) (d : Z) : Z :=
    fold_left (fun acc lp => let p := mkpoly (fst (snd lp)) (snd (snd lp)) in
                             if covered xint p (x - shiftx p) (y - shifty p) then fst lp else acc) polys d.

  Theorem last_label_wins ny nx (x y : nat) : forall polys data,
    rect ny nx data -> (x < nx)%nat -> (y < ny)%nat ->
    rect ny nx (fold_left (draw true xint mkpoly) polys data) /\
    cell (fold_left (draw true xint mkpoly) polys data) (Z.of_nat x) (Z.of_nat y) =
      last_cover polys (Z.of_nat x) (Z.of_nat y) (cell data (Z.of_nat x) (Z.of_nat y)).
  Proof.
    induction polys as [|lp polys IH]; intros data Hr Hx Hy; cbn [fold_left]; [split; auto|].
    unfold last_cover. cbn [fold_left]. unfold draw at 2 4.
    destruct (scan_pixel xint (mkpoly (fst (snd lp)) (snd (snd lp))) (fst lp) ny nx data x y Hr Hx Hy) as [Hr' Hc].
    destruct (IH _ Hr' Hx Hy) as [IH1 IH2]. split; [exact IH1|].
    rewrite IH2. unfold last_cover. now rewrite Hc.
  Qed.

  Lemma blank_rect ny nx : rect ny nx (blank (Z.of_nat ny) (Z.of_nat nx)).
  Proof.
    unfold blank. rewrite !Nat2Z.id. split; [apply repeat_length|].
    apply Forall_forall. intros r Hr. apply repeat_spec in Hr. subst. apply repeat_length.
  Qed.

  Lemma blank_cell ny nx (x y : nat) : (x < nx)%nat -> (y < ny)%nat ->
    cell (blank (Z.of_nat ny) (Z.of_nat nx)) (Z.of_nat x) (Z.of_nat y) = 0.
  Proof.
    intros Hx Hy. rewrite cell_nat. unfold blank. rewrite !Nat2Z.id.
    rewrite (nth_indep _ [] (repeat 0 nx)) by (rewrite repeat_length; lia).
    rewrite nth_repeat. apply nth_repeat.
  Qed.

  Theorem from_vertices_spec ny nx polys (x y : nat) : (x < nx)%nat -> (y < ny)%nat ->
    cell (from_vertices true xint mkpoly (Z.of_nat ny) (Z.of_nat nx) polys) (Z.of_nat x) (Z.of_nat y) =
    last_cover polys (Z.of_nat x) (Z.of_nat y) 0.
  Proof.
    intros Hx Hy. unfold from_vertices.
    destruct (last_label_wins ny nx x y polys _ (blank_rect ny nx) Hx Hy) as [_ ->].
    now rewrite blank_cell.
  Qed.
End Corollaries.

(* ---------- inside pixels are marked ------------------------------------------------------------ *)
From Coq Require Import Sorted.

Lemma insertZ_perm a : forall l, Permutation (insertZ a l) (a :: l).
Proof.
  induction l as [|b l IH]; cbn [insertZ]; [apply Permutation_refl|].
  destruct (a <=? b); [apply Permutation_refl|].
  etransitivity; [apply perm_skip, IH | apply perm_swap].
Qed.

Lemma sortZ_perm_self : forall l, Permutation (sortZ l) l.
Proof.
  induction l as [|a l IH]; cbn; [constructor|].
  etransitivity; [apply insertZ_perm | now apply perm_skip].
Qed.

Lemma insertZ_sorted a : forall l, StronglySorted Z.le l -> StronglySorted Z.le (insertZ a l).
Proof.
  induction l as [|b l IH]; intros H; cbn [insertZ].
  - repeat constructor.
  - inversion H as [|? ? Hs Hall]; subst.
    destruct (a <=? b) eqn:E.
    + constructor; [assumption|]. constructor; [lia|].
      eapply Forall_impl; [|exact Hall]. intros c Hc; cbn in *. lia.
    + constructor; [now apply IH|].
      apply Forall_forall. intros c Hc.
      apply (Permutation_in _ (insertZ_perm a l)) in Hc. destruct Hc as [<-|Hc]; [lia|].
      rewrite Forall_forall in Hall. now apply Hall.
Qed.

Lemma sortZ_sorted : forall l, StronglySorted Z.le (sortZ l).
Proof. induction l as [|a l IH]; cbn; [constructor | now apply insertZ_sorted]. Qed.

Definition cnt (u : Z) (l : list Z) : nat := length (filter (fun c => c <=? u) l).

Lemma cnt_perm u l l' : Permutation l l' -> cnt u l = cnt u l'.
Proof. intros H. unfold cnt. apply Permutation_length. now apply filter_perm. Qed.

Lemma sorted_all_gt u : forall s, StronglySorted Z.le s ->
  match s with [] => True | a :: _ => u < a end -> cnt u s = 0%nat.
Proof.
  intros s Hs. unfold cnt. destruct s as [|a r]; intros H; [reflexivity|].
  inversion Hs as [|? ? _ Hall]; subst. rewrite Forall_forall in Hall.
  apply length_zero_iff_nil, filter_nil. intros c [<-|Hc]; [lia|]. specialize (Hall c Hc). lia.
Qed.

Lemma pairs_hit u : forall s, StronglySorted Z.le s ->
  Nat.even (length s) = true -> Nat.odd (cnt u s) = true ->
  existsb (in_span u) (pairs s) = true.
Proof.
  fix IH 1. intros [|a [|b r]] Hs He Ho.
  - cbn in Ho. discriminate.
  - cbn in He. discriminate.
  - cbn [pairs existsb]. unfold in_span at 1. cbn [fst snd].
    inversion Hs as [|? ? Hs1 Hall1]; subst. inversion Hs1 as [|? ? Hs2 Hall2]; subst.
    destruct (a <=? u) eqn:Ea.
    + destruct (u <=? b) eqn:Eb; [reflexivity|]. cbn [andb orb].
      apply IH; [assumption| |].
      * cbn [length] in He. now rewrite Nat.even_succ_succ in He.
      * unfold cnt in *. cbn [filter] in Ho. rewrite Ea in Ho.
        replace (b <=? u) with true in Ho by lia. cbn [length] in Ho.
        now rewrite Nat.odd_succ_succ in Ho.
    + exfalso. rewrite (sorted_all_gt u (a :: b :: r) Hs) in Ho by lia. discriminate.
Qed.

Lemma filter_map_length {A} (f : Z -> bool) (g : A -> Z) l :
  length (filter f (map g l)) = length (filter (fun x => f (g x)) l).
Proof.
  induction l as [|x l IH]; cbn [map filter]; [reflexivity|].
  destruct (f (g x)); cbn [length]; now rewrite IH.
Qed.

Lemma filter_ext_in_len {A} (f g : A -> bool) l :
  (forall x, In x l -> f x = g x) -> length (filter f l) = length (filter g l).
Proof.
  induction l as [|x l IH]; intros H; cbn [filter]; [reflexivity|].
  rewrite (H x (or_introl eq_refl)).
  destruct (g x); cbn [length]; rewrite IH; auto; intros y Hy; apply H; now right.
Qed.

(* a closed vertex cycle crosses every half-open scan line an even number of times *)
Lemma alive_xor v e : alive v e = xorb (sy e <=? v) (ey e <=? v).
Proof.
  unfold alive, nonhoriz, e_ymin, e_ymax.
  destruct (sy e =? ey e) eqn:E0; destruct (sy e <=? v) eqn:E1; destruct (ey e <=? v) eqn:E2;
  destruct (Z.min (sy e) (ey e) <=? v) eqn:E3; destruct (v <? Z.max (sy e) (ey e)) eqn:E4;
  cbn; try reflexivity; exfalso; lia.
Qed.

Lemma edges_of_cons x0 x1 xs y0 y1 ys :
  edges_of (x0 :: x1 :: xs) (y0 :: y1 :: ys) =
  {| sx := x0; sy := y0; ex := x1; ey := y1 |} :: edges_of (x1 :: xs) (y1 :: ys).
Proof. reflexivity. Qed.

Lemma last_cons2 (y1 : Z) ys y0 : last (y1 :: ys) y0 = last ys y1.
Proof. revert y1. induction ys as [|a ys IH]; intros y1; [reflexivity|]. cbn [last] in *. destruct ys; [reflexivity|apply IH]. Qed.

Lemma crossings_parity v : forall ys xs y0, length xs = S (length ys) ->
  Nat.even (length (filter (alive v) (edges_of xs (y0 :: ys)))) =
  negb (xorb (y0 <=? v) (last ys y0 <=? v)).
Proof.
  induction ys as [|y1 ys IH]; intros xs y0 Hl.
  - destruct xs as [|x0 [|x1 xs]]; cbn in Hl; try lia. cbn. now rewrite xorb_nilpotent.
  - destruct xs as [|x0 [|x1 xs]]; cbn in Hl; try lia.
    rewrite edges_of_cons. cbn [filter]. rewrite alive_xor. cbn [sy ey].
    specialize (IH (x1 :: xs) y1 ltac:(cbn; lia)).
    rewrite last_cons2.
    destruct (xorb (y0 <=? v) (y1 <=? v)) eqn:Ex.
    + cbn [length]. rewrite Nat.even_succ, <- Nat.negb_even, IH.
      destruct (y0 <=? v); destruct (y1 <=? v); destruct (last ys y1 <=? v); cbn in *; try reflexivity; discriminate.
    + rewrite IH.
      destruct (y0 <=? v); destruct (y1 <=? v); destruct (last ys y1 <=? v); cbn in *; try reflexivity; discriminate.
Qed.

Section Inside.
  Variable xint : Z -> edge -> Z -> Z.
  Variable p : poly.
  Let es := edges_of (vx p) (vy p).

  (* the vertex list is a closed cycle, as Polygon requires ("last vertex must coincide with the first") *)
  Definition closed : Prop :=
    length (vx p) = length (vy p) /\ exists y0 ys, vy p = y0 :: ys /\ last ys y0 = y0.

  Theorem inside_marked (left_of : edge -> bool) u v :
    closed -> 0 < bbox_w p -> bbox_y p <= v < bbox_y p + bbox_h p ->
    (* xint agrees with the exact side-of-edge test on this row (contract, see Properties.v) *)
    (forall e, In e (filter (alive v) es) -> (xint (bbox_w p) e v <=? u) = left_of e) ->
    (* even-odd rule: an odd number of active edges cross strictly to the left of the pixel centre *)
    Nat.odd (length (filter left_of (filter (alive v) es))) = true ->
    covered xint p u v = true.
  Proof.
    intros [Hlen [y0 [ys [Hvy Hlast]]]] Hbw Hv Hside Hodd.
    unfold covered.
    replace (0 <? bbox_w p) with true by lia. replace (bbox_y p <=? v) with true by lia.
    replace (v <=? bbox_y p + bbox_h p) with true by lia. cbn [andb].
    replace (Z.min v (bbox_y p + bbox_h p - 1)) with v by lia. fold es.
    unfold spans_of. apply pairs_hit.
    - apply sortZ_sorted.
    - rewrite (Permutation_length (sortZ_perm_self _)), map_length.
      subst es. rewrite Hvy. rewrite crossings_parity by (rewrite Hlen, Hvy; reflexivity).
      rewrite Hlast. now rewrite xorb_nilpotent.
    - rewrite (cnt_perm _ _ _ (sortZ_perm_self _)). unfold cnt.
      rewrite filter_map_length.
      rewrite (filter_ext_in_len _ left_of); [assumption|].
      intros e He. now apply Hside.
  Qed.
End Inside.
