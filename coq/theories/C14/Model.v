(* C14 — executable model of gwcs/region.py  (Polygon.__init__, _construct_ordered_GET,
   update_AET, scan, Edge.intersection) and of LabelMapperArray.from_vertices' drawing loop.

   Conventions (see DESIGN.md §5 C14):
   * Input vertices are rationals n/8 given by their numerators (Z); all values used by the
     harness are exactly representable doubles, so `i - shiftx` in the code is exact and
     Python's round() is round-half-even on the exact value.
   * A mask is a list of rows (list (list Z)), row index = y, column index = x; labels are Z.
   * Edge.intersection is modelled in binary64 exactly as numpy evaluates it. *)
From Coq Require Import ZArith List Bool Lia PrimFloat.
From GW Require Import Base.Fl Base.PyList.
Import ListNotations.
Local Open Scope Z_scope.

(* ---------- vertex rounding ------------------------------------------------ *)
(* legacy (before the fix commits): Python round(n/8) = nearest integer, ties to even,
   applied AFTER the float shift of the polygon to non-negative coordinates *)
Definition round_half_even8 (n : Z) : Z :=
  let q := n / 8 in let r := n mod 8 in
  if r <? 4 then q else if 4 <? r then q + 1 else if Z.even q then q else q + 1.
(* current: floor(n/8 + 1/2), the pixel-centre convention of utils._toindex *)
Definition round_half_up8 (n : Z) : Z := (n + 4) / 8.

Definition vmin0 (l : list Z) : Z := fold_left Z.min l 0.   (* self._shiftx starts at 0 *)

Record poly := { vx : list Z; vy : list Z; shiftx : Z; shifty : Z }.

(* Polygon.__init__ up to self._vertices / _shiftx / _shifty, as repaired:
   round every vertex first, then shift by whole pixels *)
Definition init_poly (xs8 ys8 : list Z) : poly :=
  let rx := map round_half_up8 xs8 in let ry := map round_half_up8 ys8 in
  let shx := vmin0 rx in let shy := vmin0 ry in
  {| vx := map (fun x => x - shx) rx; vy := map (fun y => y - shy) ry;
     shiftx := shx; shifty := shy |}.

(* the same function before the repairs (kept for the refutation witnesses) *)
Definition init_poly_legacy (xs8 ys8 : list Z) : poly :=
  let sx8 := vmin0 xs8 in let sy8 := vmin0 ys8 in
  {| vx := map (fun x => round_half_even8 (x - sx8)) xs8;
     vy := map (fun y => round_half_even8 (y - sy8)) ys8;
     shiftx := round_half_even8 sx8; shifty := round_half_even8 sy8 |}.

(* ---------- edges ------------------------------------------------------------ *)
Record edge := { sx : Z; sy : Z; ex : Z; ey : Z }.
Definition e_ymin (e : edge) := Z.min (sy e) (ey e).
Definition e_ymax (e : edge) := Z.max (sy e) (ey e).
Definition nonhoriz (e : edge) : bool := negb (sy e =? ey e).

Fixpoint edges_of (xs ys : list Z) : list edge :=
  match xs, ys with
  | x0 :: ((x1 :: _) as xr), y0 :: ((y1 :: _) as yr) =>
      {| sx := x0; sy := y0; ex := x1; ey := y1 |} :: edges_of xr yr
  | _, _ => []
  end.

Definition lmin (d : Z) (l : list Z) := fold_left Z.min l d.
Definition lmax (d : Z) (l : list Z) := fold_left Z.max l d.
Definition hd0 (l : list Z) := hd 0 l.

(* _get_bounding_box: (x, y, w, h) *)
Definition bbox_x (p : poly) := lmin (hd0 (vx p)) (vx p).
Definition bbox_y (p : poly) := lmin (hd0 (vy p)) (vy p).
Definition bbox_w (p : poly) := lmax (hd0 (vx p)) (vx p) - bbox_x p.
Definition bbox_h (p : poly) := lmax (hd0 (vy p)) (vy p) - bbox_y p.

(* ---------- Edge.intersection with the horizontal scan line ---------------------
   u = stop - start; v = (bw, 0); w = start - (bx, y); D = u0*v1 - u1*v0 = -(uy*bw)
   |D| <= 100 eps  -> start.x ;  else fl(fl(fl(c/D)*ux) + sx), c = v0*w1 - v1*w0 = bw*(sy-y). *)
Definition xint_fl (bw : Z) (e : edge) (y : Z) : Z :=
  let ux := ex e - sx e in let uy := ey e - sy e in
  let D := ux * 0 - uy * bw in
  if D =? 0 then sx e
  else let c := bw * (sy e - y) - 0 * (sx e - 0) in
       ceilZ (PrimFloat.add (PrimFloat.mul (PrimFloat.div (of_Z c) (of_Z D)) (of_Z ux)) (of_Z (sx e))).

(* ---------- sorting and pairing ------------------------------------------------- *)
Fixpoint insertZ (a : Z) (l : list Z) : list Z :=
  match l with [] => [a] | b :: r => if a <=? b then a :: l else b :: insertZ a r end.
Definition sortZ (l : list Z) : list Z := fold_right insertZ [] l.

(* zip(xnew[::2], xnew[1::2]) *)
Fixpoint pairs (l : list Z) : list (Z * Z) :=
  match l with a :: b :: r => (a, b) :: pairs r | _ => [] end.

(* ---------- active edge table ----------------------------------------------------- *)
(* update_AET: append the non-horizontal edges whose ymin is y, then drop those whose ymax is y *)
Definition update_AET (es : list edge) (y : Z) (aet : list edge) : list edge :=
  filter (fun e => negb (e_ymax e =? y))
         (aet ++ filter (fun e => nonhoriz e && (e_ymin e =? y)) es).

(* ---------- row fill ------------------------------------------------------------------ *)
Section Scan.
  (* guard = true models the repaired code (skip spans that are empty after clipping);
     guard = false models `data[ysh][xstart:xend + 1] = rid` with no test, i.e. Python
     slice semantics incl. wrap-around of a negative stop. *)
  Variable guard : bool.
  Variable xint : Z -> edge -> Z -> Z.     (* bw, edge, y |-> ceil of the crossing abscissa *)
  Variable mkpoly : list Z -> list Z -> poly.   (* Polygon.__init__ *)

  Definition fill_span (nx shx rid : Z) (row : list Z) (ij : Z * Z) : list Z :=
    let xstart := Z.max 0 (fst ij + shx) in
    let xend := Z.min (snd ij + shx) (nx - 1) in
    if guard && (xend <? xstart) then row else slice_assign row xstart (xend + 1) rid.

  Definition fill_row (nx shx rid : Z) (spans : list (Z * Z)) (row : list Z) : list Z :=
    fold_left (fill_span nx shx rid) spans row.

  Fixpoint update_row (k : nat) (f : list Z -> list Z) (data : list (list Z)) : list (list Z) :=
    match data, k with
    | [], _ => []
    | r :: rest, O => f r :: rest
    | r :: rest, S k' => r :: update_row k' f rest
    end.

  (* the while loop of Polygon.scan; n = number of remaining scan lines *)
  Fixpoint scan_rows (n : nat) (p : poly) (es : list edge) (rid ny nx : Z) (scline : Z)
           (y : Z) (aet : list edge) (data : list (list Z)) : list (list Z) :=
    match n with
    | O => data
    | S n' =>
        let aet' := if y <? scline then update_AET es y aet else aet in
        let data' :=
          if bbox_w p <=? 0 then data
          else
            let xs := sortZ (map (fun e => xint (bbox_w p) e y) aet') in
            let ysh := y + shifty p in
            if (ysh <? 0) || (ny <=? ysh) then data
            else update_row (Z.to_nat ysh) (fill_row nx (shiftx p) rid (pairs xs)) data in
        scan_rows n' p es rid ny nx scline (y + 1) aet' data'
    end.

  Definition scan (p : poly) (rid : Z) (data : list (list Z)) : list (list Z) :=
    let ny := zlen data in
    let nx := zlen (hd [] data) in
    let es := edges_of (vx p) (vy p) in
    let y0 := bbox_y p in
    let scline := bbox_y p + bbox_h p in
    scan_rows (Z.to_nat (bbox_h p + 1)) p es rid ny nx scline y0 [] data.

  (* LabelMapperArray.from_vertices: polygons drawn in dict order into one zero mask *)
  Definition blank (ny nx : Z) : list (list Z) := repeat (repeat 0 (Z.to_nat nx)) (Z.to_nat ny).

  Definition draw (data : list (list Z)) (lp : Z * (list Z * list Z)) : list (list Z) :=
    scan (mkpoly (fst (snd lp)) (snd (snd lp))) (fst lp) data.

  Definition from_vertices (ny nx : Z) (polys : list (Z * (list Z * list Z))) : list (list Z) :=
    fold_left draw polys (blank ny nx).
End Scan.

(* The instances that are run against the implementation *)
Definition from_vertices_legacy := from_vertices false xint_fl init_poly_legacy.
Definition from_vertices_now := from_vertices true xint_fl init_poly.

(* correspondence-case checker: (ny, nx, polys, expected mask) *)
Definition eqb_rows (a b : list (list Z)) : bool :=
  (length a =? length b)%nat &&
  forallb (fun ab => (length (fst ab) =? length (snd ab))%nat &&
                     forallb (fun xy => fst xy =? snd xy) (combine (fst ab) (snd ab)))
          (combine a b).

Definition check_case (legacy : bool) (c : Z * Z * list (Z * (list Z * list Z)) * list (list Z)) : bool :=
  match c with (ny, nx, polys, expected) => eqb_rows ((if legacy then from_vertices_legacy else from_vertices_now) ny nx polys) expected end.
