(* C14 — property theorems.  Nothing but statements closed by `exact <lemma>` and
   Print Assumptions.  `xint` is ANY intersection routine (bw, edge, y |-> integer column);
   theorems needing more say so through an explicit contract hypothesis, which
   Geometry.contract_side discharges for the exact routine and, on the swept range,
   for the binary64 routine of the code. *)
From Coq Require Import ZArith List Bool Permutation.
From GW Require Import Base.PyList C14.Model C14.Proofs C14.Geometry.
Import ListNotations.
Local Open Scope Z_scope.

(* P1: full characterisation of Polygon.scan, cell by cell, on every canvas (confined to it) *)
Theorem C14_scan_pixel : forall xint p rid (ny nx : nat) data (x y : nat),
  rect ny nx data -> (x < nx)%nat -> (y < ny)%nat ->
  rect ny nx (scan true xint p rid data) /\
  cell (scan true xint p rid data) (Z.of_nat x) (Z.of_nat y) =
    if covered xint p (Z.of_nat x - shiftx p) (Z.of_nat y - shifty p) then rid
    else cell data (Z.of_nat x) (Z.of_nat y).
Proof. exact scan_pixel. Qed.

(* P2: the fill equals the crop of the fill computed on any other (larger) canvas *)
Theorem C14_crop_commutes : forall xint p rid ny nx NY NX small big (x y : nat),
  rect ny nx small -> rect NY NX big -> (x < nx)%nat -> (y < ny)%nat -> (x < NX)%nat -> (y < NY)%nat ->
  cell small (Z.of_nat x) (Z.of_nat y) = cell big (Z.of_nat x) (Z.of_nat y) ->
  cell (scan true xint p rid small) (Z.of_nat x) (Z.of_nat y) =
  cell (scan true xint p rid big) (Z.of_nat x) (Z.of_nat y).
Proof. exact crop_commutes. Qed.

(* P3: rows the polygon does not reach, and zero-width polygons, mark nothing *)
Theorem C14_rows_not_reached : forall xint p u v,
  v < bbox_y p \/ bbox_y p + bbox_h p < v -> covered xint p u v = false.
Proof. exact covered_rows. Qed.
Theorem C14_zero_width : forall xint p u v, bbox_w p <= 0 -> covered xint p u v = false.
Proof. exact covered_zero_width. Qed.

(* P4: a marked pixel lies between the ceiled crossings of two edges active on its row,
   hence (contract: ceil r <= xint <= ceil r + 1) no farther than one pixel right of the polygon *)
Theorem C14_marked_between_crossings : forall xint p u v,
  covered xint p u v = true ->
  bbox_y p <= v <= bbox_y p + bbox_h p /\
  exists e1 e2,
    In e1 (filter (alive (Z.min v (bbox_y p + bbox_h p - 1))) (edges_of (vx p) (vy p))) /\
    In e2 (filter (alive (Z.min v (bbox_y p + bbox_h p - 1))) (edges_of (vx p) (vy p))) /\
    xint (bbox_w p) e1 v <= u <= xint (bbox_w p) e2 v.
Proof. exact marked_between_crossings. Qed.

(* P5: even-odd rule — a pixel centre with an odd number of crossings strictly to its left,
   not on the boundary, is marked (closed vertex cycle, any xint meeting the side contract) *)
Theorem C14_inside_marked : forall xint p (left_of : edge -> bool) u v,
  closed p -> 0 < bbox_w p -> bbox_y p <= v < bbox_y p + bbox_h p ->
  (forall e, In e (filter (alive v) (edges_of (vx p) (vy p))) -> (xint (bbox_w p) e v <=? u) = left_of e) ->
  Nat.odd (length (filter left_of (filter (alive v) (edges_of (vx p) (vy p))))) = true ->
  covered xint p u v = true.
Proof. exact inside_marked. Qed.

(* the side contract holds for every routine within the ceil / ceil+1-at-integers contract *)
Theorem C14_contract_side : forall xint bw e v u,
  ey e <> sy e -> contract_b xint bw e v = true -> on_edge e v u = false ->
  (xint bw e v <=? u) = left_of_exact e v u.
Proof. exact contract_side. Qed.

(* P6: the active-edge table implements the half-open rule ymin <= y < ymax *)
Theorem C14_aet_half_open : forall es v aet,
  Permutation aet (filter (alive (v - 1)) es) ->
  Permutation (update_AET es v aet) (filter (alive v) es).
Proof. exact update_AET_alive. Qed.

(* P7: a closed cycle crosses every scan line an even number of times *)
Theorem C14_crossings_even : forall v ys xs y0, length xs = S (length ys) ->
  Nat.even (length (filter (alive v) (edges_of xs (y0 :: ys)))) =
  negb (xorb (y0 <=? v) (last ys y0 <=? v)).
Proof. exact crossings_parity. Qed.

(* P8: several labelled polygons: each cell carries the label of the last polygon covering it, else 0 *)
Theorem C14_last_label_wins : forall xint mkpoly ny nx polys (x y : nat), (x < nx)%nat -> (y < ny)%nat ->
  cell (from_vertices true xint mkpoly (Z.of_nat ny) (Z.of_nat nx) polys) (Z.of_nat x) (Z.of_nat y) =
  last_cover xint mkpoly polys (Z.of_nat x) (Z.of_nat y) 0.
Proof. exact from_vertices_spec. Qed.

(* P9: vertices go to the nearest pixel centre (ties up), wherever the polygon lies *)
Theorem C14_round_nearest : forall n, 8 * round_half_up8 n - 4 <= n < 8 * round_half_up8 n + 4.
Proof. exact round_half_up8_nearest. Qed.
Theorem C14_round_translate : forall n t, round_half_up8 (n + 8 * t) = round_half_up8 n + t.
Proof. exact round_half_up8_translate. Qed.

(* P10 (finite sweep, bound in the statement): the code's binary64 intersection meets the contract
   for all edges with |ux|,|uy| <= 12, start column 0..20, every scan line between the end points *)
Theorem C14_float_contract_sweep_12_20 : sweep_ok 12 20 = true.
Proof. vm_compute. reflexivity. Qed.

(* non-vacuity: a concrete polygon meets the premises of P5 and the model marks its interior *)
Example C14_nonvacuous :
  let p := init_poly [0; 48; 48; 0; 0] [0; 0; 40; 40; 0] in
  closed p /\ 0 < bbox_w p /\ covered xint_fl p 3 2 = true /\ covered xint_fl p 7 2 = false.
Proof. vm_compute. repeat split; try reflexivity. exists 0, [0; 5; 5; 0]. split; reflexivity. Qed.

Print Assumptions C14_scan_pixel.
Print Assumptions C14_inside_marked.
Print Assumptions C14_contract_side.
Print Assumptions C14_float_contract_sweep_12_20.
