(* C14 — exact crossing arithmetic, the contract between the binary64 intersection
   of the code and the exact one, rounding facts. *)
From Coq Require Import ZArith List Bool Lia ZifyBool.
From GW Require Import Base.Fl Base.PyList C14.Model C14.Proofs.
Import ListNotations.
Local Open Scope Z_scope.

(* crossing abscissa of edge e with the line y = v is  r = sx + ux*(v-sy)/uy  (uy <> 0) *)
Definition left_of_exact (e : edge) (v u : Z) : bool :=      (* r < u *)
  let ux := ex e - sx e in let uy := ey e - sy e in
  if 0 <? uy then ux * (v - sy e) <? (u - sx e) * uy else (u - sx e) * uy <? ux * (v - sy e).

Definition on_edge (e : edge) (v u : Z) : bool :=            (* r = u *)
  (ex e - sx e) * (v - sy e) =? (u - sx e) * (ey e - sy e).

Definition integral_crossing (e : edge) (v : Z) : bool :=
  ((ex e - sx e) * (v - sy e)) mod (ey e - sy e) =? 0.

(* ceil r, in integer arithmetic *)
Definition xint_exact (bw : Z) (e : edge) (v : Z) : Z :=
  let a := (ex e - sx e) * (v - sy e) in let uy := ey e - sy e in
  if 0 <? uy then sx e - ((- a) / uy) else sx e - (a / (- uy)).

Lemma ceil_div_le a b w : 0 < b -> a <> w * b -> (- ((- a) / b) <=? w) = (a <? w * b).
Proof.
  intros Hb Hne.
  pose proof (Z.div_mod (- a) b ltac:(lia)) as Hdm.
  pose proof (Z.mod_pos_bound (- a) b Hb) as Hr.
  set (q := (- a) / b) in *. set (r := (- a) mod b) in *.
  destruct (a <? w * b) eqn:E.
  - apply Z.leb_le. apply Z.ltb_lt in E. nia.
  - apply Z.leb_gt. apply Z.ltb_ge in E. nia.
Qed.

Lemma xint_exact_side bw e v u :
  ey e <> sy e -> on_edge e v u = false ->
  (xint_exact bw e v <=? u) = left_of_exact e v u.
Proof.
  intros Hne Hon. unfold xint_exact, left_of_exact, on_edge in *.
  set (a := (ex e - sx e) * (v - sy e)) in *. set (uy := ey e - sy e) in *.
  apply Z.eqb_neq in Hon.
  destruct (0 <? uy) eqn:E.
  - replace (sx e - - a / uy <=? u) with (- (- a / uy) <=? u - sx e) by lia.
    apply ceil_div_le; lia.
  - replace (sx e - a / - uy <=? u) with (- (- (- a) / - uy) <=? u - sx e) by (rewrite Z.opp_involutive; lia).
    rewrite ceil_div_le by (subst uy; lia). lia.
Qed.

(* The contract the binary64 intersection must meet for the theorems to transfer:
   it returns ceil r, or ceil r + 1 when r is an integer (observed: fl(fl(7/10)*(-180)) = -125.99999999999999). *)
Definition contract_b (xint : Z -> edge -> Z -> Z) (bw : Z) (e : edge) (v : Z) : bool :=
  let r := xint_exact bw e v in
  (xint bw e v =? r) || (integral_crossing e v && (xint bw e v =? r + 1)).

Lemma integral_on_edge e v : ey e <> sy e -> integral_crossing e v = true ->
  on_edge e v (xint_exact 1 e v) = true.
Proof.
  intros Hne Hi. unfold integral_crossing, on_edge, xint_exact in *.
  set (a := (ex e - sx e) * (v - sy e)) in *. set (uy := ey e - sy e) in *.
  apply Z.eqb_eq in Hi. apply Z.eqb_eq.
  assert (Huy : uy <> 0) by (subst uy; lia).
  destruct (0 <? uy) eqn:E.
  - pose proof (Z.div_mod (- a) uy Huy). 
    assert ((- a) mod uy = 0) by (apply Z.mod_opp_l_z; assumption). nia.
  - pose proof (Z.div_mod a (- uy) ltac:(lia)).
    assert (a mod (- uy) = 0) by (rewrite Z.mod_opp_r_z; lia). nia.
Qed.

Lemma contract_side xint bw e v u :
  ey e <> sy e -> contract_b xint bw e v = true -> on_edge e v u = false ->
  (xint bw e v <=? u) = left_of_exact e v u.
Proof.
  intros Hne Hc Hon. rewrite <- (xint_exact_side bw e v u Hne Hon).
  unfold contract_b in Hc. apply orb_prop in Hc as [Hc|Hc].
  - apply Z.eqb_eq in Hc. now rewrite Hc.
  - apply andb_prop in Hc as [Hi Hc]. apply Z.eqb_eq in Hc. rewrite Hc.
    pose proof (integral_on_edge e v Hne Hi) as Hon'.
    assert (xint_exact bw e v = xint_exact 1 e v) as Hbw by reflexivity.
    assert (u <> xint_exact bw e v) by (intros ->; rewrite Hbw in Hon; congruence).
    lia.
Qed.

(* ---------- finite sweep: the binary64 intersection meets the contract ----------------- *)
Fixpoint zrange (lo : Z) (n : nat) : list Z :=
  match n with O => [] | S n' => lo :: zrange (lo + 1) n' end.

Lemma zrange_in lo n z : lo <= z < lo + Z.of_nat n -> In z (zrange lo n).
Proof.
  revert lo. induction n as [|n IH]; intros lo H; cbn [zrange]; [lia|].
  destruct (Z.eq_dec z lo) as [->|Hne]; [now left | right; apply IH; lia].
Qed.

(* edges with |ux|,|uy| <= N, start x in [0,M], every scan line between the end points *)
Definition sweep_ok (N : nat) (M : nat) : bool :=
  let NZ := Z.of_nat N in
  forallb (fun uy => (uy =? 0) ||
    forallb (fun ux =>
      forallb (fun s =>
        forallb (fun k =>
          let e := {| sx := s; sy := 0; ex := s + ux; ey := uy |} in
          let v := if 0 <? uy then k else - k in
          contract_b xint_fl 1 e v)
        (zrange 0 (S (Z.abs_nat uy))))
      (zrange 0 (S M)))
    (zrange (- NZ) (2 * N + 1)))
  (zrange (- NZ) (2 * N + 1)).

(* ---------- rounding of vertices ------------------------------------------------------- *)
Lemma round_half_up8_nearest n : 8 * round_half_up8 n - 4 <= n < 8 * round_half_up8 n + 4.
Proof. unfold round_half_up8. pose proof (Z.div_mod (n + 4) 8 ltac:(lia)). pose proof (Z.mod_pos_bound (n + 4) 8 ltac:(lia)). lia. Qed.

Lemma round_half_up8_translate n t : round_half_up8 (n + 8 * t) = round_half_up8 n + t.
Proof.
  unfold round_half_up8. replace (n + 8 * t + 4) with (n + 4 + t * 8) by lia.
  now rewrite Z.div_add by lia.
Qed.
