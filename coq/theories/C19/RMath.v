(* Real-number meaning of the numpy functions used by the models' evaluate bodies. *)
From Coq Require Import Reals Lra.
Local Open Scope R_scope.

Definition deg2rad (x : R) : R := x * PI / 180.
Definition rad2deg (x : R) : R := x * 180 / PI.
Definition hypot (x y : R) : R := sqrt (x * x + y * y).

(* numpy.arctan2(y, x) *)
Definition atan2 (y x : R) : R :=
  if Rlt_dec 0 x then atan (y / x)
  else if Rlt_dec x 0 then (if Rle_dec 0 y then atan (y / x) + PI else atan (y / x) - PI)
  else if Rlt_dec 0 y then PI / 2 else if Rlt_dec y 0 then - PI / 2 else 0.

(* numpy.mod(x, m) for m > 0: x - m * floor(x / m) *)
Definition fmod (x m : R) : R := x - m * IZR (Int_part (x / m)).

(* booleans as reals (1 / 0), masked update *)
Definition r_eq (a b : R) : R := if Req_EM_T a b then 1 else 0.
Definition r_isfinite (a : R) : R := 1.
Definition r_where (c a b : R) : R := if Req_EM_T c 0 then b else a.

Lemma fmod_range x m : 0 < m -> 0 <= fmod x m < m.
Proof.
  intros Hm. unfold fmod. destruct (base_Int_part (x / m)) as [H1 H2].
  assert (Hx : x = m * (x / m)) by (field; lra).
  set (k := IZR (Int_part (x / m))) in *. set (q := x / m) in *.
  split.
  - rewrite Hx at 1. nra.
  - rewrite Hx at 1. nra.
Qed.

Lemma atan2_range y x : - PI <= atan2 y x <= PI.
Proof.
  unfold atan2. pose proof PI_RGT_0 as Hpi. pose proof (atan_bound (y / x)) as [Ha1 Ha2].
  destruct (Rlt_dec 0 x); [lra|]. destruct (Rlt_dec x 0).
  - destruct (Rle_dec 0 y).
    + (* x < 0, y >= 0: y/x <= 0 so atan <= 0 *)
      assert (y / x <= 0). { unfold Rdiv. assert (/ x < 0) by now apply Rinv_lt_0_compat. nra. }
      assert (atan (y / x) <= 0). { destruct (Req_dec (y / x) 0) as [->|]; [rewrite atan_0; lra|]. pose proof (atan_increasing (y / x) 0 ltac:(lra)). rewrite atan_0 in *. lra. }
      lra.
    + assert (0 < y / x). { unfold Rdiv. assert (/ x < 0) by now apply Rinv_lt_0_compat. nra. }
      assert (0 < atan (y / x)). { pose proof (atan_increasing 0 (y / x) ltac:(lra)). rewrite atan_0 in *. lra. }
      lra.
  - destruct (Rlt_dec 0 y); [lra|]. destruct (Rlt_dec y 0); lra.
Qed.

(* with a non-negative abscissa the angle is a latitude: within [-pi/2, pi/2] *)
Lemma atan2_nonneg_x y x : 0 <= x -> - PI / 2 <= atan2 y x <= PI / 2.
Proof.
  intros Hx. unfold atan2. pose proof PI_RGT_0 as Hpi. pose proof (atan_bound (y / x)) as [Ha1 Ha2].
  destruct (Rlt_dec 0 x); [lra|]. destruct (Rlt_dec x 0); [lra|].
  destruct (Rlt_dec 0 y); [lra|]. destruct (Rlt_dec y 0); lra.
Qed.
