(* Primitive-float helpers: exact construction from integers, ceil/floor to Z,
   classification.  Everything here computes by vm_compute; no axioms. *)
From Coq Require Import ZArith Bool PrimFloat Uint63 FloatOps SpecFloat.
Local Open Scope Z_scope.

(* of_Z: exact for |z| < 2^53 (all uses are far below that) *)
Definition of_Z (z : Z) : float :=
  if z <? 0 then PrimFloat.opp (PrimFloat.of_uint63 (Uint63.of_Z (- z)))
  else PrimFloat.of_uint63 (Uint63.of_Z z).

(* mk m e = m * 2^e, exact when m fits 53 bits and the result is a normal double *)
Definition mk (m e : Z) : float := PrimFloat.ldshiftexp (of_Z m) (Uint63.of_Z (e + FloatOps.shift)).

Definition is_finite (f : float) : bool :=
  match Prim2SF f with S754_finite _ _ _ | S754_zero _ => true | _ => false end.

Definition is_nan (f : float) : bool :=
  match Prim2SF f with S754_nan => true | _ => false end.

(* floor / ceil of a finite float as an integer (0 for nan / inf: callers guard) *)
Definition floorZ (f : float) : Z :=
  match Prim2SF f with
  | S754_finite s m e =>
      let v := Zpos m in
      if 0 <=? e then (if s then - (v * 2 ^ e) else v * 2 ^ e)
      else let d := 2 ^ (- e) in
           if s then - ((v + d - 1) / d) else v / d
  | _ => 0
  end.

Definition ceilZ (f : float) : Z :=
  match Prim2SF f with
  | S754_finite s m e =>
      let v := Zpos m in
      if 0 <=? e then (if s then - (v * 2 ^ e) else v * 2 ^ e)
      else let d := 2 ^ (- e) in
           if s then - (v / d) else (v + d - 1) / d
  | _ => 0
  end.

Definition fle (a b : float) : bool := PrimFloat.leb a b.
Definition flt (a b : float) : bool := PrimFloat.ltb a b.
Definition feq (a b : float) : bool := PrimFloat.eqb a b.

(* bit-identity up to nan payload: used to compare model output with float.hex() *)
Definition same (a b : float) : bool :=
  match Prim2SF a, Prim2SF b with
  | S754_nan, S754_nan => true
  | S754_zero s, S754_zero t => Bool.eqb s t
  | S754_infinity s, S754_infinity t => Bool.eqb s t
  | S754_finite s m e, S754_finite t n f => Bool.eqb s t && Pos.eqb m n && (e =? f)
  | _, _ => false
  end.
