(* Object model for the APE-14 mixin (gwcs/api.py): the stored pixel shape and the input dimensionality. *)
From Coq Require Import ZArith List.
Record api := { pixel_shape_ : option (list Z); naxes_in : Z }.
Definition set_pixel_shape (a : api) (v : option (list Z)) : api := {| pixel_shape_ := v; naxes_in := naxes_in a |}.
