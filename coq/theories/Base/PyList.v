(* Python list / slice semantics on Coq lists, with Z indices. *)
From Coq Require Import ZArith List Bool Lia.
Import ListNotations.
Local Open Scope Z_scope.

Definition zlen {A} (l : list A) : Z := Z.of_nat (length l).

(* Python's normalisation of a slice bound for a sequence of length n (step 1) *)
Definition norm_bound (n i : Z) : Z :=
  let j := if i <? 0 then i + n else i in
  if j <? 0 then 0 else if n <? j then n else j.

(* l[a:b] = v  for a scalar v (numpy broadcast assignment): elements k with a' <= k < b' *)
Fixpoint assign_from {A} (k : Z) (lo hi : Z) (v : A) (l : list A) : list A :=
  match l with
  | [] => []
  | x :: r => (if (lo <=? k) && (k <? hi) then v else x) :: assign_from (k + 1) lo hi v r
  end.

Definition slice_assign {A} (l : list A) (a b : Z) (v : A) : list A :=
  let n := zlen l in assign_from 0 (norm_bound n a) (norm_bound n b) v l.

Definition znth {A} (d : A) (l : list A) (k : Z) : A :=
  if k <? 0 then d else nth (Z.to_nat k) l d.

Lemma assign_from_length {A} k lo hi (v : A) l : length (assign_from k lo hi v l) = length l.
Proof. revert k; induction l as [|x r IH]; intros k; simpl; [reflexivity|]. now rewrite IH. Qed.

Lemma assign_from_nth {A} (d : A) l : forall k lo hi v (j : nat), (j < length l)%nat ->
  nth j (assign_from k lo hi v l) d =
  if (lo <=? k + Z.of_nat j) && (k + Z.of_nat j <? hi) then v else nth j l d.
Proof.
  induction l as [|x r IH]; intros k lo hi v j Hj; simpl in *; [lia|].
  destruct j as [|j].
  - replace (k + Z.of_nat 0) with k by lia. reflexivity.
  - rewrite IH by lia. replace (k + 1 + Z.of_nat j) with (k + Z.of_nat (S j)) by lia. reflexivity.
Qed.

Lemma slice_assign_length {A} (l : list A) a b v : length (slice_assign l a b v) = length l.
Proof. apply assign_from_length. Qed.

(* The guarded, in-range case: 0 <= a, b <= n : plain interval assignment *)
Lemma slice_assign_nth {A} (d : A) (l : list A) a b v (j : nat) :
  (j < length l)%nat -> 0 <= a -> 0 <= b ->
  nth j (slice_assign l a b v) d =
  if (a <=? Z.of_nat j) && (Z.of_nat j <? b) then v else nth j l d.
Proof.
  intros Hj Ha Hb. unfold slice_assign. rewrite assign_from_nth by exact Hj.
  unfold norm_bound, zlen.
  assert (Hjn : Z.of_nat j < Z.of_nat (length l)) by lia.
  destruct (a <? 0) eqn:E1; [lia|]. destruct (b <? 0) eqn:E2; [lia|].
  rewrite E1, E2.
  destruct (Z.of_nat (length l) <? a) eqn:E3; destruct (Z.of_nat (length l) <? b) eqn:E4;
  destruct (a <=? Z.of_nat j) eqn:E5; destruct (Z.of_nat j <? b) eqn:E6;
  destruct (Z.of_nat (length l) <=? 0 + Z.of_nat j) eqn:E7;
  destruct (0 + Z.of_nat j <? Z.of_nat (length l)) eqn:E8;
  destruct (a <=? 0 + Z.of_nat j) eqn:E9; destruct (0 + Z.of_nat j <? b) eqn:E10;
  simpl; try reflexivity; lia.
Qed.
