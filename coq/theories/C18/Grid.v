(* C18 — footprint corners and pixel grids, in exact arithmetic (all coordinates are integers in a common unit 1/D). *)
From Coq Require Import ZArith List Bool Lia.
Import ListNotations.
Local Open Scope Z_scope.

(* ---------- grid_from_bounding_box, one axis ------------------------------------------------- *)
(* numbers are numerators over a common denominator D > 0; one pixel = D units *)
Definition fdiv (a b : Z) := a / b.                       (* floor division, b > 0 *)
Definition cdiv (a b : Z) := - ((- a) / b).               (* ceiling division, b > 0 *)

(* _bbox_to_pixel: (floor(lo + 0.5), ceil(hi - 0.5)), in units *)
Definition lo_pixel (D lo : Z) : Z := D * fdiv (2 * lo + D) (2 * D).
Definition hi_pixel (D hi : Z) : Z := D * cdiv (2 * hi - D) (2 * D).

(* np.mgrid[slice(a, b + s, s)]: n = ceil((b + s - a) / s) nodes a + k*s *)
Definition n_nodes (a b s : Z) : Z := Z.max 0 (cdiv (b + s - a) s).
Definition node (a s k : Z) : Z := a + k * s.
Definition axis_nodes (a b s : Z) : list Z := map (fun k => node a s (Z.of_nat k)) (seq 0 (Z.to_nat (n_nodes a b s))).

Definition grid_axis (D : Z) (center : bool) (lo hi s : Z) : list Z :=
  if center then axis_nodes (lo_pixel D lo) (hi_pixel D hi) s else axis_nodes lo hi s.

Lemma cdiv_spec a b : 0 < b -> b * (cdiv a b - 1) < a <= b * cdiv a b.
Proof.
  intros Hb. unfold cdiv. pose proof (Z.div_mod (- a) b ltac:(lia)). pose proof (Z.mod_pos_bound (- a) b Hb). nia.
Qed.
Lemma fdiv_spec a b : 0 < b -> b * fdiv a b <= a < b * (fdiv a b + 1).
Proof. intros Hb. unfold fdiv. pose proof (Z.div_mod a b ltac:(lia)). pose proof (Z.mod_pos_bound a b Hb). nia. Qed.

(* the lattice starts at the lower limit, advances by the step, and stops at the FIRST node reaching the upper limit *)
Theorem grid_first_last a b s : 0 < s -> a <= b ->
  let n := n_nodes a b s in
  1 <= n /\ node a s 0 = a /\ b <= node a s (n - 1) /\ (2 <= n -> node a s (n - 2) < b).
Proof.
  intros Hs Hab. unfold n_nodes, node. pose proof (cdiv_spec (b + s - a) s Hs) as H. cbv zeta.
  assert (Hn : 1 <= cdiv (b + s - a) s) by nia.
  rewrite Z.max_r by lia. repeat split; try lia; nia.
Qed.

Lemma axis_nodes_nth a b s (k : nat) : (Z.of_nat k < n_nodes a b s) -> nth k (axis_nodes a b s) 0 = node a s (Z.of_nat k).
Proof.
  intros H. unfold axis_nodes.
  rewrite (nth_indep _ 0 ((fun k => node a s (Z.of_nat k)) 0%nat)) by (rewrite map_length, seq_length; lia).
  rewrite (map_nth (fun k => node a s (Z.of_nat k)) (seq 0 (Z.to_nat (n_nodes a b s))) 0%nat k).
  rewrite seq_nth by lia. reflexivity.
Qed.

(* centring: the first / last pixel centres inside the box; a limit at x.5 goes to the pixel inside it *)
Theorem lo_pixel_spec D lo : 0 < D ->
  exists k, lo_pixel D lo = D * k /\ 2 * D * k - D <= 2 * lo < 2 * D * k + D.
Proof.
  intros HD. exists (fdiv (2 * lo + D) (2 * D)). split; [reflexivity|].
  pose proof (fdiv_spec (2 * lo + D) (2 * D) ltac:(lia)). nia.
Qed.
Theorem hi_pixel_spec D hi : 0 < D ->
  exists k, hi_pixel D hi = D * k /\ 2 * D * k - D < 2 * hi <= 2 * D * k + D.
Proof.
  intros HD. exists (cdiv (2 * hi - D) (2 * D)). split; [reflexivity|].
  pose proof (cdiv_spec (2 * hi - D) (2 * D) ltac:(lia)). nia.
Qed.

(* unit step with centring: exactly the pixels that overlap the box: k + 1/2 > lo and k - 1/2 < hi *)
Theorem centred_grid_is_overlapping_pixels D lo hi (k : Z) : 0 < D -> lo <= hi ->
  (In (D * k) (grid_axis D true lo hi D)) <-> (2 * lo < 2 * D * k + D /\ 2 * D * k - D < 2 * hi).
Proof.
  intros HD Hle. unfold grid_axis.
  destruct (lo_pixel_spec D lo HD) as [ka [Ha1 Ha2]]. destruct (hi_pixel_spec D hi HD) as [kb [Hb1 Hb2]].
  rewrite Ha1, Hb1. unfold axis_nodes, n_nodes, node.
  assert (Hc : cdiv (D * kb + D - D * ka) D = kb + 1 - ka).
  { pose proof (cdiv_spec (D * kb + D - D * ka) D HD). nia. }
  rewrite Hc. rewrite in_map_iff. split.
  - intros [j [Hj Hin]]. apply in_seq in Hin. assert (k = ka + Z.of_nat j) by nia. subst k. split; nia.
  - intros [H1 H2]. assert (ka <= k <= kb) by nia.
    exists (Z.to_nat (k - ka)). split; [rewrite Z2Nat.id by lia; nia|].
    apply in_seq. split; [lia|]. cbn. rewrite Z.max_r by lia. lia.
Qed.

(* ---------- footprint corners ------------------------------------------------------------------ *)
(* _order_clockwise for a 2-D box ((x0,x1),(y0,y1)): lower-left, upper-left, upper-right, lower-right *)
Definition order_clockwise (bx by_ : Z * Z) : list (Z * Z) :=
  [(fst bx, fst by_); (fst bx, snd by_); (snd bx, snd by_); (snd bx, fst by_)].

(* itertools.product over bb: all combinations of per-axis limits, last axis varying fastest *)
Fixpoint product (bb : list (Z * Z)) : list (list Z) :=
  match bb with
  | [] => [[]]
  | (lo, hi) :: r => map (cons lo) (product r) ++ map (cons hi) (product r)
  end.

Theorem product_length bb : length (product bb) = Nat.pow 2 (length bb).
Proof.
  induction bb as [|[lo hi] r IH]; [reflexivity|]. cbn [product length Nat.pow].
  rewrite app_length, !map_length, IH. lia.
Qed.

Theorem product_corner bb : forall c, In c (product bb) <->
  length c = length bb /\ Forall2 (fun v b => v = fst b \/ v = snd b) c bb.
Proof.
  induction bb as [|[lo hi] r IH]; intros c; cbn [product].
  - split; [intros [<-|[]]; split; [reflexivity|constructor] | intros [Hl _]; destruct c; [now left|discriminate]].
  - rewrite in_app_iff, !in_map_iff. split.
    + intros [[t [<- Ht]]|[t [<- Ht]]]; apply IH in Ht as [Hl Hf]; (split; [cbn; now rewrite Hl|constructor; [cbn; auto|assumption]]).
    + intros [Hl Hf]. inversion Hf as [|v b t r' Hv Hrest]; subst. cbn in Hv.
      assert (In t (product r)) by (apply IH; split; [cbn in Hl; lia|assumption]).
      destruct Hv as [->| ->]; [left|right]; exists t; auto.
Qed.

Theorem clockwise_from_lower_left x0 x1 y0 y1 : x0 <= x1 -> y0 <= y1 ->
  let c := order_clockwise (x0, x1) (y0, y1) in
  nth 0 c (0, 0) = (x0, y0) /\ nth 1 c (0, 0) = (x0, y1) /\ nth 2 c (0, 0) = (x1, y1) /\ nth 3 c (0, 0) = (x1, y0).
Proof. intros _ _. cbn. repeat split; reflexivity. Qed.

(* centring moves a corner to its pixel centre: _toindex = floor(x + 0.5) *)
Definition toindex_u (D v : Z) : Z := D * fdiv (2 * v + D) (2 * D).

(* per-type reduction: (min, max) over the corner images *)
Definition lmin (l : list Z) (d : Z) := fold_left Z.min l d.
Definition lmax (l : list Z) (d : Z) := fold_left Z.max l d.
Lemma lmin_le l : forall d x, In x (d :: l) -> lmin l d <= x.
Proof.
  unfold lmin. induction l as [|a l IH]; intros d x H; cbn [fold_left].
  - destruct H as [->|[]]. lia.
  - destruct H as [->|[->|H]].
    + specialize (IH (Z.min x a) (Z.min x a) (or_introl eq_refl)). lia.
    + specialize (IH (Z.min d x) (Z.min d x) (or_introl eq_refl)). lia.
    + apply IH. now right.
Qed.
Lemma lmax_ge l : forall d x, In x (d :: l) -> x <= lmax l d.
Proof.
  unfold lmax. induction l as [|a l IH]; intros d x H; cbn [fold_left].
  - destruct H as [->|[]]. lia.
  - destruct H as [->|[->|H]].
    + specialize (IH (Z.max x a) (Z.max x a) (or_introl eq_refl)). lia.
    + specialize (IH (Z.max d x) (Z.max d x) (or_introl eq_refl)). lia.
    + apply IH. now right.
Qed.
Theorem footprint_axis_range d l x : In x (d :: l) -> lmin l d <= x <= lmax l d.
Proof. intros H. split; [now apply lmin_le | now apply lmax_ge]. Qed.

(* executable checkers for the correspondence cases *)
Definition list_eqb (a b : list Z) : bool :=
  Nat.eqb (length a) (length b) && forallb (fun xy => fst xy =? snd xy) (combine a b).
Definition check_grid_axis (D : Z) (center : bool) (lo hi s : Z) (got : list Z) : bool := list_eqb (grid_axis D center lo hi s) got.
Definition corners (all_spatial2d : bool) (center : bool) (D : Z) (bb : list (Z * Z)) : list (list Z) :=
  let cs := match all_spatial2d, bb with
            | true, [bx; by_] => map (fun p => [fst p; snd p]) (order_clockwise bx by_)
            | _, _ => product bb
            end in
  if center then map (map (toindex_u D)) cs else cs.
Definition check_corners (sp2 : bool) (center : bool) (D : Z) (bb : list (Z * Z)) (got : list (list Z)) : bool :=
  Nat.eqb (length (corners sp2 center D bb)) (length got) &&
  forallb (fun ab => list_eqb (fst ab) (snd ab)) (combine (corners sp2 center D bb) got).
