(* C02 — backward transform: hand model of WCS.backward_transform / invert's path choice on top of the
   regenerated forward_transform; theorems: it is the step inverses in reverse order, it undoes the forward
   transform (both ways) when leaf inverses are inverses, and its own inverse is the forward transform. *)
From Coq Require Import ZArith List Bool Lia.
From GW Require Import Base.Py.
From WC01 Require Import Gen_pipeline Sem Proofs.
Import ListNotations.
Local Open Scope Z_scope.

(* backward = forward_transform.inverse (NotImplementedError re-raised); then `backward.inverse` is patched
   to forward_transform only when the compound cannot compute it *)
Definition m_backward_transform (w : wcs) : res (option model) :=
  do f <- m_forward_transform w;
  match f with
  | None => Err OtherError
  | Some m => do e <- texpr_inverse (te m); Ok (Some {| te := e; mbox := None |})
  end.

(* invert: analytic path when backward_transform exists, else the iterative solver (an oracle here) *)
Definition invert_path (w : wcs) : bool :=   (* true = analytic *)
  match m_backward_transform w with Ok _ => true | Err e => negb (err_eqb e NotImplementedError || err_eqb e KeyError) end.

Section S.
  Variable V : Type.
  Variables (den den_inv : Z -> V -> V) (fill : list (Z * Z) -> V -> V).
  Notation eval := (eval V den den_inv fill).

  Lemma reduce_from_inverse : forall ms ims acc iacc,
    texpr_inverse (te acc) = Ok iacc ->
    Forall2 (fun m im => texpr_inverse (te m) = Ok im) ms ims ->
    exists m e', reduce_from (Some acc) (map Some ms) = Ok (Some m) /\ texpr_inverse (te m) = Ok e' /\
                 forall x, eval e' x = eval iacc (fold_right (fun im v => eval im v) x ims).
  Proof.
    induction ms as [|m1 ms IH]; intros ims acc iacc Hacc Hall; inversion Hall as [|? im1 ? ims' H1 Hrest]; subst.
    - exists acc, iacc. cbn [map reduce_from fold_right]. split; [reflexivity|split; [assumption|intros x; reflexivity]].
    - cbn [map reduce_from py_or bind].
      destruct (IH ims' {| te := Pipe (te acc) (te m1); mbox := None |} (Pipe im1 iacc)) as [m [e' [A [B C]]]].
      + cbn [te texpr_inverse]. rewrite H1, Hacc. reflexivity.
      + assumption.
      + exists m, e'. split; [assumption|split; [assumption|intros x; rewrite C; reflexivity]].
  Qed.

  (* the backward transform evaluates the step inverses in reverse order *)
  Theorem backward_is_rev_inverses (w : wcs) a ms ia ims :
    map step_transform (removelast (pipeline w)) = map Some (a :: ms) ->
    texpr_inverse (te a) = Ok ia ->
    Forall2 (fun m im => texpr_inverse (te m) = Ok im) ms ims ->
    exists b, m_backward_transform w = Ok (Some b) /\
              forall x, eval (te b) x = eval ia (fold_right (fun im v => eval im v) x ims).
  Proof.
    intros Hts Ha Hall. unfold m_backward_transform, m_forward_transform.
    destruct (pipeline w) as [|s0 p] eqn:Ep; [discriminate Hts|]. cbn [truthy_list].
    rewrite py_slice_to_m1.
    change (map (fun v_step : step => step_transform v_step)) with (map step_transform). rewrite Hts.
    cbn [map reduce_pipe].
    destruct (reduce_from_inverse ms ims a ia Ha Hall) as [m [e' [A [B C]]]].
    rewrite A. cbn [bind]. rewrite B. cbn [bind]. eexists. split; [reflexivity|]. exact C.
  Qed.

  Hypothesis inv_l : forall i x, den_inv i (den i x) = x.
  Hypothesis inv_r : forall i x, den i (den_inv i x) = x.

  (* pixel -> world -> pixel and world -> pixel -> world are the identity; backward.inverse is forward *)
  Theorem roundtrip (w : wcs) f b :
    m_forward_transform w = Ok (Some f) -> m_backward_transform w = Ok (Some b) ->
    (forall x, eval (te b) (eval (te f) x) = x) /\ (forall x, eval (te f) (eval (te b) x) = x) /\
    texpr_inverse (te b) = Ok (te f).
  Proof.
    intros Hf Hb. unfold m_backward_transform in Hb. rewrite Hf in Hb. cbn [bind] in Hb.
    destruct (texpr_inverse (te f)) as [e|] eqn:E; [|discriminate]. cbn [bind] in Hb. inversion Hb; subst. cbn [te].
    exact (texpr_inverse_sound V den den_inv fill inv_l inv_r (te f) e E).
  Qed.
End S.

Theorem C02_backward_is_rev_inverses : forall V den den_inv fill (w : wcs) a ms ia ims,
  map step_transform (removelast (pipeline w)) = map Some (a :: ms) ->
  texpr_inverse (te a) = Ok ia ->
  Forall2 (fun m im => texpr_inverse (te m) = Ok im) ms ims ->
  exists b, m_backward_transform w = Ok (Some b) /\
            forall x, eval V den den_inv fill (te b) x =
                      eval V den den_inv fill ia (fold_right (fun im v => eval V den den_inv fill im v) x ims).
Proof. exact backward_is_rev_inverses. Qed.

Theorem C02_roundtrip : forall V den den_inv fill,
  (forall i x, den_inv i (den i x) = x) -> (forall i x, den i (den_inv i x) = x) ->
  forall (w : wcs) f b, m_forward_transform w = Ok (Some f) -> m_backward_transform w = Ok (Some b) ->
    (forall x, eval V den den_inv fill (te b) (eval V den den_inv fill (te f) x) = x) /\
    (forall x, eval V den den_inv fill (te f) (eval V den den_inv fill (te b) x) = x) /\
    texpr_inverse (te b) = Ok (te f).
Proof. exact roundtrip. Qed.

(* user-supplied inverses are honoured as given: LeafInv i denotes whatever den_inv i is *)
Theorem C02_user_inverse_honoured : forall V den den_inv fill i x,
  eval V den den_inv fill (LeafInv i) x = den_inv i x.
Proof. reflexivity. Qed.

Example C02_nonvacuous :
  let L i := Some {| te := Leaf i true; mbox := None |} in
  let w := (mk_wcs [mk_step (FStr 1) (L 0); mk_step (FStr 2) (L 1); mk_step (FStr 3) None] []) in
  m_backward_transform w = Ok (Some {| te := Pipe (LeafInv 1) (LeafInv 0); mbox := None |}) /\ invert_path w = true.
Proof. cbn. split; reflexivity. Qed.

Print Assumptions C02_backward_is_rev_inverses.
Print Assumptions C02_roundtrip.
Print Assumptions C02_user_inverse_honoured.
Print Assumptions C02_nonvacuous.
