(* C07 — theorems about the edit methods REGENERATED from gwcs/wcs.py (Gen_pipeline.v):
   set_transform, insert_transform, insert_frame; plus the hand model of the bounding_box setter. *)
From Coq Require Import ZArith List Bool Lia ZifyBool.
From GW Require Import Base.Py.
From WC01 Require Import Gen_pipeline Sem Proofs.
Import ListNotations.
Local Open Scope Z_scope.

Definition dstep := mk_step (FStr 0) None.

Lemma py_getitem_nat {A} (l : list A) (i : nat) d : (i < length l)%nat -> py_getitem l (Z.of_nat i) = Ok (nth i l d).
Proof.
  intros H. unfold py_getitem, zlen.
  assert (E : (Z.of_nat i <? 0) = false) by lia. cbv zeta. rewrite !E. cbn [orb].
  replace (Z.of_nat (length l) <=? Z.of_nat i) with false by lia.
  rewrite Nat2Z.id. destruct (nth_error l i) eqn:En.
  - f_equal. symmetry. now apply nth_error_nth.
  - apply nth_error_None in En. lia.
Qed.

Lemma py_setitem_nat {A} (l : list A) (i : nat) v : (i < length l)%nat -> py_setitem l (Z.of_nat i) v = Ok (list_set l i v).
Proof.
  intros H. unfold py_setitem, zlen.
  assert (E : (Z.of_nat i <? 0) = false) by lia. cbv zeta. rewrite !E. cbn [orb].
  replace (Z.of_nat (length l) <=? Z.of_nat i) with false by lia.
  now rewrite Nat2Z.id.
Qed.

Lemma get_frame_name_spec w f : m_get_frame_name w f = (FStr (fname f), match f with FStr _ => None | _ => Some f end).
Proof. destruct f; reflexivity. Qed.

(* ---------- set_transform --------------------------------------------------------- *)
Theorem set_transform_ok (w : wcs) (f g : fref) (t : option model) (i : nat) :
  wf w -> (S i < length (pipeline w))%nat ->
  fname f = nth i (names w) 0 -> fname g = nth (S i) (names w) 0 ->
  m_set_transform w f g t =
  MOk (set_approx (set_pipeline w (list_set (pipeline w) i (set_step_transform (nth i (pipeline w) dstep) t))) None).
Proof.
  intros Hwf Hi Hf Hg. unfold m_set_transform. rewrite !get_frame_name_spec.
  destruct (pipeline w) as [|s0 p] eqn:Ep; [cbn in Hi; lia|]. cbn [truthy_list negb]. rewrite <- Ep in *.
  rewrite !bind_ret.
  rewrite (gfi_at w (FStr (fname f)) i) by (try assumption; cbn [fname]; lia). cbn [catch].
  rewrite (gfi_at w (FStr (fname g)) (S i)) by (try assumption; cbn [fname]; lia). cbn [catch].
  replace (negb (Z.of_nat i + 1 =? Z.of_nat (S i))) with false by lia.
  rewrite (py_getitem_nat _ i dstep) by lia. rewrite py_setitem_nat by lia. reflexivity.
Qed.

Ltac crush_rejected :=
  repeat match goal with
         | |- context [match ?x with _ => _ end] => destruct x eqn:?
         | |- context [if ?x then _ else _] => destruct x eqn:?
         end;
  intros Hq; try discriminate Hq; inversion Hq; reflexivity.

(* a rejected edit raises with the object exactly as it was: every raise precedes every write *)
Theorem set_transform_rejected (w w' : wcs) f g t e : m_set_transform w f g t = MErr w' e -> w' = w.
Proof. unfold m_set_transform. crush_rejected. Qed.

Theorem insert_transform_rejected (w w' : wcs) f t after e : m_insert_transform w f t after = MErr w' e -> w' = w.
Proof. unfold m_insert_transform. crush_rejected. Qed.

Theorem insert_frame_rejected (w w' : wcs) f t g e : m_insert_frame w f t g = MErr w' e -> w' = w.
Proof. unfold m_insert_frame. crush_rejected. Qed.

(* ---------- insert_transform ----------------------------------------------------------- *)
Theorem insert_transform_before (w : wcs) (f : fref) (a b : model) (i : nat) :
  wf w -> (S i < length (pipeline w))%nat -> fname f = nth (S i) (names w) 0 ->
  step_transform (nth i (pipeline w) dstep) = Some a ->
  m_insert_transform w f (Some b) false =
  MOk (set_approx (set_pipeline w (list_set (pipeline w) i
        (set_step_transform (nth i (pipeline w) dstep) (Some {| te := Pipe (te a) (te b); mbox := None |})))) None).
Proof.
  intros Hwf Hi Hf Ha. unfold m_insert_transform. rewrite get_frame_name_spec.
  rewrite (gfi_at w (FStr (fname f)) (S i)) by (try assumption; cbn [fname]; lia). cbn [negb].
  replace (Z.of_nat (S i) - 1) with (Z.of_nat i) by lia.
  rewrite (py_getitem_nat _ i dstep) by lia. rewrite Ha. cbn [py_or].
  rewrite py_setitem_nat by lia. reflexivity.
Qed.

Theorem insert_transform_after (w : wcs) (f : fref) (a b : model) (i : nat) :
  wf w -> (i < length (pipeline w))%nat -> fname f = nth i (names w) 0 ->
  step_transform (nth i (pipeline w) dstep) = Some a ->
  m_insert_transform w f (Some b) true =
  MOk (set_approx (set_pipeline w (list_set (pipeline w) i
        (set_step_transform (nth i (pipeline w) dstep) (Some {| te := Pipe (te b) (te a); mbox := None |})))) None).
Proof.
  intros Hwf Hi Hf Ha. unfold m_insert_transform. rewrite get_frame_name_spec.
  rewrite (gfi_at w (FStr (fname f)) i) by (try assumption; cbn [fname]; lia). cbn [negb].
  rewrite (py_getitem_nat _ i dstep) by lia. rewrite Ha. cbn [py_or].
  rewrite py_setitem_nat by lia. reflexivity.
Qed.

(* ---------- insert_frame ------------------------------------------------------------------- *)
Lemma py_slice_to_nat {A} (l : list A) (j : nat) : (j <= length l)%nat -> py_slice_to l (Z.of_nat j) = firstn j l.
Proof.
  intros H. unfold py_slice_to. replace 0 with (Z.of_nat 0) by reflexivity.
  rewrite py_slice_nat by lia. cbn [skipn]. now rewrite Nat.sub_0_r.
Qed.
Lemma py_slice_from_nat {A} (l : list A) (j : nat) : (j <= length l)%nat -> py_slice_from l (Z.of_nat j) = skipn j l.
Proof.
  intros H. unfold py_slice_from, zlen. rewrite py_slice_nat by lia.
  apply firstn_all2. rewrite skipn_length. lia.
Qed.

(* a new frame object in front of an existing frame *)
Theorem insert_frame_new_input (w : wcs) (n id : Z) (t : option model) (g : fref) (j : nat) :
  wf w -> (j < length (pipeline w))%nat -> fname g = nth j (names w) 0 -> ~ In n (names w) ->
  m_insert_frame w (FObj n id) t g =
  MOk (set_approx (setattr (set_pipeline w (firstn j (pipeline w) ++ [mk_step (FObj n id) t] ++ skipn j (pipeline w)))
               (FStr n) (Some (FObj n id))) None).
Proof.
  intros Hwf Hj Hg Hn. unfold m_insert_frame. rewrite !get_frame_name_spec. cbn [fname].
  rewrite (gfi_unknown w (FObj n id)) by (cbn [fname]; assumption). cbn [bind catch err_eqb].
  rewrite (gfi_at w g j) by assumption. cbn [bind catch].
  destruct g as [gn|gn gi]; cbn [count_none filter zlen length Z.of_nat Pos.of_succ_nat Z.eqb Pos.eqb];
    cbn [mk_step_opt py_slice_to_opt py_slice_from_opt];
    rewrite py_slice_to_nat, py_slice_from_nat by lia; rewrite <- app_assoc; reflexivity.
Qed.

(* a new frame object after an existing frame: the existing step is split *)
Theorem insert_frame_new_output (w : wcs) (f : fref) (t : option model) (n id : Z) (i : nat) :
  wf w -> (i < length (pipeline w))%nat -> fname f = nth i (names w) 0 -> ~ In n (names w) ->
  m_insert_frame w f t (FObj n id) =
  MOk (set_approx (setattr (set_pipeline w (firstn i (pipeline w) ++
                                [mk_step (step_frame (nth i (pipeline w) dstep)) t;
                                 mk_step (FObj n id) (step_transform (nth i (pipeline w) dstep))] ++
                                skipn (S i) (pipeline w)))
               (FStr n) (Some (FObj n id))) None).
Proof.
  intros Hwf Hi Hf Hn. unfold m_insert_frame. rewrite !get_frame_name_spec. cbn [fname].
  rewrite (gfi_at w f i) by assumption. cbn [bind catch].
  rewrite (gfi_unknown w (FObj n id)) by (cbn [fname]; assumption). cbn [bind catch err_eqb].
  destruct f as [fn|fn fi]; cbn [count_none filter zlen length Z.of_nat Pos.of_succ_nat Z.eqb Pos.eqb unwrap_int];
    rewrite (py_getitem_nat _ i dstep) by lia;
    cbn [mk_step_opt py_slice_to_opt py_slice_from_opt];
    replace (Z.of_nat i + 1) with (Z.of_nat (S i)) by lia;
    rewrite py_slice_to_nat, py_slice_from_nat by lia; rewrite <- app_assoc; reflexivity.
Qed.

(* ---------- bounding box (hand model of the bounding_box property of WCS) --------------------- *)
(* getter: the box stored on the transform of the first step *)
Definition m_bbox_get (w : wcs) : res (option bbox) :=
  match pipeline w with
  | s0 :: _ :: _ => match step_transform s0 with Some m0 => Ok (mbox m0) | None => Err OtherError end
  | _ => Err IndexError
  end.

Section BBox.
  Variable valid : model -> bbox -> bool.     (* astropy ModelBoundingBox.validate(order='F') accepts the value *)

  (* setter: validate first (ValueError, nothing written), store on the first transform, set_transform *)
  Definition m_bbox_set (w : wcs) (value : option bbox) : mres :=
    match pipeline w with
    | s0 :: s1 :: _ =>
        match step_transform s0 with
        | None => MErr w OtherError
        | Some m0 =>
            let name k st := FStr (fname (step_frame st)) in
            match value with
            | None => m_set_transform w (name 0%nat s0) (name 1%nat s1) (Some {| te := te m0; mbox := None |})
            | Some b => if valid m0 b
                        then m_set_transform w (name 0%nat s0) (name 1%nat s1) (Some {| te := te m0; mbox := Some b |})
                        else MErr w ValueError
            end
        end
    | _ => MErr w IndexError
    end.

  Theorem bbox_rejected_unchanged (w w' : wcs) v e : m_bbox_set w v = MErr w' e -> w' = w.
  Proof.
    unfold m_bbox_set. destruct (pipeline w) as [|s0 [|s1 p]]; try (intros H; inversion H; reflexivity).
    destruct (step_transform s0); [|intros H; inversion H; reflexivity].
    destruct v as [b|]; [destruct (valid m b)|]; try (intros H; inversion H; reflexivity);
      apply set_transform_rejected.
  Qed.

  Theorem bbox_wrong_shape_rejected (w : wcs) s0 s1 p m0 b :
    pipeline w = s0 :: s1 :: p -> step_transform s0 = Some m0 -> valid m0 b = false ->
    m_bbox_set w (Some b) = MErr w ValueError.
  Proof. intros Hp Hs Hv. unfold m_bbox_set. now rewrite Hp, Hs, Hv. Qed.

  (* what was assigned is what is reported (same axis order), and nothing else changes *)
  Theorem bbox_roundtrip (w : wcs) s0 s1 p m0 b :
    wf w -> pipeline w = s0 :: s1 :: p -> step_transform s0 = Some m0 -> valid m0 b = true ->
    exists w', m_bbox_set w (Some b) = MOk w' /\ m_bbox_get w' = Ok (Some b) /\
               names w' = names w /\ attrs w' = attrs w /\ tl (pipeline w') = tl (pipeline w) /\
               option_map te (step_transform (hd dstep (pipeline w'))) = Some (te m0).
  Proof.
    intros Hwf Hp Hs Hv. unfold m_bbox_set. rewrite Hp, Hs, Hv.
    rewrite (set_transform_ok w _ _ _ 0); try assumption.
    - eexists. split; [reflexivity|]. rewrite Hp. cbn. unfold names. rewrite Hp. cbn. repeat split; reflexivity.
    - rewrite Hp. cbn. lia.
    - unfold names. rewrite Hp. reflexivity.
    - unfold names. rewrite Hp. reflexivity.
  Qed.
End BBox.

(* edits that do not touch the first step keep its transform, hence the box *)
Lemma list_set_hd {A} (l : list A) (i : nat) v d : (0 < i)%nat -> hd d (list_set l i v) = hd d l.
Proof. intros H. destruct l; destruct i; cbn; try reflexivity; lia. Qed.

Theorem bbox_kept_by_later_edits (w : wcs) (i : nat) st :
  (0 < i)%nat -> m_bbox_get (set_pipeline w (list_set (pipeline w) i st)) = m_bbox_get w.
Proof.
  intros Hi. unfold m_bbox_get, set_pipeline. cbn [pipeline].
  destruct (pipeline w) as [|s0 [|s1 p]]; destruct i as [|[|i]]; cbn; try reflexivity; try lia.
Qed.

(* names are untouched by transform edits, extended in place by frame insertion *)
Lemma names_list_set (w : wcs) (i : nat) t :
  names (set_pipeline w (list_set (pipeline w) i (set_step_transform (nth i (pipeline w) dstep) t))) = names w.
Proof.
  unfold names, set_pipeline. cbn [pipeline]. revert i.
  induction (pipeline w) as [|s p IH]; intros i; destruct i; cbn; try reflexivity. now rewrite IH.
Qed.

(* ---------- executable op machine for the correspondence runs --------------------------------- *)
Inductive op :=
  | OSet (f g : fref) (t : option model)
  | OInsT (f : fref) (t : option model) (after : bool)
  | OInsF (f : fref) (t : option model) (g : fref)
  | OBox (b : option bbox).

Definition step_op (n : nat) (w : wcs) (o : op) : mres :=
  match o with
  | OSet f g t => m_set_transform w f g t
  | OInsT f t a => m_insert_transform w f t a
  | OInsF f t g => m_insert_frame w f t g
  | OBox b => m_bbox_set (fun _ b => Nat.eqb (length b) n) w b
  end.
Definition state_of (r : mres) : wcs := match r with MOk w => w | MErr w _ => w end.
Definition status_of (r : mres) : option err := match r with MOk _ => None | MErr _ e => Some e end.

Record obs := { o_status : option err; o_names : list Z; o_fwd : expected; o_box : option (option bbox);
                o_attrs : list (Z * option Z) }.   (* name |-> identity of the registered object *)

Definition attr_view (w : wcs) (nm : list Z) : list (Z * option Z) :=
  map (fun n => (n, match getattr (attrs w) n with Some (Some (FObj _ i)) => Some i | _ => None end)) nm.

Definition opt_err_eqb (a b : option err) : bool :=
  match a, b with None, None => true | Some x, Some y => err_eqb x y | _, _ => false end.
Definition bbox_eqb (a b : bbox) : bool :=
  (length a =? length b)%nat && forallb (fun xy => (fst (fst xy) =? fst (snd xy)) && (snd (fst xy) =? snd (snd xy))) (combine a b).
Definition obox_eqb (a b : option (option bbox)) : bool :=
  match a, b with
  | None, None => true | Some None, Some None => true
  | Some (Some x), Some (Some y) => bbox_eqb x y | _, _ => false end.
Definition attrs_eqb (a b : list (Z * option Z)) : bool :=
  (length a =? length b)%nat &&
  forallb (fun xy => (fst (fst xy) =? fst (snd xy)) &&
                     match snd (fst xy), snd (snd xy) with None, None => true | Some i, Some j => i =? j | _, _ => false end)
          (combine a b).

Definition obs_ok (tab : list leafdef) (w : wcs) (st : option err) (x : list Z) (e : obs) : bool :=
  opt_err_eqb st (o_status e) && list_eqb (names w) (o_names e) &&
  agrees tab (m_forward_transform w) x (o_fwd e) &&
  obox_eqb (match m_bbox_get w with Ok b => Some b | Err _ => None end) (o_box e) &&
  attrs_eqb (attr_view w (o_names e)) (o_attrs e).

(* index of the first op after which model and implementation observations differ (None = all agree) *)
Fixpoint run_check (tab : list leafdef) (n : nat) (w : wcs) (x : list Z) (ops : list (op * obs)) (k : nat) : option nat :=
  match ops with
  | [] => None
  | (o, e) :: r =>
      let res := step_op n w o in
      if obs_ok tab (state_of res) (status_of res) x e then run_check tab n (state_of res) x r (S k) else Some k
  end.
