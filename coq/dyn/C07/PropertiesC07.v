(* C07 — property theorems over the edit methods regenerated from gwcs/wcs.py this run. *)
From Coq Require Import ZArith List Bool.
From GW Require Import Base.Py.
From WC01 Require Import Gen_pipeline Sem Proofs Edits.
Import ListNotations.
Local Open Scope Z_scope.

Theorem C07_set_transform_ok : forall (w : wcs) (f g : fref) (t : option model) (i : nat),
  wf w -> (S i < length (pipeline w))%nat ->
  fname f = nth i (names w) 0 -> fname g = nth (S i) (names w) 0 ->
  m_set_transform w f g t =
  MOk (set_approx (set_pipeline w (list_set (pipeline w) i (set_step_transform (nth i (pipeline w) dstep) t))) None).
Proof. exact set_transform_ok. Qed.

Theorem C07_insert_transform_before : forall (w : wcs) (f : fref) (a b : model) (i : nat),
  wf w -> (S i < length (pipeline w))%nat -> fname f = nth (S i) (names w) 0 ->
  step_transform (nth i (pipeline w) dstep) = Some a ->
  m_insert_transform w f (Some b) false =
  MOk (set_approx (set_pipeline w (list_set (pipeline w) i
        (set_step_transform (nth i (pipeline w) dstep) (Some {| te := Pipe (te a) (te b); mbox := None |})))) None).
Proof. exact insert_transform_before. Qed.

Theorem C07_insert_transform_after : forall (w : wcs) (f : fref) (a b : model) (i : nat),
  wf w -> (i < length (pipeline w))%nat -> fname f = nth i (names w) 0 ->
  step_transform (nth i (pipeline w) dstep) = Some a ->
  m_insert_transform w f (Some b) true =
  MOk (set_approx (set_pipeline w (list_set (pipeline w) i
        (set_step_transform (nth i (pipeline w) dstep) (Some {| te := Pipe (te b) (te a); mbox := None |})))) None).
Proof. exact insert_transform_after. Qed.

Theorem C07_insert_frame_new_input : forall (w : wcs) (n id : Z) (t : option model) (g : fref) (j : nat),
  wf w -> (j < length (pipeline w))%nat -> fname g = nth j (names w) 0 -> ~ In n (names w) ->
  m_insert_frame w (FObj n id) t g =
  MOk (set_approx (setattr (set_pipeline w (firstn j (pipeline w) ++ [mk_step (FObj n id) t] ++ skipn j (pipeline w)))
               (FStr n) (Some (FObj n id))) None).
Proof. exact insert_frame_new_input. Qed.

Theorem C07_insert_frame_new_output : forall (w : wcs) (f : fref) (t : option model) (n id : Z) (i : nat),
  wf w -> (i < length (pipeline w))%nat -> fname f = nth i (names w) 0 -> ~ In n (names w) ->
  m_insert_frame w f t (FObj n id) =
  MOk (set_approx (setattr (set_pipeline w (firstn i (pipeline w) ++
                                [mk_step (step_frame (nth i (pipeline w) dstep)) t;
                                 mk_step (FObj n id) (step_transform (nth i (pipeline w) dstep))] ++
                                skipn (S i) (pipeline w)))
               (FStr n) (Some (FObj n id))) None).
Proof. exact insert_frame_new_output. Qed.

(* rejected edits leave no trace: the state carried by every raise is the state on entry *)
Theorem C07_set_transform_rejected : forall (w w' : wcs) f g t e, m_set_transform w f g t = MErr w' e -> w' = w.
Proof. exact set_transform_rejected. Qed.
Theorem C07_insert_transform_rejected : forall (w w' : wcs) f t after e, m_insert_transform w f t after = MErr w' e -> w' = w.
Proof. exact insert_transform_rejected. Qed.
Theorem C07_insert_frame_rejected : forall (w w' : wcs) f t g e, m_insert_frame w f t g = MErr w' e -> w' = w.
Proof. exact insert_frame_rejected. Qed.
Theorem C07_bbox_rejected_unchanged : forall valid (w w' : wcs) v e, m_bbox_set valid w v = MErr w' e -> w' = w.
Proof. exact bbox_rejected_unchanged. Qed.
Theorem C07_bbox_wrong_shape_rejected : forall valid (w : wcs) s0 s1 p m0 b,
  pipeline w = s0 :: s1 :: p -> step_transform s0 = Some m0 -> valid m0 b = false ->
  m_bbox_set valid w (Some b) = MErr w ValueError.
Proof. exact bbox_wrong_shape_rejected. Qed.

Theorem C07_bbox_roundtrip : forall valid (w : wcs) s0 s1 p m0 b,
  wf w -> pipeline w = s0 :: s1 :: p -> step_transform s0 = Some m0 -> valid m0 b = true ->
  exists w', m_bbox_set valid w (Some b) = MOk w' /\ m_bbox_get w' = Ok (Some b) /\
             names w' = names w /\ attrs w' = attrs w /\ tl (pipeline w') = tl (pipeline w) /\
             option_map te (step_transform (hd dstep (pipeline w'))) = Some (te m0).
Proof. exact bbox_roundtrip. Qed.

Theorem C07_bbox_kept_by_later_edits : forall (w : wcs) (i : nat) st,
  (0 < i)%nat -> m_bbox_get (set_pipeline w (list_set (pipeline w) i st)) = m_bbox_get w.
Proof. exact bbox_kept_by_later_edits. Qed.

Theorem C07_names_kept_by_transform_edits : forall (w : wcs) (i : nat) t,
  names (set_pipeline w (list_set (pipeline w) i (set_step_transform (nth i (pipeline w) dstep) t))) = names w.
Proof. exact names_list_set. Qed.

(* non-vacuity *)
Example C07_nonvacuous :
  let L i := Some {| te := Leaf i true; mbox := None |} in
  let w := (mk_wcs [mk_step (FObj 1 11) (L 0); mk_step (FStr 2) (L 1); mk_step (FObj 3 33) None] []) in
  wf w /\ status_of (m_set_transform w (FStr 2) (FStr 1) (L 5)) = Some ValueError /\
  status_of (m_insert_transform w (FStr 1) (L 5) false) = Some TypeError /\
  status_of (m_insert_frame w (FStr 9) (L 5) (FStr 2)) = Some ValueError /\
  names (state_of (m_insert_frame w (FObj 9 99) (L 5) (FStr 2))) = [1; 9; 2; 3].
Proof.
  cbn. repeat split; try reflexivity. unfold wf, names. cbn. repeat constructor; cbn; intuition discriminate.
Qed.

Print Assumptions C07_set_transform_ok.
Print Assumptions C07_insert_transform_before.
Print Assumptions C07_insert_transform_after.
Print Assumptions C07_insert_frame_new_input.
Print Assumptions C07_insert_frame_new_output.
Print Assumptions C07_set_transform_rejected.
Print Assumptions C07_insert_transform_rejected.
Print Assumptions C07_insert_frame_rejected.
Print Assumptions C07_bbox_rejected_unchanged.
Print Assumptions C07_bbox_wrong_shape_rejected.
Print Assumptions C07_bbox_roundtrip.
Print Assumptions C07_bbox_kept_by_later_edits.
Print Assumptions C07_names_kept_by_transform_edits.
Print Assumptions C07_nonvacuous.
