(* C13 — theorems about the index / shape wrappers REGENERATED from gwcs/api.py (Gen_api.v). *)
From Coq Require Import ZArith List Bool Lia ZifyBool.
From GW Require Import Base.Py Base.Api.
From WC13 Require Import Gen_api.
Import ListNotations.
Local Open Scope Z_scope.

Section S.
  Variable V : Type.
  Variables (p2w w2p inv_units : api -> list V -> res (list V)) (toindex : V -> Z).
  Notation aiw := (a_array_index_to_world_values V p2w).
  Notation wai := (a_world_to_array_index_values V w2p toindex).
  Notation wao := (a_world_to_array_index V inv_units toindex).

  (* array-index variants are the pixel variants with the axes reversed *)
  Theorem array_index_to_world_is_rev (a : api) idx : aiw a idx = p2w a (rev idx).
  Proof. unfold a_array_index_to_world_values. destruct (p2w a (rev idx)); reflexivity. Qed.

  Theorem world_to_array_index_values_spec (a : api) ws :
    wai a ws = do r <- w2p a ws; Ok (map toindex (if naxes_in a =? 1 then r else rev r)).
  Proof.
    unfold a_world_to_array_index_values. destruct (w2p a ws) as [r|e]; cbn [bind]; [|reflexivity].
    destruct (naxes_in a =? 1); cbn [negb]; cbv [toindex_any ti_scalar ti_list]; reflexivity.
  Qed.

  Theorem world_to_array_index_spec (a : api) ws :
    wao a ws = do r <- inv_units a ws; Ok (map toindex (if naxes_in a =? 1 then r else rev r)).
  Proof.
    unfold a_world_to_array_index. destruct (inv_units a ws) as [r|e]; cbn [bind]; [|reflexivity].
    destruct (naxes_in a =? 1); cbn [negb]; cbv [toindex_any ti_scalar ti_list]; reflexivity.
  Qed.
End S.

(* array_shape is always pixel_shape reversed, whatever was assigned last *)
Theorem array_shape_is_rev (a : api) : a_array_shape a = Ok (option_map (@rev Z) (pixel_shape_ a)).
Proof. unfold a_array_shape. destruct (pixel_shape_ a); reflexivity. Qed.

Theorem pixel_shape_is_stored (a : api) : a_pixel_shape a = Ok (pixel_shape_ a).
Proof. reflexivity. Qed.

(* (after fix 'array_shape validates its length': the setter used to store any reversed value unchecked, so that a pixel shape of
   the wrong length could be stored through it; `shape_ok_after_any_history` below was not provable then) *)
Theorem set_array_shape_spec (a : api) v :
  a_set_array_shape a v =
  match v with
  | None => MOk (set_pixel_shape a None)
  | Some l => if zlen l =? naxes_in a then MOk (set_pixel_shape a (Some (rev l))) else MErr a ValueError
  end.
Proof. unfold a_set_array_shape. destruct v as [l|]; [|reflexivity]. destruct (zlen l =? naxes_in a); reflexivity. Qed.

Theorem set_pixel_shape_spec (a : api) v :
  a_set_pixel_shape a v =
  match v with
  | None => MOk (set_pixel_shape a None)
  | Some l => if zlen l =? naxes_in a then MOk (set_pixel_shape a (Some l)) else MErr a ValueError
  end.
Proof. unfold a_set_pixel_shape. destruct v as [l|]; [|reflexivity]. destruct (zlen l =? naxes_in a); reflexivity. Qed.

(* histories of assignments *)
Inductive sop := SetPix (v : option (list Z)) | SetArr (v : option (list Z)).
Definition st_of (r : mresT api) : api := match r with MOk a => a | MErr a _ => a end.
Definition step_sop (a : api) (o : sop) : mresT api :=
  match o with SetPix v => a_set_pixel_shape a v | SetArr v => a_set_array_shape a v end.
Definition run_sops (ops : list sop) (a : api) : api := fold_left (fun s o => st_of (step_sop s o)) ops a.

Theorem array_shape_after_any_history ops a :
  a_array_shape (run_sops ops a) = Ok (option_map (@rev Z) (pixel_shape_ (run_sops ops a))).
Proof. apply array_shape_is_rev. Qed.

Theorem naxes_preserved ops : forall a, naxes_in (run_sops ops a) = naxes_in a.
Proof.
  induction ops as [|o ops IH]; intros a; cbn [run_sops fold_left]; [reflexivity|].
  fold (run_sops ops (st_of (step_sop a o))). rewrite IH.
  destruct o as [v|v]; cbn [step_sop].
  - rewrite set_pixel_shape_spec. destruct v as [l|]; [destruct (zlen l =? naxes_in a)|]; reflexivity.
  - rewrite set_array_shape_spec. destruct v as [l|]; [destruct (zlen l =? naxes_in a)|]; reflexivity.
Qed.

(* a stored shape always has the right length (given the initial one does) *)
Definition shape_ok (a : api) : Prop := match pixel_shape_ a with None => True | Some l => zlen l = naxes_in a end.
Theorem set_pixel_shape_keeps_ok a v : shape_ok a -> shape_ok (st_of (a_set_pixel_shape a v)).
Proof.
  intros H. rewrite set_pixel_shape_spec. destruct v as [l|]; [|exact I].
  destruct (zlen l =? naxes_in a) eqn:E; cbn [st_of]; [|exact H]. unfold shape_ok. cbn. lia.
Qed.

Lemma zlen_rev (l : list Z) : zlen (rev l) = zlen l.
Proof. unfold zlen. now rewrite rev_length. Qed.

Theorem set_array_shape_keeps_ok a v : shape_ok a -> shape_ok (st_of (a_set_array_shape a v)).
Proof.
  intros H. rewrite set_array_shape_spec. destruct v as [l|]; [|exact I].
  destruct (zlen l =? naxes_in a) eqn:E; cbn [st_of]; [|exact H]. unfold shape_ok. cbn. rewrite zlen_rev. lia.
Qed.

(* whichever setter is used, in whatever order and with whatever (also rejected) values: the stored shape has one entry per pixel axis *)
Theorem shape_ok_after_any_history ops : forall a, shape_ok a -> shape_ok (run_sops ops a).
Proof.
  induction ops as [|o ops IH]; intros a H; cbn [run_sops fold_left]; [exact H|].
  fold (run_sops ops (st_of (step_sop a o))). apply IH.
  destruct o as [v|v]; cbn [step_sop]; [now apply set_pixel_shape_keeps_ok | now apply set_array_shape_keeps_ok].
Qed.

(* an accepted assignment of either property reads back through array_shape as assigned *)
Theorem last_array_shape_wins a v :
  match v with Some l => zlen l = naxes_in a | None => True end -> a_array_shape (st_of (a_set_array_shape a v)) = Ok v.
Proof.
  intros Hl. rewrite set_array_shape_spec, array_shape_is_rev. destruct v as [l|]; [|reflexivity].
  replace (zlen l =? naxes_in a) with true by lia. cbn [st_of set_pixel_shape pixel_shape_ option_map]. now rewrite rev_involutive.
Qed.

Theorem array_shape_wrong_len_rejected a l : zlen l <> naxes_in a -> a_set_array_shape a (Some l) = MErr a ValueError.
Proof. intros H. rewrite set_array_shape_spec. replace (zlen l =? naxes_in a) with false by lia. reflexivity. Qed.

Theorem pixel_shape_wrong_len_rejected a l : zlen l <> naxes_in a -> a_set_pixel_shape a (Some l) = MErr a ValueError.
Proof. intros H. rewrite set_pixel_shape_spec. replace (zlen l =? naxes_in a) with false by lia. reflexivity. Qed.

Theorem C13_array_index_to_world_is_rev : forall V p2w (a : api) idx,
  a_array_index_to_world_values V p2w a idx = p2w a (rev idx).
Proof. exact array_index_to_world_is_rev. Qed.
Theorem C13_world_to_array_index_values_spec : forall V w2p toindex (a : api) ws,
  a_world_to_array_index_values V w2p toindex a ws =
  do r <- w2p a ws; Ok (map toindex (if naxes_in a =? 1 then r else rev r)).
Proof. exact world_to_array_index_values_spec. Qed.
Theorem C13_world_to_array_index_spec : forall V inv_units toindex (a : api) ws,
  a_world_to_array_index V inv_units toindex a ws =
  do r <- inv_units a ws; Ok (map toindex (if naxes_in a =? 1 then r else rev r)).
Proof. exact world_to_array_index_spec. Qed.
Theorem C13_array_shape_after_any_history : forall ops a,
  a_array_shape (run_sops ops a) = Ok (option_map (@rev Z) (pixel_shape_ (run_sops ops a))).
Proof. exact array_shape_after_any_history. Qed.
Theorem C13_last_array_shape_wins : forall a v,
  match v with Some l => zlen l = naxes_in a | None => True end -> a_array_shape (st_of (a_set_array_shape a v)) = Ok v.
Proof. exact last_array_shape_wins. Qed.
Theorem C13_array_shape_wrong_len_rejected : forall a l,
  zlen l <> naxes_in a -> a_set_array_shape a (Some l) = MErr a ValueError.
Proof. exact array_shape_wrong_len_rejected. Qed.
Theorem C13_shape_ok_after_any_history : forall ops a, shape_ok a -> shape_ok (run_sops ops a).
Proof. exact shape_ok_after_any_history. Qed.
Theorem C13_pixel_shape_wrong_len_rejected : forall a l,
  zlen l <> naxes_in a -> a_set_pixel_shape a (Some l) = MErr a ValueError.
Proof. exact pixel_shape_wrong_len_rejected. Qed.
Theorem C13_set_pixel_shape_spec : forall a v, a_set_pixel_shape a v =
  match v with
  | None => MOk (set_pixel_shape a None)
  | Some l => if zlen l =? naxes_in a then MOk (set_pixel_shape a (Some l)) else MErr a ValueError
  end.
Proof. exact set_pixel_shape_spec. Qed.
Example C13_nonvacuous :
  let a := {| pixel_shape_ := None; naxes_in := 2 |} in
  let a' := run_sops [SetPix (Some [3; 4]); SetArr (Some [7; 9]); SetPix (Some [1; 2; 3])] a in
  pixel_shape_ a' = Some [9; 7] /\ a_array_shape a' = Ok (Some [7; 9]).
Proof. cbn. split; reflexivity. Qed.

Print Assumptions C13_array_index_to_world_is_rev.
Print Assumptions C13_world_to_array_index_values_spec.
Print Assumptions C13_world_to_array_index_spec.
Print Assumptions C13_array_shape_after_any_history.
Print Assumptions C13_last_array_shape_wins.
Print Assumptions C13_array_shape_wrong_len_rejected.
Print Assumptions C13_shape_ok_after_any_history.
Print Assumptions C13_pixel_shape_wrong_len_rejected.
Print Assumptions C13_set_pixel_shape_spec.
Print Assumptions C13_nonvacuous.
