(* C01 — what `fill_tab` (the model of astropy's fix_inputs re-insertion used by the correspondence) means, for every table of fixed
   inputs with strictly ascending, valid positions: every fixed value sits at its own input position, the free inputs keep their order,
   and nothing else is in the result. *)
From Coq Require Import ZArith List Bool Lia.
From WC01 Require Import Sem.
Import ListNotations.

Fixpoint remove_at {A} (k : nat) (l : list A) : list A :=
  match k, l with
  | _, [] => []
  | O, _ :: r => r
  | S k', x :: r => x :: remove_at k' r
  end.

Lemma insert_at_length {A} k (v : A) l : length (insert_at k v l) = S (length l).
Proof. revert k; induction l as [|x r IH]; intros [|k]; cbn; auto. Qed.

Lemma nth_insert_at_eq {A} k (v d : A) l : (k <= length l)%nat -> nth k (insert_at k v l) d = v.
Proof.
  revert k; induction l as [|x r IH]; intros [|k] H; cbn in *; auto; try lia.
  apply IH; lia.
Qed.

Lemma nth_insert_at_lt {A} j k (v d : A) l : (j < k)%nat -> (k <= length l)%nat -> nth j (insert_at k v l) d = nth j l d.
Proof.
  revert j k; induction l as [|x r IH]; intros j [|k] Hj Hk; cbn in *; try lia.
  destruct j as [|j]; [reflexivity|]. apply IH; lia.
Qed.

Lemma remove_insert_at {A} k (v : A) l : (k <= length l)%nat -> remove_at k (insert_at k v l) = l.
Proof.
  revert k; induction l as [|x r IH]; intros [|k] H; cbn in *; auto; try lia.
  f_equal. apply IH; lia.
Qed.

(* positions strictly ascending and each valid at the moment of its insertion: the i-th key is at most (free inputs + i) *)
Fixpoint valid_keys (n : nat) (prev : option nat) (ks : list nat) : Prop :=
  match ks with
  | [] => True
  | k :: r => (match prev with Some p => (p < k)%nat | None => True end) /\ (k <= n)%nat /\ valid_keys (S n) (Some k) r
  end.

Definition keys (fx : list (Z * Z)) : list nat := map (fun kv => Z.to_nat (fst kv)) fx.

Lemma fill_tab_cons kv fx x : fill_tab (kv :: fx) x = fill_tab fx (insert_at (Z.to_nat (fst kv)) (snd kv) x).
Proof. reflexivity. Qed.

Theorem fill_tab_length fx x : length (fill_tab fx x) = (length fx + length x)%nat.
Proof.
  revert x; induction fx as [|kv fx IH]; intros x; [reflexivity|].
  rewrite fill_tab_cons, IH, insert_at_length. cbn. lia.
Qed.

(* later insertions (at larger positions) do not move what is already in front of them *)
Lemma fill_tab_keeps_front fx x p j d :
  valid_keys (length x) (Some p) (keys fx) -> (j <= p)%nat -> nth j (fill_tab fx x) d = nth j x d.
Proof.
  revert x p; induction fx as [|kv fx IH]; intros x p Hv Hj; [reflexivity|].
  cbn [keys map valid_keys] in Hv. destruct Hv as [Hlt [Hle Hv]].
  rewrite fill_tab_cons. rewrite (IH _ (Z.to_nat (fst kv))).
  - apply nth_insert_at_lt; lia.
  - rewrite insert_at_length. exact Hv.
  - lia.
Qed.

Theorem fill_tab_fixed_in_place fx x prev d :
  valid_keys (length x) prev (keys fx) ->
  forall kv, In kv fx -> nth (Z.to_nat (fst kv)) (fill_tab fx x) d = snd kv.
Proof.
  revert x prev; induction fx as [|kv0 fx IH]; intros x prev Hv kv Hin; [destruct Hin|].
  cbn [keys map valid_keys] in Hv. destruct Hv as [_ [Hle Hv]].
  rewrite fill_tab_cons. destruct Hin as [->|Hin].
  - rewrite (fill_tab_keeps_front fx _ (Z.to_nat (fst kv)) _ d).
    + now apply nth_insert_at_eq.
    + rewrite insert_at_length. exact Hv.
    + lia.
  - apply (IH _ (Some (Z.to_nat (fst kv0)))); [rewrite insert_at_length; exact Hv | exact Hin].
Qed.

(* taking the fixed positions out again, last first, gives back the free inputs in their order *)
Theorem fill_tab_free_inputs_in_order fx x prev :
  valid_keys (length x) prev (keys fx) ->
  fold_left (fun acc k => remove_at k acc) (rev (keys fx)) (fill_tab fx x) = x.
Proof.
  revert x prev; induction fx as [|kv fx IH]; intros x prev Hv; [reflexivity|].
  cbn [keys map valid_keys] in Hv. destruct Hv as [_ [Hle Hv]].
  rewrite fill_tab_cons. cbn [keys map rev]. rewrite fold_left_app. cbn [fold_left].
  fold (keys fx). rewrite (IH _ (Some (Z.to_nat (fst kv)))).
  - now apply remove_insert_at.
  - rewrite insert_at_length. exact Hv.
Qed.

(* non-vacuity and a reading aid: inputs (a, b, c) with positions 1 and 3 fixed *)
Example fill_tab_example :
  valid_keys 3 None (keys [(1, 70); (3, 90)]%Z) /\ fill_tab [(1, 70); (3, 90)]%Z [10; 20; 30]%Z = [10; 70; 20; 90; 30]%Z.
Proof. split; [cbn; lia | reflexivity]. Qed.

(* the order of the table matters for the model: this is why the check feeds the implementation dictionaries in arbitrary key order
   and the model the table sorted by position (the implementation must not depend on dictionary order) *)
Example fill_tab_order_matters : fill_tab [(3, 90); (1, 70)]%Z [10; 20; 30]%Z <> fill_tab [(1, 70); (3, 90)]%Z [10; 20; 30]%Z.
Proof. vm_compute. discriminate. Qed.

Print Assumptions fill_tab_length.
Print Assumptions fill_tab_fixed_in_place.
Print Assumptions fill_tab_free_inputs_in_order.
