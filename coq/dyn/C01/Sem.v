(* Semantics of transform expressions and generic lemmas about the prelude primitives.
   (depends only on GW.Base.Py; compiled per run next to the regenerated Gen_pipeline.v) *)
From Coq Require Import ZArith List Bool Lia ZifyBool.
From GW Require Import Base.Py.
Import ListNotations.
Local Open Scope Z_scope.

Section Sem.
  Variable V : Type.
  Variable den : Z -> V -> V.          (* what leaf model i computes            (astropy) *)
  Variable den_inv : Z -> V -> V.      (* what its .inverse computes            (astropy) *)
  Variable fill : list (Z * Z) -> V -> V.   (* fix_inputs: re-insert the fixed inputs (astropy) *)

  Fixpoint eval (e : texpr) (x : V) : V :=
    match e with
    | Leaf i _ => den i x
    | LeafInv i => den_inv i x
    | Pipe a b => eval b (eval a x)
    | FixIn e fx => eval e (fill fx x)
    end.

  Definition chain (ms : list model) (x : V) : V := fold_left (fun v m => eval (te m) v) ms x.

  Lemma reduce_from_spec : forall ms acc,
    exists m, reduce_from (Some acc) (map Some ms) = Ok (Some m) /\
              forall x, eval (te m) x = chain ms (eval (te acc) x).
  Proof.
    induction ms as [|b ms IH]; intros acc; cbn [map reduce_from].
    - exists acc. split; [reflexivity|]. intros x. reflexivity.
    - cbn [py_or bind]. destruct (IH {| te := Pipe (te acc) (te b); mbox := None |}) as [m [H1 H2]].
      exists m. split; [exact H1|]. intros x. rewrite H2. reflexivity.
  Qed.

  Lemma reduce_pipe_spec : forall a ms,
    exists m, reduce_pipe (map Some (a :: ms)) = Ok (Some m) /\ forall x, eval (te m) x = chain (a :: ms) x.
  Proof.
    intros a ms. cbn [map reduce_pipe]. destruct (reduce_from_spec ms a) as [m [H1 H2]].
    exists m. split; [exact H1|]. intros x. rewrite H2. reflexivity.
  Qed.
End Sem.

Lemma bind_ret {A} (m : res A) : (do x <- m; Ok x) = m.
Proof. destruct m; reflexivity. Qed.
Lemma mapM_ext {A B} (f g : A -> res B) l : (forall x, f x = g x) -> mapM f l = mapM g l.
Proof. intros H. induction l as [|x l IH]; cbn [mapM]; [reflexivity|]. now rewrite H, IH. Qed.

(* ---------- index lookup ------------------------------------------------------- *)
Fixpoint index_of (n : Z) (names : list Z) (k : Z) : option Z :=
  match names with [] => None | m :: r => if m =? n then Some k else index_of n r (k + 1) end.

Lemma find_index_names : forall names n k,
  find_index fref_eqb (map FStr names) (FStr n) k =
  match index_of n names k with Some i => Ok i | None => Err ValueError end.
Proof.
  induction names as [|m r IH]; intros n k; cbn; [reflexivity|].
  destruct (m =? n); [reflexivity|apply IH].
Qed.

Lemma index_of_nth : forall names k0 (i : nat) d,
  NoDup names -> (i < length names)%nat -> index_of (nth i names d) names k0 = Some (k0 + Z.of_nat i).
Proof.
  induction names as [|m r IH]; intros k0 i d Hnd Hi; cbn in Hi; [lia|].
  inversion Hnd as [|? ? Hnotin Hnd']; subst.
  destruct i as [|i]; cbn [nth index_of].
  - rewrite Z.eqb_refl. f_equal. lia.
  - destruct (m =? nth i r d) eqn:E.
    + apply Z.eqb_eq in E. exfalso. apply Hnotin. rewrite E. apply nth_In. lia.
    + rewrite IH by (try assumption; lia). f_equal. lia.
Qed.

Lemma index_of_none : forall names n k, ~ In n names -> index_of n names k = None.
Proof.
  induction names as [|m r IH]; intros n k H; cbn; [reflexivity|].
  destruct (m =? n) eqn:E; [apply Z.eqb_eq in E; subst; exfalso; apply H; now left|].
  apply IH. intros H'. apply H. now right.
Qed.

(* ---------- slices ---------------------------------------------------------------- *)
Lemma py_slice_nat {A} (l : list A) (i j : nat) : (i <= j)%nat -> (j <= length l)%nat ->
  py_slice l (Z.of_nat i) (Z.of_nat j) = firstn (j - i) (skipn i l).
Proof.
  intros Hij Hj. unfold py_slice, clampi, zlen.
  destruct (Z.of_nat i <? 0) eqn:E1; [lia|]. destruct (Z.of_nat j <? 0) eqn:E2; [lia|].
  rewrite E1, E2.
  destruct (Z.of_nat (length l) <? Z.of_nat i) eqn:E3; [lia|].
  destruct (Z.of_nat (length l) <? Z.of_nat j) eqn:E4; [lia|].
  rewrite <- Nat2Z.inj_sub by lia. now rewrite !Nat2Z.id.
Qed.

Lemma clampi_nonneg n i : 0 <= i <= n -> clampi n i = i.
Proof. intros H. unfold clampi. destruct (i <? 0) eqn:E1; [lia|]. rewrite E1. destruct (n <? i) eqn:E2; lia. Qed.
Lemma clampi_m1 n : 1 <= n -> clampi n (-1) = n - 1.
Proof.
  intros H. unfold clampi. replace (-1 <? 0) with true by reflexivity.
  destruct (-1 + n <? 0) eqn:E1; [lia|]. destruct (n <? -1 + n) eqn:E2; lia.
Qed.

Lemma py_slice_to_m1 {A} (l : list A) : py_slice_to l (-1) = removelast l.
Proof.
  destruct l as [|a l]; [reflexivity|].
  unfold py_slice_to, py_slice, zlen.
  rewrite (clampi_nonneg _ 0) by (cbn [length]; lia). rewrite clampi_m1 by (cbn [length]; lia).
  cbn [Z.to_nat skipn].
  replace (Z.of_nat (length (a :: l)) - 1 - 0) with (Z.of_nat (length l)) by (cbn [length]; lia).
  rewrite Nat2Z.id. symmetry. apply removelast_firstn_len.
Qed.

(* ---------- inverse expressions really invert (C02 core) ----------------------------- *)
Section Inverse.
  Variable V : Type.
  Variables (den den_inv : Z -> V -> V) (fill : list (Z * Z) -> V -> V).
  Hypothesis inv_l : forall i x, den_inv i (den i x) = x.      (* astropy: leaf.inverse undoes leaf *)
  Hypothesis inv_r : forall i x, den i (den_inv i x) = x.

  Lemma texpr_inverse_sound : forall e e', texpr_inverse e = Ok e' ->
    (forall x, eval V den den_inv fill e' (eval V den den_inv fill e x) = x) /\
    (forall x, eval V den den_inv fill e (eval V den den_inv fill e' x) = x) /\
    texpr_inverse e' = Ok e.
  Proof.
    induction e as [i [|]|i|a IHa b IHb|e IHe fx]; intros e' H; cbn [texpr_inverse] in H; try discriminate.
    - inversion H; subst. cbn. repeat split; auto.
    - inversion H; subst. cbn. repeat split; auto.
    - destruct (texpr_inverse b) as [ib|] eqn:Eb; [|discriminate]. cbn [bind] in H.
      destruct (texpr_inverse a) as [ia|] eqn:Ea; [|discriminate]. cbn [bind] in H.
      inversion H; subst.
      destruct (IHa ia eq_refl) as [A1 [A2 A3]]. destruct (IHb ib eq_refl) as [B1 [B2 B3]].
      cbn [eval texpr_inverse]. rewrite A3, B3. cbn [bind].
      repeat split; intros x; [rewrite B1, A1 | rewrite A2, B2]; reflexivity.
  Qed.
End Inverse.

(* ---------- executable denotation used by the correspondence cases --------------------- *)
(* leaf i acts on integer points: out[k] = sign[k] * x[perm[k]] + off[k] *)
(* lcustom: a user-supplied inverse (itself an affine leaf), honoured as given *)
Record leafdef := { lperm : list nat; lsign : list Z; loff : list Z; lcustom : option (list nat * list Z * list Z) }.
Definition apply_leaf (d : leafdef) (x : list Z) : list Z :=
  map (fun pso => match pso with (p, s, o) => s * nth p x 0 + o end)
      (combine (combine (lperm d) (lsign d)) (loff d)).
Fixpoint inv_perm_at (perm : list nat) (k : nat) (j : nat) : nat :=
  match perm with [] => 0%nat | p :: r => if Nat.eqb p k then j else inv_perm_at r k (S j) end.
(* inverse: x[perm[k]] = sign[k] * (y[k] - off[k]) *)
Definition apply_leaf_inv (d : leafdef) (y : list Z) : list Z :=
  map (fun k => let j := inv_perm_at (lperm d) k 0 in nth j (lsign d) 1 * (nth j y 0 - nth j (loff d) 0))
      (seq 0 (length (lperm d))).
Definition den_tab (tab : list leafdef) (i : Z) (x : list Z) : list Z :=
  apply_leaf (nth (Z.to_nat i) tab {| lperm := []; lsign := []; loff := []; lcustom := None |}) x.
Definition den_inv_tab (tab : list leafdef) (i : Z) (y : list Z) : list Z :=
  let d := nth (Z.to_nat i) tab {| lperm := []; lsign := []; loff := []; lcustom := None |} in
  match lcustom d with
  | Some (p, s, o) => apply_leaf {| lperm := p; lsign := s; loff := o; lcustom := None |} y
  | None => apply_leaf_inv d y
  end.
(* fix_inputs {index: value}: re-insert fixed values at their input positions *)
Fixpoint insert_at {A} (k : nat) (v : A) (l : list A) : list A :=
  match k, l with O, _ => v :: l | S k', x :: r => x :: insert_at k' v r | S _, [] => [v] end.
Definition fill_tab (fx : list (Z * Z)) (x : list Z) : list Z :=
  fold_left (fun acc kv => insert_at (Z.to_nat (fst kv)) (snd kv) acc) fx x.

Inductive expected := RNone | RErr (e : err) | RVal (v : list Z).
Definition list_eqb (a b : list Z) : bool :=
  (length a =? length b)%nat && forallb (fun xy => fst xy =? snd xy) (combine a b).
Definition agrees (tab : list leafdef) (r : res (option model)) (x : list Z) (e : expected) : bool :=
  match r, e with
  | Ok None, RNone => true
  | Ok (Some m), RVal v => list_eqb (eval (list Z) (den_tab tab) (den_inv_tab tab) fill_tab (te m) x) v
  | Err a, RErr b => err_eqb a b
  | _, _ => false
  end.
