(* C01/C02 — theorems about the Gallina code REGENERATED from gwcs/wcs.py (Gen_pipeline.v). *)
From Coq Require Import ZArith List Bool Lia ZifyBool.
From GW Require Import Base.Py.
From WC01 Require Import Gen_pipeline Sem.
Import ListNotations.
Local Open Scope Z_scope.

Definition names (w : wcs) : list Z := map (fun st => fname (step_frame st)) (pipeline w).
Definition wf (w : wcs) : Prop := NoDup (names w).

Lemma frame_names_norm (p : list step) :
  map (fun st => if is_str (step_frame st) then step_frame st else attr_name (step_frame st)) p =
  map FStr (map (fun st => fname (step_frame st)) p).
Proof.
  rewrite map_map. apply map_ext. intros st. destruct (step_frame st); reflexivity.
Qed.

(* frame lookup depends only on the frame's name: position of the name, or CoordinateFrameError *)
Lemma gfi_spec (w : wcs) (f : fref) :
  m_get_frame_index w f =
  match index_of (fname f) (names w) 0 with Some k => Ok k | None => Err CoordinateFrameError end.
Proof.
  unfold m_get_frame_index, names, py_index_fref.
  destruct f as [n|n i]; cbn [is_frame_obj attr_name fname];
    rewrite frame_names_norm, find_index_names;
    destruct (index_of n _ 0); reflexivity.
Qed.

Lemma gfi_at (w : wcs) (f : fref) (i : nat) :
  wf w -> (i < length (pipeline w))%nat -> fname f = nth i (names w) 0 ->
  m_get_frame_index w f = Ok (Z.of_nat i).
Proof.
  intros Hwf Hi Hf. rewrite gfi_spec, Hf.
  rewrite index_of_nth by (try assumption; unfold names; now rewrite map_length). reflexivity.
Qed.

Lemma gfi_unknown (w : wcs) (f : fref) :
  ~ In (fname f) (names w) -> m_get_frame_index w f = Err CoordinateFrameError.
Proof. intros H. rewrite gfi_spec, index_of_none by assumption. reflexivity. Qed.

Section WithSem.
  Variable V : Type.
  Variables (den den_inv : Z -> V -> V) (fill : list (Z * Z) -> V -> V).
  Notation eval := (eval V den den_inv fill).
  Notation chain := (chain V den den_inv fill).

  (* __call__ evaluates forward_transform: the steps' transforms applied in pipeline order *)
  Theorem forward_is_chain (w : wcs) a ms :
    map step_transform (removelast (pipeline w)) = map Some (a :: ms) ->
    exists m, m_forward_transform w = Ok (Some m) /\ forall x, eval (te m) x = chain (a :: ms) x.
  Proof.
    intros H. unfold m_forward_transform.
    destruct (pipeline w) as [|s0 p] eqn:Ep; [discriminate H|]. cbn [truthy_list].
    rewrite py_slice_to_m1.
    change (map (fun v_step : step => step_transform v_step)) with (map step_transform). rewrite H.
    destruct (reduce_pipe_spec V den den_inv fill a ms) as [m [H1 H2]].
    exists m. rewrite H1. split; [reflexivity|exact H2].
  Qed.

  (* downstream: the composition of the intervening step transforms *)
  Theorem get_transform_down (w : wcs) (f g : fref) (i j : nat) a ms :
    wf w -> (i < j)%nat -> (j < length (pipeline w))%nat ->
    fname f = nth i (names w) 0 -> fname g = nth j (names w) 0 ->
    map step_transform (firstn (j - i) (skipn i (pipeline w))) = map Some (a :: ms) ->
    exists m, m_get_transform w f g = Ok (Some m) /\ forall x, eval (te m) x = chain (a :: ms) x.
  Proof.
    intros Hwf Hij Hj Hf Hg Hts. unfold m_get_transform.
    destruct (pipeline w) as [|s0 p] eqn:Ep; [cbn in Hj; lia|]. cbn [truthy_list negb].
    rewrite <- Ep in *.
    rewrite (gfi_at w f i) by (try assumption; lia). cbn [bind].
    rewrite (gfi_at w g j) by (try assumption; lia). cbn [bind].
    replace (Z.of_nat j <? Z.of_nat i) with false by lia.
    replace (Z.of_nat j =? Z.of_nat i) with false by lia.
    rewrite py_slice_nat by lia.
    change (map (fun v_step : step => step_transform v_step)) with (map step_transform). rewrite Hts.
    destruct (reduce_pipe_spec V den den_inv fill a ms) as [m [H1 H2]].
    exists m. rewrite H1. split; [reflexivity|exact H2].
  Qed.

  (* upstream: the inverses of the intervening transforms, in reverse order *)
  Theorem get_transform_up (w : wcs) (f g : fref) (i j : nat) ts a ims :
    wf w -> (j < i)%nat -> (i < length (pipeline w))%nat ->
    fname f = nth i (names w) 0 -> fname g = nth j (names w) 0 ->
    map step_transform (firstn (i - j) (skipn j (pipeline w))) = ts ->
    mapM attr_inverse (rev ts) = Ok (map Some (a :: ims)) ->
    exists m, m_get_transform w f g = Ok (Some m) /\ forall x, eval (te m) x = chain (a :: ims) x.
  Proof.
    intros Hwf Hij Hi Hf Hg Hts Hinv. unfold m_get_transform.
    destruct (pipeline w) as [|s0 p] eqn:Ep; [cbn in Hi; lia|]. cbn [truthy_list negb].
    rewrite <- Ep in *.
    rewrite (gfi_at w f i) by (try assumption; lia). cbn [bind].
    rewrite (gfi_at w g j) by (try assumption; lia). cbn [bind].
    replace (Z.of_nat j <? Z.of_nat i) with true by lia.
    rewrite py_slice_nat by lia.
    change (map (fun v_step : step => step_transform v_step)) with (map step_transform). rewrite Hts.
    replace (mapM (fun v_tr => do inverse_103 <- attr_inverse v_tr; Ok inverse_103) (rev ts))
      with (mapM attr_inverse (rev ts)).
    2:{ apply mapM_ext. intros x. symmetry. apply bind_ret. }
    rewrite Hinv. cbn [bind].
    destruct (reduce_pipe_spec V den den_inv fill a ims) as [m [H1 H2]].
    exists m. rewrite H1. split; [reflexivity|exact H2].
  Qed.
End WithSem.

(* a frame to itself: no transform *)
Theorem get_transform_self (w : wcs) (f g : fref) (i : nat) :
  wf w -> (i < length (pipeline w))%nat ->
  fname f = nth i (names w) 0 -> fname g = nth i (names w) 0 ->
  m_get_transform w f g = Ok None.
Proof.
  intros Hwf Hi Hf Hg. unfold m_get_transform.
  destruct (pipeline w) as [|s0 p] eqn:Ep; [cbn in Hi; lia|]. cbn [truthy_list negb].
  rewrite <- Ep in *.
  rewrite (gfi_at w f i), (gfi_at w g i) by assumption. cbn [bind].
  replace (Z.of_nat i <? Z.of_nat i) with false by lia.
  now rewrite Z.eqb_refl.
Qed.

(* a frame that is not in the pipeline is an error, in either position *)
Theorem get_transform_unknown_from (w : wcs) (f g : fref) :
  pipeline w <> [] -> ~ In (fname f) (names w) -> m_get_transform w f g = Err CoordinateFrameError.
Proof.
  intros Hp Hf. unfold m_get_transform.
  destruct (pipeline w) as [|s0 p] eqn:Ep; [congruence|]. cbn [truthy_list negb]. rewrite <- Ep in *.
  rewrite gfi_unknown by assumption. reflexivity.
Qed.

Theorem get_transform_unknown_to (w : wcs) (f g : fref) (i : nat) :
  wf w -> (i < length (pipeline w))%nat -> fname f = nth i (names w) 0 ->
  ~ In (fname g) (names w) -> m_get_transform w f g = Err CoordinateFrameError.
Proof.
  intros Hwf Hi Hf Hg. unfold m_get_transform.
  destruct (pipeline w) as [|s0 p] eqn:Ep; [cbn in Hi; lia|]. cbn [truthy_list negb]. rewrite <- Ep in *.
  rewrite (gfi_at w f i) by assumption. cbn [bind].
  rewrite gfi_unknown by assumption. reflexivity.
Qed.

(* lookup by frame object and by name agree *)
Theorem lookup_obj_eq_name (w : wcs) n id g :
  m_get_transform w (FObj n id) g = m_get_transform w (FStr n) g /\
  m_get_transform w g (FObj n id) = m_get_transform w g (FStr n).
Proof.
  unfold m_get_transform. rewrite !gfi_spec. cbn [fname]. split; reflexivity.
Qed.

(* available_frames lists the frame names in pipeline order *)
Theorem available_frames_spec (w : wcs) : pipeline w <> [] ->
  m_available_frames w = Ok (Some (map FStr (names w))).
Proof.
  intros Hp. unfold m_available_frames. destruct (pipeline w) eqn:Ep; [congruence|]. cbn [truthy_list].
  rewrite frame_names_norm. unfold names. now rewrite Ep.
Qed.

(* ---------- fix_inputs (hand model of WCS.fix_inputs; astropy's fix_inputs = FixIn) --------------- *)
Definition fix_inputs_model (w : wcs) (fx : list (Z * Z)) : res wcs :=
  match pipeline w with
  | s0 :: rest =>
      match step_transform s0 with
      | Some m => Ok (mk_wcs (mk_step (step_frame s0) (Some {| te := FixIn (te m) fx; mbox := None |}) :: rest) (attrs w))
      | None => Err OtherError
      end
  | [] => Err IndexError
  end.

Theorem fix_inputs_eval V den den_inv fill (w : wcs) fx a ms s0 rest :
  pipeline w = s0 :: rest -> rest <> [] ->
  map step_transform (removelast (pipeline w)) = map Some (a :: ms) ->
  exists w' m m', fix_inputs_model w fx = Ok w' /\
    m_forward_transform w = Ok (Some m) /\ m_forward_transform w' = Ok (Some m') /\
    forall x, eval V den den_inv fill (te m') x = eval V den den_inv fill (te m) (fill fx x).
Proof.
  intros Hp Hrest Hts. unfold fix_inputs_model. rewrite Hp.
  assert (Hs0 : step_transform s0 = Some a).
  { rewrite Hp in Hts. destruct rest as [|s1 rest']; [congruence|]. cbn in Hts. now inversion Hts. }
  rewrite Hs0.
  set (w' := mk_wcs (mk_step (step_frame s0) (Some {| te := FixIn (te a) fx; mbox := None |}) :: rest) (attrs w)).
  destruct (forward_is_chain V den den_inv fill w a ms Hts) as [m [Hm1 Hm2]].
  assert (Hts' : map step_transform (removelast (pipeline w')) = map Some ({| te := FixIn (te a) fx; mbox := None |} :: ms)).
  { subst w'. cbn [pipeline mk_wcs]. rewrite Hp in Hts. destruct rest as [|s1 rest']; [congruence|].
    cbn [removelast map] in *. cbn [mk_step step_transform]. inversion Hts as [[H0 H1]]. now rewrite H1. }
  destruct (forward_is_chain V den den_inv fill w' _ ms Hts') as [m' [Hm1' Hm2']].
  exists w', m, m'. repeat split; try assumption.
  intros x. rewrite Hm2', Hm2. reflexivity.
Qed.
