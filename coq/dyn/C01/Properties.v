(* C01 — property theorems over the code regenerated from gwcs/wcs.py this run. *)
From Coq Require Import ZArith List Bool.
From GW Require Import Base.Py.
From WC01 Require Import Gen_pipeline Sem Proofs.
Import ListNotations.
Local Open Scope Z_scope.

Theorem C01_forward_is_chain : forall V den den_inv fill (w : wcs) a ms,
  map step_transform (removelast (pipeline w)) = map Some (a :: ms) ->
  exists m, m_forward_transform w = Ok (Some m) /\
            forall x, eval V den den_inv fill (te m) x = chain V den den_inv fill (a :: ms) x.
Proof. exact forward_is_chain. Qed.

Theorem C01_get_transform_down : forall V den den_inv fill (w : wcs) (f g : fref) (i j : nat) a ms,
  wf w -> (i < j)%nat -> (j < length (pipeline w))%nat ->
  fname f = nth i (names w) 0 -> fname g = nth j (names w) 0 ->
  map step_transform (firstn (j - i) (skipn i (pipeline w))) = map Some (a :: ms) ->
  exists m, m_get_transform w f g = Ok (Some m) /\
            forall x, eval V den den_inv fill (te m) x = chain V den den_inv fill (a :: ms) x.
Proof. exact get_transform_down. Qed.

Theorem C01_get_transform_up : forall V den den_inv fill (w : wcs) (f g : fref) (i j : nat) ts a ims,
  wf w -> (j < i)%nat -> (i < length (pipeline w))%nat ->
  fname f = nth i (names w) 0 -> fname g = nth j (names w) 0 ->
  map step_transform (firstn (i - j) (skipn j (pipeline w))) = ts ->
  mapM attr_inverse (rev ts) = Ok (map Some (a :: ims)) ->
  exists m, m_get_transform w f g = Ok (Some m) /\
            forall x, eval V den den_inv fill (te m) x = chain V den den_inv fill (a :: ims) x.
Proof. exact get_transform_up. Qed.

Theorem C01_inverse_sound : forall V den den_inv fill,
  (forall i x, den_inv i (den i x) = x) -> (forall i x, den i (den_inv i x) = x) ->
  forall e e', texpr_inverse e = Ok e' ->
    (forall x, eval V den den_inv fill e' (eval V den den_inv fill e x) = x) /\
    (forall x, eval V den den_inv fill e (eval V den den_inv fill e' x) = x) /\
    texpr_inverse e' = Ok e.
Proof. exact texpr_inverse_sound. Qed.

Theorem C01_get_transform_self : forall (w : wcs) (f g : fref) (i : nat),
  wf w -> (i < length (pipeline w))%nat ->
  fname f = nth i (names w) 0 -> fname g = nth i (names w) 0 -> m_get_transform w f g = Ok None.
Proof. exact get_transform_self. Qed.

Theorem C01_unknown_from : forall (w : wcs) (f g : fref),
  pipeline w <> [] -> ~ In (fname f) (names w) -> m_get_transform w f g = Err CoordinateFrameError.
Proof. exact get_transform_unknown_from. Qed.

Theorem C01_unknown_to : forall (w : wcs) (f g : fref) (i : nat),
  wf w -> (i < length (pipeline w))%nat -> fname f = nth i (names w) 0 ->
  ~ In (fname g) (names w) -> m_get_transform w f g = Err CoordinateFrameError.
Proof. exact get_transform_unknown_to. Qed.

Theorem C01_lookup_obj_eq_name : forall (w : wcs) n id g,
  m_get_transform w (FObj n id) g = m_get_transform w (FStr n) g /\
  m_get_transform w g (FObj n id) = m_get_transform w g (FStr n).
Proof. exact lookup_obj_eq_name. Qed.

Theorem C01_available_frames : forall (w : wcs), pipeline w <> [] ->
  m_available_frames w = Ok (Some (map FStr (names w))).
Proof. exact available_frames_spec. Qed.

Theorem C01_fix_inputs_eval : forall V den den_inv fill (w : wcs) fx a ms s0 rest,
  pipeline w = s0 :: rest -> rest <> [] ->
  map step_transform (removelast (pipeline w)) = map Some (a :: ms) ->
  exists w' m m', fix_inputs_model w fx = Ok w' /\
    m_forward_transform w = Ok (Some m) /\ m_forward_transform w' = Ok (Some m') /\
    forall x, eval V den den_inv fill (te m') x = eval V den den_inv fill (te m) (fill fx x).
Proof. exact fix_inputs_eval. Qed.

(* non-vacuity: a 4-step pipeline with a bare-name inner frame meets the premises *)
Example C01_nonvacuous :
  let L i := Some {| te := Leaf i true; mbox := None |} in
  let w := (mk_wcs [mk_step (FObj 1 11) (L 0); mk_step (FStr 2) (L 1); mk_step (FObj 3 33) (L 2); mk_step (FObj 4 44) None] []) in
  wf w /\ m_get_transform w (FStr 1) (FObj 3 33) =
          Ok (Some {| te := Pipe (Leaf 0 true) (Leaf 1 true); mbox := None |}) /\
  m_get_transform w (FObj 4 44) (FStr 2) =
          Ok (Some {| te := Pipe (LeafInv 2) (LeafInv 1); mbox := None |}).
Proof.
  cbn. repeat split; try reflexivity. unfold wf, names. cbn.
  repeat constructor; cbn; intuition discriminate.
Qed.

Print Assumptions C01_forward_is_chain.
Print Assumptions C01_get_transform_down.
Print Assumptions C01_get_transform_up.
Print Assumptions C01_inverse_sound.
Print Assumptions C01_get_transform_self.
Print Assumptions C01_unknown_from.
Print Assumptions C01_unknown_to.
Print Assumptions C01_lookup_obj_eq_name.
Print Assumptions C01_available_frames.
Print Assumptions C01_fix_inputs_eval.
Print Assumptions C01_nonvacuous.
