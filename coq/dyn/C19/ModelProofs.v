(* C19 — identities of the analytic models, proved about the real-number functions REGENERATED from
   gwcs/geometry.py and gwcs/spectroscopy.py (Gen_models.v). *)
From Coq Require Import Reals Lra Lia ZArith.
From GW Require Import C19.RMath.
From WC19 Require Import Gen_models.
Local Open Scope R_scope.

Lemma sc1 a : sin a * sin a + cos a * cos a = 1.
Proof. pose proof (sin2_cos2 a) as H. unfold Rsqr in H. exact H. Qed.

(* spherical -> cartesian lands on the unit sphere *)
Theorem C19_s2c_unit lon lat :
  let '(x, y, z) := r_SphericalToCartesian lon lat in x * x + y * y + z * z = 1.
Proof.
  unfold r_SphericalToCartesian. cbv beta iota.
  pose proof (sc1 (deg2rad lon)). pose proof (sc1 (deg2rad lat)).
  set (cl := cos (deg2rad lat)) in *. set (sl := sin (deg2rad lat)) in *.
  set (co := cos (deg2rad lon)) in *. set (so := sin (deg2rad lon)) in *.
  nra.
Qed.

(* direction cosines are normalised, the 4th output is the length *)
Theorem C19_dircos_unit x y z :
  let '(a, b, c, v) := r_ToDirectionCosines x y z in a * a + b * b + c * c = 1 /\ v * v = 1 + x * x + y * y /\ 0 < v.
Proof.
  unfold r_ToDirectionCosines. cbv beta iota.
  pose proof (pow2_ge_0 x) as Hx. pose proof (pow2_ge_0 y) as Hy.
  assert (Hpos : 0 < 1 + x ^ 2 + y ^ 2) by lra.
  set (v := sqrt (1 + x ^ 2 + y ^ 2)).
  assert (Hv : 0 < v) by (apply sqrt_lt_R0; exact Hpos).
  assert (Hvv : v * v = 1 + x ^ 2 + y ^ 2) by (unfold v; apply sqrt_sqrt; lra).
  repeat split; try assumption.
  - replace (x / v * (x / v) + y / v * (y / v) + 1 / v * (1 / v)) with ((x ^ 2 + y ^ 2 + 1) / (v * v)) by (field; lra).
    rewrite Hvv. field. lra.
  - rewrite Hvv. ring.
Qed.

(* the declared inverse undoes it on vectors with unit third component *)
Theorem C19_from_to_dircos x y z :
  let '(a, b, c, v) := r_ToDirectionCosines x y z in r_FromDirectionCosines a b c v = (x, y, 1).
Proof.
  unfold r_ToDirectionCosines, r_FromDirectionCosines. cbv beta iota.
  pose proof (pow2_ge_0 x) as Hx. pose proof (pow2_ge_0 y) as Hy.
  set (v := sqrt (1 + x ^ 2 + y ^ 2)).
  assert (Hv : 0 < v) by (apply sqrt_lt_R0; lra).
  f_equal; [f_equal|]; field; lra.
Qed.

(* grating equation: lambda * (d * m) = alpha_in + alpha_out *)
Theorem C19_grating_wavelength d m ain aout : d * m <> 0 ->
  r_WavelengthFromGratingEquation d m ain aout * (d * m) = ain + aout.
Proof.
  intros H. unfold r_WavelengthFromGratingEquation. field.
  split; intros E; apply H; rewrite E; ring.
Qed.

Theorem C19_grating_angles d m lam ain bin :
  let '(aout, bout, gout) := r_AnglesFromGratingEquation3D d m lam ain bin in
  aout = ain - d * m * lam /\ bout = - bin /\
  (0 <= 1 - aout * aout - bout * bout -> aout * aout + bout * bout + gout * gout = 1).
Proof.
  unfold r_AnglesFromGratingEquation3D. cbv beta iota. repeat split.
  - ring.
  - intros H. rewrite sqrt_sqrt; [ring|]. nra.
Qed.

(* Snell: n * alpha_out = alpha_in, n * beta_out = beta_in, unit triple *)
Theorem C19_snell n ain bin gin : n <> 0 ->
  let '(aout, bout, gout) := r_Snell3D n ain bin gin in
  n * aout = ain /\ n * bout = bin /\
  (0 <= 1 - aout * aout - bout * bout -> aout * aout + bout * bout + gout * gout = 1).
Proof.
  intros Hn. unfold r_Snell3D. cbv beta iota. repeat split.
  - field. exact Hn.
  - field. exact Hn.
  - intros H. rewrite sqrt_sqrt; [ring|]. nra.
Qed.

(* Sellmeier: n^2 = 1 + sum B_i lam^2 / (lam^2 - C_i) *)
Theorem C19_sellmeier_glass B1 B2 B3 C1 C2 C3 lam :
  let n := r_SellmeierGlass B1 B2 B3 C1 C2 C3 lam in
  let s := 1 + B1 * lam ^ 2 / (lam ^ 2 - C1) + B2 * lam ^ 2 / (lam ^ 2 - C2) + B3 * lam ^ 2 / (lam ^ 2 - C3) in
  0 <= s -> n * n = s.
Proof.
  unfold r_SellmeierGlass. cbv zeta. intros H. rewrite sqrt_sqrt; [reflexivity|exact H].
Qed.

(* Zemax: the regenerated function IS the published formula (transcribed here by hand) *)
Definition zemax_spec (T Tref Pref P B1 B2 B3 C1 C2 C3 D0 D1 D2 E0 E1 ltk lam : R) : R :=
  let t := T - IZR 5463 / IZR 20 (* 273.15 *) in let tref := Tref - IZR 5463 / IZR 20 in
  let dt := t - tref in
  let nref := 1 + (IZR 32164 / IZR 5 (* 6432.8 *) + 2949810 * lam ^ 2 / (146 * lam ^ 2 - 1) + 5540 * lam ^ 2 / (41 * lam ^ 2 - 1))
                  * (IZR 1 / IZR 100000000) in
  let nair_obs := 1 + (nref - 1) * P / (1 + (t - 15) * (IZR 6957 / IZR 2000000) (* 0.0034785 *)) in
  let nair_ref := 1 + (nref - 1) * Pref / (1 + (tref - 15) * (IZR 6957 / IZR 2000000)) in
  let lamrel := lam * nair_obs / nair_ref in
  let nrel := sqrt (1 + B1 * lamrel ^ 2 / (lamrel ^ 2 - C1) + B2 * lamrel ^ 2 / (lamrel ^ 2 - C2) + B3 * lamrel ^ 2 / (lamrel ^ 2 - C3)) in
  let nabs_ref := nrel * nair_ref in
  let delnabs := IZR 1 / IZR 2 * (nrel ^ 2 - 1) / nrel *
                 (D0 * dt + D1 * dt ^ 2 + D2 * dt ^ 3 + (E0 * dt + E1 * dt ^ 2) / (lamrel ^ 2 - ltk ^ 2)) in
  (nabs_ref + delnabs) / nair_obs.

Theorem C19_zemax_is_published_formula T Tref Pref P B1 B2 B3 C1 C2 C3 D0 D1 D2 E0 E1 ltk lam :
  r_SellmeierZemax B1 B2 B3 C1 C2 C3 D0 D1 D2 E0 E1 ltk P Pref Tref T lam =
  zemax_spec T Tref Pref P B1 B2 B3 C1 C2 C3 D0 D1 D2 E0 E1 ltk lam.
Proof. unfold r_SellmeierZemax, zemax_spec. cbv zeta. reflexivity. Qed.

(* latitude / longitude ranges of cartesian -> spherical *)
Lemma hypot_nonneg x y : 0 <= hypot x y.
Proof. unfold hypot. apply sqrt_pos. Qed.

Lemma rad2deg_bounds a lo hi : lo * PI / 180 <= a <= hi * PI / 180 -> lo <= rad2deg a <= hi.
Proof.
  intros [H1 H2]. unfold rad2deg. pose proof PI_RGT_0 as Hpi.
  assert (Hi : 0 < / PI) by now apply Rinv_0_lt_compat.
  split.
  - apply Rmult_le_reg_r with (r := PI); [lra|]. unfold Rdiv. rewrite Rmult_assoc, Rinv_l by lra. lra.
  - apply Rmult_le_reg_r with (r := PI); [lra|]. unfold Rdiv. rewrite Rmult_assoc, Rinv_l by lra. lra.
Qed.

Theorem C19_c2s_lat_range x y z :
  -90 <= snd (r_CartesianToSpherical_360 x y z) <= 90 /\ -90 <= snd (r_CartesianToSpherical_180 x y z) <= 90.
Proof.
  unfold r_CartesianToSpherical_360, r_CartesianToSpherical_180. cbn [snd].
  pose proof (atan2_nonneg_x z (hypot x y) (hypot_nonneg x y)) as H.
  split; apply rad2deg_bounds; lra.
Qed.

Lemma r_where_1 a b : r_where 1 a b = a.
Proof. unfold r_where. destruct (Req_EM_T 1 0) as [H|_]; [lra|reflexivity]. Qed.

Theorem C19_c2s_lon_range_360 x y z : 0 <= fst (r_CartesianToSpherical_360 x y z) < 360.
Proof.
  unfold r_CartesianToSpherical_360. cbn [fst]. unfold r_isfinite. rewrite r_where_1.
  apply fmod_range. lra.
Qed.

Theorem C19_c2s_lon_range_180 x y z : -180 <= fst (r_CartesianToSpherical_180 x y z) <= 180.
Proof.
  unfold r_CartesianToSpherical_180. cbn [fst]. unfold r_where.
  destruct (Req_EM_T _ 0).
  - apply rad2deg_bounds. pose proof (atan2_range y x). lra.
  - lra.
Qed.

Lemma fmod_0 m : fmod 0 m = 0.
Proof.
  unfold fmod. unfold Rdiv. rewrite Rmult_0_l. replace 0 with (INR 0) at 2 by reflexivity.
  rewrite Int_part_INR. simpl. ring.
Qed.

(* at the poles (x = y = 0) the longitude is 0, for both wrap settings *)
Theorem C19_c2s_pole_lon0 z :
  fst (r_CartesianToSpherical_360 0 0 z) = 0 /\ fst (r_CartesianToSpherical_180 0 0 z) = 0.
Proof.
  unfold r_CartesianToSpherical_360, r_CartesianToSpherical_180. cbn [fst].
  assert (Hh : hypot 0 0 = 0) by (unfold hypot; rewrite Rmult_0_l, Rplus_0_l; apply sqrt_0).
  rewrite Hh. unfold r_eq, r_isfinite. destruct (Req_EM_T 0 0) as [_|H]; [|exfalso; apply H; reflexivity].
  rewrite !r_where_1. replace (rad2deg (atan2 0 0) * 0) with 0 by ring. split; [apply fmod_0|reflexivity].
Qed.

Print Assumptions C19_s2c_unit.
Print Assumptions C19_dircos_unit.
Print Assumptions C19_from_to_dircos.
Print Assumptions C19_grating_wavelength.
Print Assumptions C19_grating_angles.
Print Assumptions C19_snell.
Print Assumptions C19_sellmeier_glass.
Print Assumptions C19_zemax_is_published_formula.
Print Assumptions C19_c2s_lat_range.
Print Assumptions C19_c2s_lon_range_360.
Print Assumptions C19_c2s_lon_range_180.
Print Assumptions C19_c2s_pole_lon0.
