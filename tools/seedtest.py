#!/usr/bin/env python3
"""tools/seedtest.py <Cxx> [--import-from /tmp/seed/Cxx] [--no-suite] [--tag b]

Confirms a seeded breaking change kept under /verif/seeded/<id>/ :
  1. scratch worktree of /repo HEAD (outside /repo and /verif), apply patch.diff
  2. existing suite still passes there (same failures as baseline), demo exits 1
  3. without the patch the demo exits 0
  4. apply the patch to /repo, run ./bin/check <id>, undo; record whether it was caught
Results are written into seeded/<id>/meta.json ("confirmed" block)."""
import json
import os
import shutil
import subprocess
import sys

ROOT = os.path.dirname(os.path.dirname(os.path.abspath(__file__)))
PY = "/venv/bin/python"
BASE_FAIL = {"gwcs/tests/test_extension.py::test_open_legacy_without_warning",
             "gwcs/tests/test_wcs.py::test_high_level_api"}


def sh(cmd, cwd=None, timeout=1800):
    p = subprocess.run(cmd, shell=True, cwd=cwd, capture_output=True, text=True, timeout=timeout)
    return p.returncode, p.stdout + p.stderr


def main():
    pid = sys.argv[1]
    args = sys.argv[2:]
    tag = args[args.index("--tag") + 1] if "--tag" in args else ""       # second-round seeds live in seeded/<id>_<tag>
    sname = pid + ("_" + tag if tag else "")
    sd = os.path.join(ROOT, "seeded", sname)
    os.makedirs(sd, exist_ok=True)
    if "--import-from" in args:
        src = args[args.index("--import-from") + 1]
        for a, b in (("seed_patch.diff", "patch.diff"), ("seed_demo.py", "demo.py"), ("seed_meta.json", "meta.json")):
            if os.path.exists(os.path.join(src, a)):
                shutil.copy(os.path.join(src, a), os.path.join(sd, b))
        if os.path.exists(os.path.join(src, "rebased.diff")):
            shutil.copy(os.path.join(src, "rebased.diff"), os.path.join(sd, "patch.diff"))
    patch = os.path.join(sd, "patch.diff")
    wt = f"/tmp/sw_{sname}"
    sh(f"git -C /repo worktree remove --force {wt}")
    shutil.rmtree(wt, ignore_errors=True)
    rc, out = sh(f"git -C /repo worktree add --detach {wt} HEAD")
    res = {}
    try:
        rc, out = sh(f"git apply {patch}", cwd=wt)
        res["patch_applies_to_repo_HEAD"] = (rc == 0)
        if rc != 0:
            print("PATCH DOES NOT APPLY:\n", out)
            return 2
        shutil.copy(os.path.join(sd, "demo.py"), os.path.join(wt, "seed_demo.py"))
        if "--no-suite" not in args:
            rc, out = sh(f"{PY} -m pytest -q -p no:cacheprovider --ignore=seed_demo.py 2>&1 | tail -6", cwd=wt)
            failed = {l.split()[1] for l in out.splitlines() if l.startswith("FAILED")}
            res["suite_with_change"] = out.strip().splitlines()[-1]
            res["suite_same_as_baseline"] = (failed == BASE_FAIL)
        rc1, out1 = sh(f"{PY} seed_demo.py", cwd=wt)
        res["demo_exit_with_change"] = rc1
        sh(f"git apply -R {patch}", cwd=wt)
        rc0, out0 = sh(f"{PY} seed_demo.py", cwd=wt)
        res["demo_exit_without_change"] = rc0
        if rc0 != 0:
            res["demo_output_without_change"] = out0[-600:]
    finally:
        sh(f"git -C /repo worktree remove --force {wt}")
        shutil.rmtree(wt, ignore_errors=True)
    # run our check against it
    rc, out = sh(f"git -C /repo apply {patch}")
    try:
        rc, out = sh(f"VERIF_EVIDENCE_DIR={ROOT}/.work/seed_evidence ./bin/check {pid} 2>&1 | grep -v conda", cwd=ROOT, timeout=3600)
        viol = [l for l in out.splitlines() if l.startswith("VIOLATION")]
        res["check_cmd"] = f"git -C /repo apply /verif/seeded/{sname}/patch.diff && ./bin/check {pid}; git -C /repo checkout -- ."
        res["check_caught"] = bool(viol)
        res["check_first_violation"] = (viol[0] + " | " + next((l.strip() for l in out.splitlines() if l.strip().startswith("what:")), "")) if viol else None
        res["check_tail"] = out.strip().splitlines()[-1] if out.strip() else ""
    finally:
        sh("git -C /repo checkout -- .")
        sh("git -C /repo clean -fdq -- gwcs")
    mp = os.path.join(sd, "meta.json")
    meta = json.load(open(mp)) if os.path.exists(mp) else {"property": pid}
    if "--no-suite" in args and isinstance(meta.get("confirmed"), dict):      # keep the suite verdict of the earlier full confirmation
        for k in ("suite_with_change", "suite_same_as_baseline"):
            if k in meta["confirmed"]:
                res.setdefault(k, meta["confirmed"][k])
    meta["confirmed"] = res
    json.dump(meta, open(mp, "w"), indent=1)
    print(json.dumps(res, indent=1))
    return 0


if __name__ == "__main__":
    sys.exit(main())
