#!/usr/bin/env python3
"""Regenerates /verif/MANIFEST.json from the table below (kept valid at all times)."""
import json
import os

ROOT = os.path.dirname(os.path.dirname(os.path.abspath(__file__)))
ALL = [f"C{i:02d}" for i in range(1, 21)]

TB = ("Coq 8.16.1 kernel (coqc full .vo; vm_compute; no native_compute); axioms per theorem as printed by "
      "Print Assumptions into the evidence file; hand-written or regenerated model tied to /repo by the "
      "correspondence run of this check (differential testing); Python harness/oracle in tools/checks; "
      "astropy/numpy/scipy/asdf behaviour modelled as Section hypotheses, see DESIGN.md section 6")

CHECKS = {
    "C14": dict(
        text="Machine-checked theorems (all polygons, canvases, label lists; no size bound) about an executable Gallina "
             "model of region.Polygon / from_vertices: cell-by-cell characterisation of scan, crop = fill on larger canvas, "
             "rows not reached / zero width unmarked, marked pixels lie between ceiled crossings, even-odd inside pixels are "
             "marked (under the ceil contract, proved for the exact routine and swept by vm_compute for the binary64 one), "
             "half-open AET rule, even crossings, last label wins, nearest-centre rounding. The model is tied to the code by "
             "comparing masks cell by cell on exhaustive lattice families and seeded random polygons.",
        ref="5 C14", technique="Coq proof over hand-written executable model + vm_compute correspondence with the implementation"),
    "C01": dict(
        text="Theorems (every pipeline length, every frame pair, any leaf denotation) about Gallina code REGENERATED on every run "
             "from gwcs/wcs.py by the fail-closed py2coq translator: forward_transform is the chain of step transforms; get_transform "
             "downstream = chain of the slice, upstream = inverses reversed, self = None, unknown frame = CoordinateFrameError in either "
             "position, lookup by object = by name; inverse expressions invert; fix_inputs (hand model) evaluates the original at the "
             "filled point, and the re-insertion table puts every fixed value at its own position and keeps the free inputs in order "
             "(FillTab.v). The regenerated code is also run inside Coq against the implementation on all frame pairs of generated pipelines.",
        ref="5 C01", technique="Coq proof over model regenerated from source by translator (py2coq) + vm_compute correspondence"),
    "C02": dict(
        text="Theorems over the regenerated forward_transform and a hand model of backward_transform: backward evaluates the step inverses "
             "in reverse order, both round trips are the identity whenever leaf inverses are inverses (hypothesis on astropy leaves), "
             "backward.inverse = forward, user inverses honoured. PARTIAL: floating-point accuracy of astropy projections is sampled (tested).",
        ref="5 C02", technique="Coq proof over translated + hand model, correspondence incl. in-place edits; numeric family tested"),
    "C07": dict(
        text="Theorems over set_transform / insert_transform / insert_frame REGENERATED from source into a state-carrying monad, and a hand "
             "model of the bounding_box setter: accepted edits produce exactly the edited step list and frame registrations; every rejected "
             "edit returns the entry state (all raises precede all writes); box kept by edits beyond the first step; names preserved. "
             "Op sequences (valid+invalid) are replayed on implementation and regenerated code, compared after every op.",
        ref="5 C07", technique="Coq proof over model regenerated from source by translator + op-sequence correspondence"),
    "C13": dict(
        text="Theorems over the index/shape wrappers REGENERATED from gwcs/api.py each run (array-index variants are the pixel variants "
             "reversed; world_to_array_index(_values) = toindex of the reversed inverse; array_shape = pixel_shape reversed after ANY "
             "history of assignments; a wrong-length shape is rejected by either setter with state unchanged, so the stored shape has one "
             "entry per pixel axis after ANY history) and over utils._toindex (nearest pixel "
             "centre, ties up, for every rational; binary64 instance swept on all 1/8 multiples |x|<=256). Regenerated code is run "
             "inside Coq against the implementation; dims/bounds are checked by a property oracle over WCS families. The correlation-matrix "
             "clause is a theorem (Separable.v: correlation_matrix_sound, by induction over compound transform expressions; a False entry means "
             "the world coordinate never changes with that pixel coordinate), its matrix model compared entry by entry, and its evaluation on "
             "integer-valued transforms exactly, with axis_correlation_matrix / forward evaluation of random compound transforms.",
        ref="5 C13", technique="Coq proof over model regenerated from source by translator + hand model of the separability matrix + vm_compute correspondence"),
    "C17": dict(
        text="Theorem ok_sound over an effect-skeleton language with an adversarial oracle (every branch, loop count and raising call): "
             "if every write to a global kind (numpy error state / warnings filters / print options) is under a context manager of that "
             "kind, every global is restored on every exit path. The skeleton of every function of wcs.py/wcstools.py is REGENERATED from "
             "source each run (intra-package calls inlined) and Coq computes the premise and instantiates the theorem for each public "
             "entry point. Fault enumeration on the implementation: a counting transform raises at its k-th evaluation for every k.",
        ref="5 C17", technique="Coq proof (induction on effect skeletons regenerated from source) + exhaustive crash-index fault enumeration"),
    "C08": dict(
        text="Theorem history_independent: for ANY interleaving of queries with cache-resetting edits, each answer equals that of a freshly "
             "built twin, and queries keep the pipeline. Its premises are Coq-computed obligations on the attribute write table REGENERATED "
             "from wcs.py+api.py each run (every edit transitively assigns _approx_inverse=None on every normally returning path; queries "
             "assign nothing but the cache; no query mutates in place an object obtained from the WCS (alias table) or an object the "
             "caller passed in (parameter table, may-alias through numpy's no-copy conversions)). Twin differential on the "
             "implementation incl. all [query; edit; query] pairs, mutable arguments compared before/after, separability-changing edits.",
        ref="5 C08", technique="Coq proof (invariant over histories) with premises computed on a source-derived write table + twin differential"),
    "C03": dict(
        text="Theorems over a hand model (IEEE binary64 comparisons via Coq primitive floats) of __call__'s defaults and box evaluation: "
             "mask_exact, mask_off_noop, no_box_noop, batch_pointwise, edge_inclusive for ALL doubles lo<=hi (closed interval), "
             "nan_not_outside; setter/getter order and rejection are proved on regenerated code in C07. Tied by AST pins and a bit-exact "
             "(float.hex) correspondence over exhaustive per-axis class products {inside, =lo, =hi, +-1 ulp, far, NaN, inf}.",
        ref="5 C03", technique="Coq proof over hand model with primitive floats + AST pins + bit-exact vm_compute correspondence"),
    "C04": dict(
        text="Theorems over a hand model of invert's routing, the solver's blanking tail and in_image: in_image_spec (correct on both "
             "paths), nonfinite_pixel_not_in_image, in_image_without_box, iterative_masks, masking_off_ignores_box; the full clause invert_masks_both_paths is stated, proved for a masking "
             "analytic path and REFUTED for the code as it stands (known finding). Tied by AST pins and bit-exact correspondence of the "
             "masking / in_image decisions computed in Coq.",
        ref="5 C04", technique="Coq proof over hand model (primitive floats) + refutation witness + AST pins + correspondence"),
    "C06": dict(
        text="Theorem elementwise_is_pointwise over an array IR (any batch length, any interpretation of the operators): an `evaluate` "
             "body without element-0 indexing computes on a batch the map of its scalar evaluation; split_concat_commutes. The IR of "
             "every model of geometry.py/spectroscopy.py is REGENERATED each run by the T1 translator and Coq computes the premise "
             "(forallb elementwise) per model; masked evaluation is pointwise by C03.batch_pointwise. A batch-vs-element oracle covers "
             "every entry point and package model over 5 shapes, permutations, partitions, memory layouts, NaN-containing batches.",
        ref="5 C06", technique="Coq proof (induction on IR regenerated from source) + batch-vs-element oracle on the implementation"),
    "C19": dict(
        text="Theorems over the REAL-NUMBER functions regenerated each run from the evaluate bodies (T1 translator): unit sphere, "
             "normalised direction cosines, from(to(v))=(x,y,1), grating equation and unit triples, Snell, Sellmeier formula, Zemax = "
             "hand-transcribed published formula (by reflexivity), lat in [-90,90], lon in [0,360)/[-180,180], poles -> 0. The numpy "
             "closure emitted by the same AST walk is compared bit for bit with evaluate. PARTIAL: binary64 behaviour is sampled.",
        ref="5 C19", technique="Coq proof over real-number model regenerated from source by translator + bit-exact translator self-check"),
    "C15": dict(
        text="Theorems over a hand model (exact integers) of the label mappers and the region selector: array_cell_correct (the cell "
             "containing the point, for every mask/point, via the nearest-centre theorem of C13), far_edge_is_error, "
             "overlap_check_sound (any list of ranges, any order), range_unique_label/no_label_outside/nan/end points, "
             "dict_label_within_tol, selector_applies_own_transform (gather-by-label/apply/scatter equals the per-point specification for "
             "every batch). Tied by AST pins and by evaluating the model in Coq on the implementation's cases.",
        ref="5 C15", technique="Coq proof over hand-written executable model + AST pins + vm_compute correspondence"),
    "C18": dict(
        text="Theorems in exact arithmetic over a hand model of grid_from_bounding_box and of footprint's corner construction: "
             "grid_first_last (starts at the lower limit, advances by the step, stops at the FIRST node reaching the upper limit, for "
             "every box and positive step), centred_grid_is_overlapping_pixels (x.5 limits go to the pixel inside), product_corner / "
             "product_length, clockwise_from_lower_left, footprint_axis_range. Tied by AST pins and by comparing, node for node and "
             "corner for corner, with the model evaluated in Coq (corners observed through identity WCSs).",
        ref="5 C18", technique="Coq proof over hand-written exact model + AST pins + vm_compute correspondence"),
    "C12": dict(
        text="Theorems over a token model of CompositeFrame (world values and metadata entries are abstract, so routing is exact): "
             "metadata_describes_output (entry i of units/names/physical types/components is that of the slot owning world axis i, for any "
             "frames whose axes partition 0..n-1) and gather_route_id (objects fed back give the world values in world-axis order, any "
             "listing order of the frames); refutation witnesses of the two legacy defects repaired in /repo. Tied by AST pins and by "
             "comparing, for EVERY permutation of world axes among sub-frame slots (n<=4), the routing observed on the implementation "
             "with the model evaluated in Coq; objects compared with astropy's generic wrapper; round trips.",
        ref="5 C12", technique="Coq proof over hand-written token model + AST pins + exhaustive-permutation correspondence"),
    "C05": dict(
        text="Theorems over a state-machine model of the solver's index bookkeeping with an ADVERSARIAL oracle for the numerics (any "
             "correction norm incl. NaN, any finiteness, any interleaving of iteration kinds, any batch size): invariants by induction "
             "over iterations, unreported_implies_converged(_nonadaptive) — every entry with a finite world point is reported, rescued "
             "by the fallback solver, or has a final correction below tolerance and a finite pixel; NaN world input is never reported. "
             "Proving it exposed a real defect (repaired in /repo). Tied by AST pins and a settrace probe: the model's final "
             "classification computed in Coq must reproduce divergent/slow_conv and the raise decision of every run. PARTIAL: "
             "convergence and forward error are sampled (aligned imaging family, NIRCam file).",
        ref="5 C05", technique="Coq proof (invariant over iterations, adversarial oracle) + AST pins + trace correspondence"),
    "C09": dict(
        text="Theorem roundtrip over converters-as-field-tables: every field named by the specification survives write-then-read when "
             "the write and read tables agree on an unshared key. The tables are REGENERATED each run from gwcs/converters/wcs.py by an "
             "extractor that follows variable rebinding (which is how the dropped SpectralFrame reference_position was exposed and "
             "repaired), and, per model class, from the transform converters (selector / geometry / spectroscopy, constructor parameters read from the "
             "model's own __init__); Coq computes the premise and instantiates the theorem for every converter / model class. Real ASDF round trips "
             "over a zoo of frames/transforms/open modes compare fields, behaviour bit for bit, tree idempotence; deepcopy/pickle isolation.",
        ref="5 C09", technique="Coq proof with premises computed on tables regenerated from source + real ASDF round-trip correspondence"),
    "C10": dict(
        text="Theorems over the rationals about the decision part of the SIP export: the degree argument is normalised to an ascending list "
             "within 1..9 or rejected; the degree search (LU fit as an arbitrary oracle) returns silently only with the LOWEST permitted "
             "degree whose residual meets the request, every lower permitted degree having been fitted and found insufficient; a silent "
             "return implies both the node and the double-sampled residual are within the request; a reported error above the request "
             "always comes with a warning; the reported error is never below either residual; CD.(u+A, v+B) reproduces the fitted "
             "polynomials for every coefficient list with det CD != 0; the stored keyword set is exactly mindeg < i+j <= degree; FITS axis numbers "
             "of the pair with/without keep_axis_position, no keyword written twice, NAXIS from the boxes of the pair's own pixel axes. Tied by AST "
             "pins and by driving the real _fit_2D_poly with scripted fits through every branch against the model evaluated in Coq. PARTIAL: "
             "the numerical accuracy of the LU fit and wcslib's reading of the header are measured on a dense grid (tested), not proved.",
        ref="5 C10", technique="Coq proof over rationals (hand model) + AST pins + scripted-fit correspondence + wcslib dense-grid differential"),
    "C16": dict(
        text="Theorems about a model of the unit handling that is generic in the number type (the same Gallina code is executed over Q and reasoned "
             "about over R, so units with irrational factors such as rad are covered): the unit-carrying WCS and its unit-free twin return the "
             "same bare numbers from both values interfaces and the same objects from pixel_to_world, for every numeric core, every unit "
             "assignment of matching dimension; a position given as quantities in ANY convertible units inverts like the same position in frame "
             "units (both forms, over R); a SkyCoord in any frame inverts like the same position in the reference frame (astropy's conversion as "
             "oracle); pixel quantities in a wrong unit are rejected in both forms; with_units results carry the declared units. Tied by AST pins "
             "and by running five interfaces of generated twin pairs (numbers, quantities, SkyCoord in five frames, SpectralCoord, Time, pixel "
             "quantities; error classes included) against the Q instance in Coq. Composite frames exercised by the oracle only.",
        ref="5 C16", technique="Coq proof over generic (Q/R) hand model + AST pins + vm_compute correspondence incl. error classes + twin oracle"),
    "C20": dict(
        text="Theorems over the reals about the rotation a fiducial WCS is built from (model of astropy's zxz Euler rotation on direction "
             "cosines): the native pole, where every zenithal projection puts its reference point, is carried onto the fiducial for every "
             "fiducial and every pole longitude; norm preserved; FITS default LONPOLE rule; and a REFUTATION witness: with a projection whose "
             "reference point is not the native pole the construction does not anchor the fiducial (replayed: known finding). Theorems over "
             "the rationals: read_wcs_from_header defaults and fitswcs_linear = the FITS paper I definition in PC+CDELT and CD form (0-based), "
             "reference pixel -> origin, omitted PC -> identity, omitted CD -> 0, any CDi_j selects CD form, stage order matters. Theorems "
             "over the reals: every least-squares minimiser reproduces exactly-representable samples; assembly of the fitted pipeline. Tied by "
             "AST pins, exact correspondence of the header/linear model on random dyadic headers, the LONPOLE rule against _compute_lon_pole "
             "for all projections, numeric transcription check of the rotation. PARTIAL: between-sample agreement, inverse-polynomial "
             "accuracy, astropy projections are measured by the wcslib / generating-WCS oracle.",
        ref="5 C20", technique="Coq proof over R and Q (hand models, incl. refutation witness) + AST pins + exact header correspondence + wcslib / generating-WCS differential"),
    "C11": dict(
        text="Theorems over the rationals about the -TAB bookkeeping: node_exact (the FITS reader's index at the pixel of node k is "
             "exactly k+1 for every box and sampling: the tabulated value, no interpolation), table_spans_box, index_affine, "
             "degenerate_cdelt, naxis_covers, pc_row_selects_axis (the PC row of a tabulated axis is the unit vector of its image axis, degenerate "
             "axes included). Tied by AST pins and by comparing NAXISi/CRPIXi/node counts of every exported header with "
             "the model evaluated in Coq; the exported (header, table) is loaded into wcslib and evaluated at EVERY node and random "
             "in-box points against the WCS. The physical type -> CTYPE inversion (Ctype.v: ctype_maps_back, one_name_per_type, "
             "ctype_is_designated_or_first, for every table; premises computed in Coq on astropy's table) is compared with "
             "_ucd1_to_ctype_name_mapping on astropy's and random tables, and CTYPEk of every exported header with the declared physical type. "
             "PARTIAL between nodes (interpolation error tested).",
        ref="5 C11", technique="Coq proof over rationals and association lists (hand models) + AST pins + header/table correspondence + wcslib differential"),
}

NOT_YET = "check not built yet in this session (work in progress; see DESIGN.md section 10 build order)"


def main():
    checks = []
    for pid in ALL:
        if pid not in CHECKS:
            continue
        c = CHECKS[pid]
        checks.append({
            "property_id": pid,
            "quick_cmd": f"./bin/check {pid} --tier quick",
            "thorough_cmd": f"./bin/check {pid} --tier thorough",
            "evidence_file": f"/verif/evidence/{pid}.json",
            "replay_cmd_template": f"./bin/check {pid} --replay {{path}}",
            "engine": "coq-model+correspondence",
            "level_claimed": {"category": "proof", "text": c["text"], "design_ref": c["ref"]},
            "level_note": c.get("note", TB),
            "technique": c["technique"],
        })
    na = [{"property_id": p, "reason": NA.get(p, NOT_YET)} for p in ALL if p not in CHECKS]
    m = {
        "version": 1,
        "setup_cmd": "cd /verif/coq && coq_makefile -f _CoqProject -o Makefile && timeout 3000 make -j16",
        "hooks": {
            "guard": "GWCS_VERIF",
            "enable": "no source hooks are needed: checks import gwcs from /repo's working tree (PYTHONPATH=/repo) and "
                      "observe it from outside; bin/check exports GWCS_VERIF=1 for future hooks",
            "baseline_off_cmd": "cd /repo && env -u GWCS_VERIF /venv/bin/python -m pytest -ra -q -p no:cacheprovider --timeout=900 --continue-on-collection-errors",
            "source_commits": [],
            "add_only": True,
        },
        "engines": [{
            "name": "coq-model+correspondence", "path": "/verif/coq + /verif/tools",
            "serves_properties": sorted(CHECKS),
            "kind_free_text": "Rocq/Coq 8.16.1 development (theories/<Cxx>/{Model,Proofs,Properties}.v) plus a Python harness "
                              "that runs the implementation and evaluates the model inside Coq on the same inputs",
        }],
        "checks": checks,
        "not_applicable": na,
        "notes": "fix: commits in /repo and known findings are listed in known_findings.json; seeded mutations in seeded/.",
    }
    with open(os.path.join(ROOT, "MANIFEST.json"), "w") as f:
        json.dump(m, f, indent=1)
    print("checks:", [c["property_id"] for c in checks], "not_applicable:", len(na))


NA = {}

if __name__ == "__main__":
    main()
