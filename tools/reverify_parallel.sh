#!/bin/bash
# tools/reverify_parallel.sh [jobs [Cxx ...]]  — re-runs every kept seeded change against its check, the twenty properties in parallel.
# Each seed gets its own scratch worktree of /repo's HEAD under /tmp (removed afterwards); the check runs against it through
# REPO_ROOT, so /repo's working tree is never touched.  Prints one line per seed: REPORTED / MISSED, "(no input)" when the report
# ends in no-failing-input-found, and the first violation, to be read for relevance.
cd "$(dirname "$0")/.."
jobs=${1:-10}
out=.work/reverify_parallel; rm -rf $out; mkdir -p $out
one_property() {
  pid=$1
  for d in seeded/${pid} seeded/${pid}_*; do
    [ -f $d/patch.diff ] || continue
    n=$(basename $d); wt=/tmp/rv_$n
    git -C /repo worktree remove --force $wt >/dev/null 2>&1; rm -rf $wt
    for try in 1 2 3 4 5 6; do      # concurrent `git worktree add` calls contend for the repository lock
      git -C /repo worktree add --detach $wt HEAD >/dev/null 2>&1 && break
      sleep $((RANDOM % 3 + 1))
    done
    if ! git -C $wt apply $(pwd)/$d/patch.diff 2>/dev/null; then
      printf "%-7s PATCH-DOES-NOT-APPLY\n" $n >> .work/reverify_parallel/$pid.log
    else
      o=$(REPO_ROOT=$wt VERIF_EVIDENCE_DIR=$(pwd)/.work/seed_evidence ./bin/check $pid 2>&1 | grep -v conda)
      first=$(echo "$o" | grep -A1 '^VIOLATION' | head -2 | tr '\n' ' ' | cut -c1-330)
      if echo "$o" | grep -q '^VIOLATION'; then r=REPORTED; else r=MISSED; fi
      ni=""; echo "$first" | grep -q 'no-failing-input-found' && ni="(no input)"
      printf "%-7s %s %s %s\n" $n $r "$ni" "$(echo "$first" | sed 's/.*what: //')" >> .work/reverify_parallel/$pid.log
    fi
    git -C /repo worktree remove --force $wt >/dev/null 2>&1; rm -rf $wt
  done
}
export -f one_property
shift
props="$*"; [ -z "$props" ] && props="C01 C02 C03 C04 C05 C06 C07 C08 C09 C10 C11 C12 C13 C14 C15 C16 C17 C18 C19 C20"
printf "%s\n" $props | xargs -P $jobs -I{} bash -c 'one_property {}'
git -C /repo worktree prune
cat $out/C*.log
echo "total: $(cat $out/C*.log | wc -l)  reported: $(cat $out/C*.log | grep -c REPORTED)  without input: $(cat $out/C*.log | grep -c '(no input)')  missed: $(cat $out/C*.log | grep -c 'MISSED\|PATCH-DOES')"
