#!/bin/bash
# false-alarm sweep: every registered quick check under several PRNG seeds on the current tree; evidence goes to a scratch directory
cd "$(dirname "$0")/.."
seeds=${*:-1 2 3 4 5}
for s in $seeds; do
  for id in $(python3 -c "import json;print(' '.join(c['property_id'] for c in json.load(open('MANIFEST.json'))['checks']))"); do
    out=$(VERIF_SEED=$s VERIF_EVIDENCE_DIR=$PWD/.work/sweep_evidence ./bin/check $id --tier quick 2>&1 | grep -v conda)
    if echo "$out" | grep -q "^VIOLATION"; then echo "seed=$s $id ALARM"; echo "$out" | grep -A1 "^VIOLATION" | cut -c1-300 | head -4; fi
    echo "seed=$s $(echo "$out" | tail -1)"
  done
done
