"""C16 — units are transparent: quantities, bare numbers and unit transforms agree.

Proof:  coq/theories/C16/Units.v — hand model, GENERIC in the number type, of _add_units_input / _remove_quantity_output /
        _sanitize_pixel_inputs / *_values / pixel_to_world / world_to_pixel (api.py), __call__ / invert (wcs.py), get_values (utils.py)
        and coordinates() / coordinate_to_quantity() of the single frames, with a unit-carrying transform = arbitrary numeric core +
        unit conversion at its boundary. Theorems for every number type: values_twin_forward / values_twin_backward (the unit-carrying WCS
        and its unit-free twin return the same bare numbers and never fail), objects_twin (same objects), invert_sky_any_frame,
        wrong_pixel_unit_rejected_free / _units, with_units_in_declared_units.
        coq/theories/C16/UnitsR.v — instance over R (units with irrational factors such as rad included): same_quantity_same_value,
        invert_any_unit_units, invert_any_unit_free (a position given as quantities in any convertible units inverts like the same position
        in frame units, both forms).
Tie:    AST pins + correspondence: coq/theories/C16/UnitsQ.v instantiates the same generic code at Q; randomly generated unit-carrying WCSs
        (per-axis Multiply|Shift with transform units different from the frame units) and their twins are driven through the five interfaces
        with numbers, quantities (convertible and not), SkyCoord in five frames, SpectralCoord, Time and pixel quantities (right, wrong and
        merely convertible units); outcome kinds, numbers (1e-9), unit identities and exception classes are compared in Coq.
Search: property oracle on the implementation, including a TAN imaging twin pair with real sky-frame conversions and a composite cube.
"""
import math
import warnings
from fractions import Fraction

import numpy as np

from lib.common import glist, gbool
from lib import pins

LEVEL = "proof"
RULE = ("random twin pairs (imaging 2-D celestial in 5 reference frames, spectral, temporal, generic 1-D/2-D) with transform output units "
        "different from the frame units; interfaces pixel_to_world_values, world_to_pixel_values, invert, world_to_pixel, pixel_to_world; "
        "arguments: numbers, quantities in every table unit of the right dimension and (10 %) of a wrong one, SkyCoord in ICRS / FK5(J2000) "
        "/ Galactic / FK5(J1975) / FK4, SpectralCoord, Time, pixel quantities in pix / m / 1000 pix. non-trivial = unit differs from the "
        "frame unit, rich object, or error outcome; distinct by content")
ASSUMPTIONS = [
    "astropy Quantity conversion is multiplication by the ratio of unit factors; astropy models with Quantity parameters convert their inputs "
    "to the parameter units and raise UnitsError otherwise (both measured by the correspondence)",
    "astropy's frame-to-frame conversion is an oracle (skyconv); its round-trip property is a hypothesis of invert_sky_any_frame",
    "CompositeFrame splitting is modelled in C12, here it is exercised by the oracle only",
    "a SpectralCoord given in a unit of another physical type (Hz for a um frame) is converted by the unit-free form and rejected (UnitsError) "
    "by the unit-carrying form: outside the property's quantifier (units 'convertible to the frame unit'), reported in the evidence notes",
]
PINS = ["gwcs/api.py::GWCSAPIMixin._remove_quantity_output", "gwcs/api.py::GWCSAPIMixin._add_units_input",
        "gwcs/api.py::GWCSAPIMixin.pixel_to_world_values", "gwcs/api.py::GWCSAPIMixin.world_to_pixel_values",
        "gwcs/api.py::GWCSAPIMixin._sanitize_pixel_inputs", "gwcs/api.py::GWCSAPIMixin.pixel_to_world",
        "gwcs/api.py::GWCSAPIMixin.world_to_pixel", "gwcs/wcs.py::WCS.__call__", "gwcs/wcs.py::WCS.invert", "gwcs/utils.py::get_values",
        "gwcs/utils.py::isnumerical",
        "gwcs/coordinate_frames.py::CoordinateFrame.coordinates", "gwcs/coordinate_frames.py::CoordinateFrame.coordinate_to_quantity",
        "gwcs/coordinate_frames.py::CelestialFrame.coordinates", "gwcs/coordinate_frames.py::CelestialFrame.coordinate_to_quantity",
        "gwcs/coordinate_frames.py::SpectralFrame.coordinates", "gwcs/coordinate_frames.py::SpectralFrame.coordinate_to_quantity",
        "gwcs/coordinate_frames.py::TemporalFrame.coordinates", "gwcs/coordinate_frames.py::TemporalFrame._convert_to_time",
        "gwcs/coordinate_frames.py::TemporalFrame.coordinate_to_quantity", "gwcs/coordinate_frames.py::Frame2D.coordinates",
        "gwcs/coordinate_frames.py::Frame2D.coordinate_to_quantity", "gwcs/coordinate_frames.py::StokesFrame.coordinates",
        "gwcs/coordinate_frames.py::StokesFrame.coordinate_to_quantity", "gwcs/coordinate_frames.py::CoordinateFrame.unit",
        "gwcs/coordinate_frames.py::CoordinateFrame.__init__", "gwcs/coordinate_frames.py::CelestialFrame.__init__",
        "gwcs/coordinate_frames.py::SpectralFrame.__init__", "gwcs/coordinate_frames.py::TemporalFrame.__init__",
        "gwcs/coordinate_frames.py::Frame2D.__init__", "gwcs/coordinate_frames.py::StokesFrame.__init__"]
HEADER = ("From Coq Require Import QArith List Bool. Import ListNotations.\n"
          "From GW Require Import C16.Units C16.UnitsQ.\nOpen Scope Q_scope.\n")
MIXED = 0.2      # share of generated WCSs with mixed unit-ness (enabled once /repo handles them)
TH_GENERIC = ["values_twin_forward", "values_twin_backward", "objects_twin", "invert_sky_any_frame", "wrong_pixel_unit_rejected_free",
              "wrong_pixel_unit_rejected_units", "with_units_in_declared_units"]
TH_R = ["same_quantity_same_value", "invert_any_unit_units", "invert_any_unit_free", "nonzero_units_exist"]


def _env():
    import astropy.units as u
    from astropy import coordinates as coord
    from astropy.time import Time
    from astropy.modeling import models
    from gwcs import coordinate_frames as cf, wcs
    return u, coord, Time, models, cf, wcs


def unit_table():
    u = _env()[0]
    rad = Fraction(math.degrees(1.0))
    return {  # name: (id, dim, factor, astropy unit)
        "pix": (0, 0, Fraction(1), u.pix), "deg": (1, 1, Fraction(1), u.deg), "arcsec": (2, 1, Fraction(1, 3600), u.arcsec),
        "arcmin": (3, 1, Fraction(1, 60), u.arcmin), "rad": (4, 1, rad, u.rad),
        "m": (5, 2, Fraction(1), u.m), "um": (6, 2, Fraction(1, 10**6), u.um), "nm": (7, 2, Fraction(1, 10**9), u.nm),
        "AA": (8, 2, Fraction(1, 10**10), u.AA), "Hz": (9, 3, Fraction(1), u.Hz), "GHz": (10, 3, Fraction(10**9), u.GHz),
        "s": (11, 4, Fraction(1), u.s), "min": (12, 4, Fraction(60), u.min), "h": (13, 4, Fraction(3600), u.h),
        "kpix": (14, 0, Fraction(1000), u.Unit(1000 * u.pix)),
    }


DIMS = {1: ["deg", "arcsec", "arcmin", "rad"], 2: ["m", "um", "nm", "AA"], 3: ["Hz", "GHz"], 4: ["s", "min", "h"]}


def sky_frames():
    _, coord, Time, *_ = _env()
    return [coord.ICRS(), coord.FK5(equinox=Time("J2000")), coord.Galactic(), coord.FK5(equinox=Time("J1975")), coord.FK4()]


def gq(x):
    f = Fraction(x)
    n = f"({f.numerator})" if f.numerator < 0 else f"{f.numerator}"
    return f"({n} # {f.denominator})"


def gunit(T, name):
    i, d, f, _ = T[name]
    return f"(mku {i} {d} {gq(f)})"


def unit_id(T, un):
    for name, (i, d, f, au) in T.items():
        if un == au and str(un) == str(au):
            return i
    for name, (i, d, f, au) in T.items():
        if un == au:
            return i
    return 999


class Spec:
    """One unit-carrying WCS and its unit-free twin, on both sides."""

    def __init__(self, rng, T, kind):
        self.T, self.kind = T, kind
        self.ref = None
        if kind == "imaging":
            self.n = 2
            fu = rng.choice(["deg", "arcsec", "deg"])
            self.uout = [fu, fu]
            self.tout = [rng.choice(DIMS[1]), rng.choice(DIMS[1])]
            self.ref = rng.randrange(5)
            phys = [(Fraction(rng.choice([1, -1, 2]), 64), Fraction(rng.randint(40 * 8, 200 * 8), 8)),
                    (Fraction(rng.choice([1, -1, 3]), 128), Fraction(rng.randint(-40 * 8, 40 * 8), 8))]   # degrees
            base = "deg"
            self.kin, self.kout = "Frame2D", f"(Celestial {self.ref})"
        elif kind == "spectral":
            self.n = 1
            d = rng.choice([2, 3])
            self.uout = [rng.choice(DIMS[d])]
            self.tout = [rng.choice(DIMS[d])]
            base = self.uout[0]
            phys = [(Fraction(rng.randint(1, 40), 16), Fraction(rng.randint(8, 400), 8))]    # in frame units
            self.kin, self.kout = "Generic", "Spectral"
        elif kind == "temporal":
            self.n = 1
            self.uout = [rng.choice(DIMS[4])]
            self.tout = [rng.choice(DIMS[4])]
            base = self.uout[0]
            phys = [(Fraction(rng.randint(1, 40), 16), Fraction(rng.randint(8, 400), 8))]
            self.kin, self.kout = "Generic", "Temporal"
        elif kind == "generic1":
            self.n = 1
            d = rng.choice([1, 2, 3, 4])
            self.uout = [rng.choice(DIMS[d])]
            self.tout = [rng.choice(DIMS[d])]
            base = self.uout[0]
            phys = [(Fraction(rng.randint(-40, 40) or 3, 16), Fraction(rng.randint(-400, 400), 8))]
            self.kin, self.kout = "Generic", "Generic"
        else:   # generic2
            self.n = 2
            d1, d2 = rng.choice([1, 2, 3, 4]), rng.choice([1, 2, 3, 4])
            self.uout = [rng.choice(DIMS[d1]), rng.choice(DIMS[d2])]
            self.tout = [rng.choice(DIMS[d1]), rng.choice(DIMS[d2])]
            base = None
            phys = [(Fraction(rng.randint(-40, 40) or 3, 16), Fraction(rng.randint(-400, 400), 8)) for _ in range(2)]
            self.kin, self.kout = "Frame2D", "Generic"
        # rows in transform output units
        self.rows = []
        for i, (a, b) in enumerate(phys):
            fb = T[base][2] if kind == "imaging" else T[self.uout[i]][2]
            k = fb / T[self.tout[i]][2]
            self.rows.append((a * k, b * k))
        self.uin = ["pix"] * self.n
        # mixed unit-ness: the forward transform carries units, its user-supplied inverse works on bare numbers in frame units
        self.bq = not (rng.random() < MIXED)
        self._build()

    def _build(self):
        u, coord, Time, models, cf, wcs = _env()
        T = self.T
        tu, tf = None, None
        for i, (a, b) in enumerate(self.rows):
            tun = T[self.tout[i]][3]
            k = T[self.tout[i]][2] / T[self.uout[i]][2]
            mu = models.Multiply(float(a) * tun / u.pix) | models.Shift(float(b) * tun)
            mf = models.Scale(float(a * k)) | models.Shift(float(b * k))
            tu = mu if tu is None else tu & mu
            tf = mf if tf is None else tf & mf
        if not self.bq:
            inv = None
            for i, (a, b) in enumerate(self.rows):
                kb = float(T[self.uout[i]][2] / T[self.tout[i]][2])
                mi = models.Scale(kb) | models.Shift(-float(b)) | models.Scale(1.0 / float(a))
                inv = mi if inv is None else inv & mi
            tu.inverse = inv
        fu = tuple(T[n][3] for n in self.uout)

        def frames():
            if self.n == 2:
                det = cf.Frame2D(name="detector", unit=(u.pix, u.pix))
            else:
                det = cf.CoordinateFrame(naxes=1, axes_type=("PIXEL",), axes_order=(0,), name="detector", unit=(u.pix,))
            if self.kind == "imaging":
                out = cf.CelestialFrame(reference_frame=sky_frames()[self.ref], name="sky", unit=fu)
            elif self.kind == "spectral":
                out = cf.SpectralFrame(name="spec", unit=fu, axes_order=(0,))
            elif self.kind == "temporal":
                out = cf.TemporalFrame(Time("2020-01-01T00:00:00"), unit=fu[0], name="time")
            elif self.kind == "generic1":
                out = cf.CoordinateFrame(naxes=1, axes_type=("CUSTOM",), axes_order=(0,), name="world", unit=fu)
            else:
                out = cf.CoordinateFrame(naxes=2, axes_type=("CUSTOM", "CUSTOM"), axes_order=(0, 1), name="world", unit=fu)
            return det, out
        d1, o1 = frames()
        d2, o2 = frames()
        self.w_units = wcs.WCS([(d1, tu), (o1, None)])
        self.w_free = wcs.WCS([(d2, tf), (o2, None)])

    def coq(self):
        T = self.T
        rows = glist([f"({gq(a)}, {gq(b)})" for a, b in self.rows])
        ul = lambda names: glist([gunit(T, n) for n in names])  # noqa: E731
        return (f"(Build_spec {rows} {ul(self.uin)} {ul(self.tout)} {self.kin} {ul(self.uin)} {self.kout} {ul(self.uout)} {gbool(self.bq)})")

    def forward_frame_units(self, xs):
        """exact forward image in frame units"""
        out = []
        for i, x in enumerate(xs):
            a, b = self.rows[i]
            out.append((a * x + b) * self.T[self.tout[i]][2] / self.T[self.uout[i]][2])
        return out


def classify_exc(e):
    import astropy.units as u
    if isinstance(e, u.UnitConversionError):
        return "UnitConversionError"
    if isinstance(e, u.UnitsError):
        return "UnitsError"
    if isinstance(e, ValueError):
        return "ValueError"
    if isinstance(e, (TypeError, AttributeError)):
        return "TypeError"
    return "Other:" + type(e).__name__


def canon(T, r, spec):
    """implementation result -> (coq outcome term, python tuple)"""
    u, coord, Time, *_ = _env()
    if isinstance(r, coord.SkyCoord):
        frs = sky_frames()
        rid = 99
        for i, f in enumerate(frs):
            if r.frame.is_equivalent_frame(f):
                rid = i
        lon, lat = r.data.lon, r.data.lat
        return (f"(RSky {rid} {gq(float(lon.to_value(u.deg)))} {gq(float(lat.to_value(u.deg)))} {unit_id(T, lon.unit)} {unit_id(T, lat.unit)})",
                ("sky", rid, float(lon.to_value(u.deg)), float(lat.to_value(u.deg)), str(lon.unit)))
    if isinstance(r, coord.SpectralCoord):
        return f"(RSpec {gq(float(r.value))} {unit_id(T, r.unit)})", ("spec", float(r.value), str(r.unit))
    if isinstance(r, Time):
        s = float((r - Time("2020-01-01T00:00:00")).sec)
        return f"(RTime {gq(s)})", ("time", s)
    items = list(r) if isinstance(r, (tuple, list)) else [r]
    if any(isinstance(v, u.Quantity) for v in items):
        vals = []
        for v in items:
            if isinstance(v, u.Quantity):
                vals.append(f"({gq(float(v.value))}, Some {unit_id(T, v.unit)}%nat)")
            else:
                vals.append(f"({gq(float(v))}, @None nat)")
        return f"(RVals {glist(vals)})", ("vals", [str(v) for v in items])
    return f"(RNums {glist([gq(float(v)) for v in items])})", ("nums", [float(v) for v in items])


def gen_world_args(rng, spec, T, xs):
    """-> (coq warg list term, python args, coq `given`, tag, physical frame-unit numbers)"""
    u, coord, Time, *_ = _env()
    ws = spec.forward_frame_units(xs)
    given = "(0, 0)"
    choices = ["qty", "qty", "num"]
    if spec.kind == "imaging":
        choices += ["sky", "sky", "sky"]
    if spec.kind == "spectral":
        choices += ["spec"]
    if spec.kind == "temporal":
        choices += ["time"]
    tag = rng.choice(choices)
    if tag == "num":
        return glist([f"(WNum Q {gq(w)})" for w in ws]), [float(w) for w in ws], given, tag
    if tag in ("qty", "spec"):
        terms, args = [], []
        for i, w in enumerate(ws):
            d = T[spec.uout[i]][1]
            if tag == "qty" and rng.random() < 0.1:      # a SpectralCoord cannot even be built in a non-spectral unit
                d = rng.choice([x for x in DIMS if x != d])
            un = rng.choice(DIMS[d])
            val = w * T[spec.uout[i]][2] / T[un][2] if d == T[spec.uout[i]][1] else Fraction(rng.randint(1, 99), 4)
            ctor = "WSpec" if tag == "spec" else "WQty"
            terms.append(f"({ctor} Q {gq(Fraction(float(val)))} {gunit(T, un)})")
            q = float(val) * T[un][3]
            args.append(coord.SpectralCoord(q) if tag == "spec" else q)
        return glist(terms), args, given, tag
    if tag == "time":
        secs = ws[0] * T[spec.uout[0]][2]
        t = Time("2020-01-01T00:00:00") + float(secs) * u.s
        s = float((t - Time("2020-01-01T00:00:00")).sec)
        # the same instant expressed in another time scale (the reference epoch of the frame is UTC) or format
        how = rng.choice(["utc", "utc", "tai", "tt", "jd-pair"])
        if how in ("tai", "tt"):
            t = getattr(t, how)
        elif how == "jd-pair":
            t = Time(t.jd1, t.jd2, format="jd", scale="utc")
        return glist([f"(WTime Q {gq(s)})"]), [t], given, tag + ":" + how
    # sky
    frs = sky_frames()
    lon_deg = float(ws[0] * T[spec.uout[0]][2])
    lat_deg = float(ws[1] * T[spec.uout[1]][2])
    fr = rng.randrange(5)
    native = coord.SkyCoord(lon_deg * u.deg, lat_deg * u.deg, frame=frs[spec.ref])
    sc = coord.SkyCoord(native.frame.transform_to(frs[fr])) if fr != spec.ref else native
    back = sc.frame.transform_to(frs[spec.ref])           # independent API: no attribute merging
    l0, b0 = float(sc.data.lon.to_value(u.deg)), float(sc.data.lat.to_value(u.deg))
    l1, b1 = float(back.data.lon.to_value(u.deg)), float(back.data.lat.to_value(u.deg))
    given = f"({gq(l1)}, {gq(b1)})"
    return glist([f"(WSky Q {fr} {gq(l0)} {gq(b0)})"]), [sc], given, f"sky{fr}->{spec.ref}"


def gen_pixels(rng, spec, T, xs):
    u = _env()[0]
    tag = rng.choice(["num", "pix", "wrong", "kpix", "mixed"])
    terms, args = [], []
    for i, x in enumerate(xs):
        t = tag
        if tag == "mixed":
            t = rng.choice(["num", "pix"])
        if tag == "wrong" and i != len(xs) - 1 and rng.random() < 0.5:
            t = "num"
        if t == "num":
            terms.append(f"(Num Q {gq(x)})")
            args.append(float(x))
        elif t == "pix":
            terms.append(f"(Qty Q {gq(x)} {gunit(T, 'pix')})")
            args.append(float(x) * u.pix)
        elif t == "wrong":
            terms.append(f"(Qty Q {gq(x)} {gunit(T, 'm')})")
            args.append(float(x) * u.m)
        else:
            terms.append(f"(Qty Q {gq(x / 1000)} {gunit(T, 'kpix')})")
            args.append(float(x / 1000) * T["kpix"][3])
    return glist(terms), args, tag


def oracle_realistic(ctx, rng, problems, n):
    """TAN imaging twins with real sky-frame conversions + composite cube: the property read directly off the implementation."""
    u, coord, Time, models, cf, wcs = _env()
    frs = sky_frames() + [coord.FK5(), coord.FK4NoETerms(), coord.BarycentricMeanEcliptic()]

    def num(x):
        return np.array([np.asarray(getattr(v, "value", v), dtype=float) for v in (x if isinstance(x, (tuple, list)) else [x])])
    for k in range(n):
        rf = rng.choice(frs)
        fu = rng.choice([u.deg, u.arcsec])
        crpix = (rng.uniform(100, 900), rng.uniform(100, 900))
        scale = 10 ** rng.uniform(-5, -3.3)
        ra, dec, ang = rng.uniform(0, 360), rng.uniform(-70, 70), rng.uniform(0, 360)
        kf = (1 * u.deg).to_value(fu)
        t0 = (models.Shift(-crpix[0]) & models.Shift(-crpix[1]) | models.Rotation2D(ang) | models.Scale(scale) & models.Scale(scale)
              | models.Pix2Sky_TAN() | models.RotateNative2Celestial(ra, dec, 180))
        if fu != u.deg:
            t0 = t0 | models.Scale(kf) & models.Scale(kf)
        t1 = (models.Shift(-crpix[0] * u.pix) & models.Shift(-crpix[1] * u.pix) | models.Rotation2D(ang * u.deg)
              | models.Multiply(scale * u.deg / u.pix) & models.Multiply(scale * u.deg / u.pix)
              | models.Pix2Sky_TAN() | models.RotateNative2Celestial(ra * u.deg, dec * u.deg, 180 * u.deg))
        bare = rng.random() < 0.25       # the input frame given by its bare name only (no frame object, hence no declared pixel unit)
        mk = lambda t: wcs.WCS([("detector" if bare else cf.Frame2D(name="detector", unit=(u.pix, u.pix)), t),  # noqa: E731
                                (cf.CelestialFrame(reference_frame=rf, name="sky", unit=(fu, fu)), None)])
        w0, w1 = mk(t0), mk(t1)
        arr = rng.random() < 0.4
        p = [np.array([rng.uniform(0, 1000) for _ in range(3)]) for _ in range(2)] if arr else [rng.uniform(0, 1000) for _ in range(2)]
        rec = dict(family="imaging-TAN", bare_name_input_frame=bare, frame=repr(rf), frame_unit=str(fu), crpix=crpix, scale=scale, ra=ra, dec=dec, ang=ang,
                   pixel=[np.asarray(v).tolist() for v in p])
        try:
            v0, v1 = w0.pixel_to_world_values(*p), w1.pixel_to_world_values(*p)
            if any(isinstance(v, u.Quantity) for v in list(v0) + list(v1)):
                problems.append(("pixel_to_world_values returned a Quantity", rec, None))
            if not np.allclose(num(v0), num(v1), rtol=1e-11, atol=1e-9 * kf):
                problems.append((f"values of the two forms differ: {num(v0).tolist()} vs {num(v1).tolist()}", rec, None))
            o0, o1 = w0.pixel_to_world(*p), w1.pixel_to_world(*p)
            if type(o0) is not type(o1) or np.any(o0.separation(o1).deg > 1e-10) or not o0.frame.is_equivalent_frame(rf) \
                    or not o1.frame.is_equivalent_frame(rf):
                problems.append(("pixel_to_world objects of the two forms differ or are not in the output frame", rec, None))
            for w, lab in ((w0, "unit-free"), (w1, "unit-carrying")):
                r = w(*([v * u.pix for v in p] if w is w1 else p), with_units=True)
                if r.data.lon.unit != fu or r.data.lat.unit != fu:
                    problems.append((f"{lab}: with_units result in {r.data.lon.unit}, frame declares {fu}", rec, None))
                ref = num(w.world_to_pixel_values(*v0))
                if not np.allclose(ref, num(p), atol=1e-6):
                    problems.append((f"{lab}: world_to_pixel_values does not invert: {ref.tolist()}", rec, None))
                for un in (u.deg, u.arcsec, u.rad, u.arcmin):
                    q = [(v * fu).to(un) for v in v0]
                    for fn in ("invert", "world_to_pixel"):
                        got = num(getattr(w, fn)(*q))
                        if not np.allclose(got, ref, atol=1e-6):
                            problems.append((f"{lab}: {fn} of quantities in {un} gives {got.tolist()}, bare numbers give {ref.tolist()}",
                                             dict(rec, unit=str(un)), None))
                direct = coord.SkyCoord(v0[0] * fu, v0[1] * fu, frame=rf)
                for fr in rng.sample(frs, 3):
                    sc = coord.SkyCoord(direct.frame.transform_to(fr))
                    back = sc.frame.transform_to(rf)
                    want = num(w.world_to_pixel_values(back.data.lon.to_value(fu), back.data.lat.to_value(fu)))
                    for fn in ("invert", "world_to_pixel"):
                        got = num(getattr(w, fn)(sc))
                        if not np.allclose(got, want, atol=1e-5):
                            problems.append((f"{lab}: {fn}(SkyCoord in {fr.name}/{getattr(fr, 'equinox', '')}) = {got.tolist()} but the same "
                                             f"position converted by astropy and given as numbers inverts to {want.tolist()}",
                                             dict(rec, input_frame=repr(fr)), None))
                for bad in (u.m, u.deg):
                    try:
                        w.pixel_to_world(*[v * bad for v in p])
                        problems.append((f"{lab}: pixel quantities in {bad} were accepted", dict(rec, pixel_unit=str(bad)), None))
                    except (ValueError, u.UnitsError):
                        pass
            ctx.case(key=("real", repr(rf), str(fu), str(rec["pixel"])), nontrivial=True, kind="oracle:imaging-TAN")
        except Exception as e:  # noqa: BLE001
            problems.append((f"imaging twin raised {type(e).__name__}: {str(e)[:150]}", rec, None))
    # composite cube (celestial + spectral), both forms
    for k in range(max(2, n // 4)):
        sx, sy, sw = rng.uniform(0.5, 2), rng.uniform(0.5, 2), rng.uniform(0.5, 2)

        def mkc(units):
            if units:
                tr = (models.Multiply(sx * u.arcsec / u.pix) & models.Multiply(sy * u.arcsec / u.pix) & models.Multiply(sw * u.nm / u.pix))
            else:
                tr = models.Scale(sx) & models.Scale(sy) & models.Scale(sw)
            det = cf.CoordinateFrame(naxes=3, axes_type=("PIXEL",) * 3, axes_order=(0, 1, 2), name="detector", unit=(u.pix,) * 3)
            sky = cf.CelestialFrame(reference_frame=coord.ICRS(), name="sky", axes_order=(0, 1), unit=(u.arcsec, u.arcsec))
            spec = cf.SpectralFrame(name="wave", unit=(u.nm,), axes_order=(2,))
            return wcs.WCS([(det, tr), (cf.CompositeFrame([sky, spec], name="world"), None)])
        w0, w1 = mkc(False), mkc(True)
        p = [rng.uniform(1, 50) for _ in range(3)]
        rec = dict(family="cube", scales=[sx, sy, sw], pixel=p)
        try:
            v0, v1 = w0.pixel_to_world_values(*p), w1.pixel_to_world_values(*p)
            if any(isinstance(v, u.Quantity) for v in list(v0) + list(v1)) or not np.allclose(num(v0), num(v1), rtol=1e-12):
                problems.append(("cube: values of the two forms differ or carry units", rec, None))
            for w, lab in ((w0, "unit-free"), (w1, "unit-carrying")):
                objs = w.pixel_to_world(*p)
                got = num(w.world_to_pixel(*objs))
                if not np.allclose(got, p, atol=1e-6):
                    problems.append((f"cube {lab}: world_to_pixel(objects) = {got.tolist()}", rec, None))
                sc, sp = objs
                got = num(w.world_to_pixel(sc.transform_to(coord.Galactic()), sp.to(u.AA)))
                if not np.allclose(got, p, atol=1e-5):
                    problems.append((f"cube {lab}: world_to_pixel(Galactic SkyCoord, Angstrom) = {got.tolist()}", rec, None))
            ctx.case(key=("cube", str(p)), nontrivial=True, kind="oracle:cube")
        except Exception as e:  # noqa: BLE001
            problems.append((f"cube twin raised {type(e).__name__}: {str(e)[:150]}", rec, None))
    # the two sky axes leave the transform in different angular units (deg / arcsec), frame in (deg, deg) or mixed
    for k in range(max(3, n // 3)):
        a, b = rng.uniform(5e-4, 2e-3), rng.uniform(0.01, 0.05)          # deg / pix, arcsec / pix
        l0, b0 = rng.uniform(0.1, 300), rng.uniform(10, 80)              # deg, arcsec
        ulon, ulat = rng.choice([(u.deg, u.arcsec), (u.arcsec, u.deg), (u.deg, u.arcmin)])
        fun = rng.choice([(u.deg, u.deg), (u.deg, u.arcsec), (u.arcsec, u.arcsec)])

        def mkm(units):
            if units:
                tr = (models.Linear1D(slope=(a * u.deg).to(ulon) / u.pix, intercept=(l0 * u.deg).to(ulon))
                      & models.Linear1D(slope=(b * u.arcsec).to(ulat) / u.pix, intercept=(b0 * u.arcsec).to(ulat)))
            else:
                tr = (models.Linear1D(slope=(a * u.deg).to_value(fun[0]), intercept=(l0 * u.deg).to_value(fun[0]))
                      & models.Linear1D(slope=(b * u.arcsec).to_value(fun[1]), intercept=(b0 * u.arcsec).to_value(fun[1])))
            det = cf.Frame2D(name="detector")
            sky = cf.CelestialFrame(reference_frame=coord.ICRS(), name="sky", unit=fun)
            return wcs.WCS([(det, tr), (sky, None)])
        p = [rng.uniform(1, 50), rng.uniform(1, 50)]
        want = (l0 + a * p[0], (b0 + b * p[1]) / 3600.0)
        rec = dict(family="mixed-axis-units", transform_units=[str(ulon), str(ulat)], frame_units=[str(x) for x in fun], pixel=p,
                   expected_deg=list(want))
        try:
            for w, lab in ((mkm(False), "unit-free"), (mkm(True), "unit-carrying")):
                sc = w.pixel_to_world(*p)
                got = (float(sc.spherical.lon.deg), float(sc.spherical.lat.deg))
                if not np.allclose(got, want, rtol=1e-10, atol=1e-12):
                    problems.append((f"mixed axis units, {lab}: pixel_to_world gives (lon, lat) = {got} deg, the transform gives {want} deg "
                                     f"(transform units {ulon}/{ulat}, frame units {fun[0]}/{fun[1]})", rec, None))
                vals = num(w.pixel_to_world_values(*p))
                wantv = [(want[0] * u.deg).to_value(fun[0]), (want[1] * u.deg).to_value(fun[1])]
                if not np.allclose(vals, wantv, rtol=1e-10):
                    problems.append((f"mixed axis units, {lab}: pixel_to_world_values = {vals.tolist()}, expected {wantv} in frame units", rec, None))
                back = num(w.world_to_pixel(sc))
                if not np.allclose(back, p, atol=1e-6):
                    problems.append((f"mixed axis units, {lab}: world_to_pixel(pixel_to_world(p)) = {back.tolist()}", rec, None))
            ctx.case(key=("mixedaxis", str(rec)), nontrivial=True, kind="oracle:mixed-axis-units")
        except Exception as e:  # noqa: BLE001
            problems.append((f"mixed-axis-units twin raised {type(e).__name__}: {str(e)[:150]}", rec, None))


def run(ctx):
    warnings.simplefilter("ignore")
    ctx.trusted += ["hand model coq/theories/C16/Units.v (+ UnitsR.v, UnitsQ.v); tools/checks/C16.py generators, canonicalisation and oracle; "
                    "Reals axioms of the standard library in UnitsR.v (listed per theorem)"]
    ctx.gate()
    ctx.coq_theorems("C16/Units", TH_GENERIC)
    ctx.coq_theorems("C16/UnitsR", TH_R)
    ctx.coq_theorems("C16/UnitsQ", ["imaging_well_formed"])
    pins.check(ctx, PINS)
    rng = ctx.rng
    T = unit_table()
    problems = []
    terms, meta = [], []
    nspec = 40 if ctx.quick else 500
    for si in range(nspec):
        kind = rng.choice(["imaging", "imaging", "spectral", "temporal", "generic1", "generic2"])
        spec = Spec(rng, T, kind)
        cs = spec.coq()
        for oi in range(12):
            xs = [Fraction(rng.randint(0, 100 * 8), 8) for _ in range(spec.n)]
            opk = rng.choice(["p2wv", "w2pv", "invert", "w2p", "w2p", "p2w", "p2w"])
            per_form = {}
            for free in (False, True):
                w = spec.w_free if free else spec.w_units
                given = "(0, 0)"
                st = rng.getstate()
                if opk == "p2wv":
                    cop, tag = f"(OpP2WV {glist([gq(x) for x in xs])})", "p2wv"
                    call = lambda: w.pixel_to_world_values(*[float(x) for x in xs])  # noqa: E731
                elif opk == "w2pv":
                    ws = spec.forward_frame_units(xs)
                    cop, tag = f"(OpW2PV {glist([gq(Fraction(float(v))) for v in ws])})", "w2pv"
                    call = lambda: w.world_to_pixel_values(*[float(v) for v in ws])  # noqa: E731
                elif opk in ("invert", "w2p"):
                    cargs, args, given, tag = gen_world_args(rng, spec, T, xs)
                    cop = f"({'OpInvert' if opk == 'invert' else 'OpW2P'} {cargs})"
                    tag = f"{opk}:{tag}"
                    call = lambda: (w.invert if opk == "invert" else w.world_to_pixel)(*args)  # noqa: E731
                else:
                    cpx, args, tag = gen_pixels(rng, spec, T, xs)
                    cop, tag = f"(OpP2W {cpx})", f"p2w:{tag}"
                    call = lambda: w.pixel_to_world(*args)  # noqa: E731
                try:
                    r = call()
                    cexp, py = canon(T, r, spec)
                except Exception as e:  # noqa: BLE001
                    kindname = classify_exc(e)
                    if kindname.startswith("Other"):
                        problems.append((f"{opk} raised {type(e).__name__}: {str(e)[:120]}", {"spec": cs, "op": opk}, None))
                        kindname = "TypeError"
                    cexp, py = f"(RErr {kindname})", ("err", kindname)
                if not free:
                    rng.setstate(st)       # the twin gets exactly the same arguments
                per_form[free] = py
                terms.append(f"({gbool(free)}, {cs}, {given}, {cop}, {cexp})")
                rec = dict(kind=kind, form="unit-free" if free else "unit-carrying", frame_units=spec.uout, transform_units=spec.tout,
                           rows=[[str(a), str(b)] for a, b in spec.rows], op=tag, pixel=[str(x) for x in xs], implementation=str(py))
                meta.append(rec)
                nontrivial = spec.uout != spec.tout or py[0] in ("err", "sky", "spec", "time") or ":" in tag
                ctx.case(key=(cs, cop, free), nontrivial=nontrivial, kind=f"{kind}:{tag.split('->')[0]}:{py[0]}", sample=rec)
            # the property read directly off the two implementation answers
            a, b = per_form[False], per_form[True]
            recp = dict(kind=kind, frame_units=spec.uout, transform_units=spec.tout, op=tag, pixel=[str(x) for x in xs],
                        unit_carrying=str(a), unit_free=str(b))
            if opk in ("p2wv", "w2pv"):
                if a[0] != "nums" or b[0] != "nums":
                    problems.append((f"{opk}: the values interface returned {a[0]} / {b[0]} instead of bare numbers", recp, None))
                elif not np.allclose(a[1], b[1], rtol=1e-9, atol=1e-9):
                    problems.append((f"{opk}: unit-carrying and unit-free forms disagree: {a[1]} vs {b[1]}", recp, None))
            if opk == "w2p" and a[0] == "nums" and b[0] == "nums":
                want = [float(x) for x in xs]
                for lab, got in (("unit-carrying", a[1]), ("unit-free", b[1])):
                    if not np.allclose(got, want, rtol=1e-7, atol=1e-6):
                        problems.append((f"world_to_pixel ({lab}, {tag}) gives {got}, the position came from pixel {want}", recp, None))
            if opk == "p2w" and tag.endswith("wrong") and (a[0] != "err" or b[0] != "err"):
                problems.append((f"pixel quantities in metres were accepted ({a[0]} / {b[0]})", recp, None))
            if opk == "p2w" and a[0] != "err" and b[0] != "err" and a[0] == b[0] and a[0] in ("sky", "spec", "time"):
                if not np.allclose([v for v in a[1:] if isinstance(v, float)], [v for v in b[1:] if isinstance(v, float)], rtol=1e-9, atol=1e-9) \
                        or (a[0] != "time" and a[-1] != b[-1]):
                    problems.append((f"pixel_to_world objects of the two forms differ: {a} vs {b}", recp, None))
    bad = ctx.coq_failing("c16_units", HEADER, terms,
                          "(fun c => let '(free, s, g, o, e) := c in same_outcome (run free s g o) e)")
    ctx.oblige("correspondence:api/wcs/frames unit handling == Units.v at Q", bad == [], f"{len(bad) if bad else bad} differ")
    if bad:
        ctx.extra["disagreements"] = [meta[i] for i in bad[:6]]
    oracle_realistic(ctx, rng, problems, 10 if ctx.quick else 150)
    for what, rec, key in problems:
        ctx.violation(what, rec, key=key)
