"""C15 — region selection applies to each point the transform of its own region.

Proof:  coq/theories/C15/Selector.v — hand model (exact integer arithmetic) and theorems: array_cell_correct (the cell whose pixel
        area contains the point, via C13's nearest-centre theorem), far_edge_is_error, overlap_check_sound (a passing overlap check
        implies pairwise disjoint open ranges, any order), range_unique_label / no_label_outside / nan_no_label / end_points_excluded,
        dict_label_within_tol, selector_applies_own_transform (the flatten / gather-by-label / apply / scatter algorithm equals the
        per-point specification for every batch).
Tie:    AST pins + correspondence: the model is evaluated in Coq on the same masks / ranges / tables / points (1/8-pixel exact) as the
        implementation, labels and error kinds compared exactly.
Search: direct property oracle on the implementation.
"""
import math

import numpy as np

from lib.common import gz, gzl, glist
from lib import pins

LEVEL = "proof"
RULE = ("random integer and string masks with points inside, exactly on cell boundaries (+-0.5), beyond far edges and at negative positions; "
        "disjoint and overlapping range sets in shuffled dict order with keys inside / at end points / between / beyond / NaN; key tables "
        "with tolerance; label->transform tables with missing labels; mixed batches through RegionsSelector with finite and NaN undefined "
        "values. non-trivial = boundary / far-edge / end-point / missing-label case; distinct by content")
ASSUMPTIONS = [
    "transforms registered in a selector are themselves pointwise (C06); mapped label models return their constant",
    "np.isclose(key, x, atol) = |key - x| <= atol + 1e-5*|x| (numpy default rtol) — measured by the correspondence",
]
PINS = ["gwcs/selector.py::LabelMapperArray.evaluate", "gwcs/selector.py::LabelMapperDict.evaluate",
        "gwcs/selector.py::LabelMapperRange.evaluate", "gwcs/selector.py::LabelMapperRange._has_overlapping",
        "gwcs/selector.py::RegionsSelector.evaluate", "gwcs/selector.py::RegionsSelector.set_input",
        "gwcs/selector.py::get_unique_regions", "gwcs/utils.py::_toindex"]
HEADER = ("From Coq Require Import ZArith List Bool. Import ListNotations. Open Scope Z_scope.\n"
          "From GW Require Import Base.Py C13.Toindex C15.Selector.\n")
U = 1000000     # integer unit for range / dict keys: 1e-6


def run(ctx):
    from astropy.modeling import models
    from gwcs import selector
    from gwcs.utils import RegionError
    ctx.trusted += ["hand model coq/theories/C15/Selector.v; tools/checks/C15.py generators and oracle"]
    ctx.gate()
    ctx.coq_theorems("C15/Selector", ["array_cell_correct", "far_edge_is_error", "overlap_check_sound", "range_unique_label",
                                      "no_label_outside", "nan_no_label", "end_points_excluded", "dict_label_within_tol",
                                      "selector_applies_own_transform"])
    pins.check(ctx, PINS)
    rng = ctx.rng
    problems = []
    # ---------- (1) LabelMapperArray ------------------------------------------------------------
    terms_a, meta_a = [], []
    for mi in range(12 if ctx.quick else 150):
        ny, nx = rng.randint(1, 7), rng.randint(1, 8)
        use_str = mi % 3 == 2
        ints = [[rng.randint(0, 5) for _ in range(nx)] for _ in range(ny)]
        names = ["", "a", "bb", "c", "dd", "e"]
        mask = np.array([[names[v] for v in row] for row in ints]) if use_str else np.array(ints)
        lma = selector.LabelMapperArray(mask)
        cmask = glist([gzl(r) for r in ints])
        for _ in range(40):
            cls = rng.choice(["inside", "boundary", "far", "negative"])
            if cls == "inside":
                x8, y8 = rng.randint(-3, 8 * nx - 5), rng.randint(-3, 8 * ny - 5)
            elif cls == "boundary":
                x8, y8 = 8 * rng.randint(0, nx) - 4, 8 * rng.randint(0, ny) - 4
                if rng.random() < 0.5:
                    y8 = rng.randint(-3, 8 * ny - 5)
            elif cls == "far":
                x8, y8 = rng.choice([8 * nx - 4, 8 * nx + 3, rng.randint(0, 8 * nx - 5)]), rng.choice([8 * ny - 4, 8 * ny + 9])
            else:
                x8, y8 = -rng.randint(5, 8 * nx + 20), rng.randint(-3, 8 * ny - 5)
            try:
                lab = lma(x8 / 8.0, y8 / 8.0)
                lab = names.index(str(lab)) if use_str else int(lab)
                exp = f"(Some {gz(lab)})"
                got = lab
            except selector.LabelMapperArrayIndexingError:
                exp, got = "None", "IndexError"
            except Exception as e:  # noqa
                problems.append((f"LabelMapperArray raised {type(e).__name__} at ({x8 / 8}, {y8 / 8})", {"shape": [ny, nx]}, None))
                continue
            terms_a.append(f"({cmask}, {gz(x8)}, {gz(y8)}, {exp})")
            meta_a.append((ints, x8 / 8, y8 / 8, got))
            ctx.case(key=("lma", mi, x8, y8), nontrivial=cls != "inside", kind="array/" + cls,
                     sample={"mask_shape": [ny, nx], "point": [x8 / 8, y8 / 8], "class": cls, "result": got})
            # oracle
            kx, ky = math.floor(x8 / 8 + 0.5), math.floor(y8 / 8 + 0.5)
            if 0 <= kx < nx and 0 <= ky < ny:
                if got != ints[ky][kx]:
                    problems.append((f"LabelMapperArray at ({x8 / 8}, {y8 / 8}) returns {got}, the containing cell ({kx},{ky}) holds {ints[ky][kx]}",
                                     {"mask": ints, "point": [x8 / 8, y8 / 8]}, None))
            elif kx >= nx or ky >= ny:
                if got != "IndexError":
                    problems.append((f"LabelMapperArray at ({x8 / 8}, {y8 / 8}) beyond the far edge of a {ny}x{nx} mask returns {got} instead of an indexing error",
                                     {"mask": ints, "point": [x8 / 8, y8 / 8]}, None))
    fa = ctx.coq_failing("arr", HEADER, terms_a, "(fun c => match c with (m, x, y, e) => check_array m x y e end)")
    ctx.oblige("correspondence: LabelMapperArray model (rounding + wrap/IndexError semantics in Coq) = implementation", fa == [],
               "" if fa == [] else str([meta_a[i] for i in (fa or [])[:3]]))
    # ---------- (2) LabelMapperRange ---------------------------------------------------------------
    terms_r, meta_r, terms_o, meta_o = [], [], [], []
    for ri in range(30 if ctx.quick else 400):
        k = rng.randint(1, 5)
        cuts = sorted(rng.sample(range(0, 40), 2 * k))
        rs = [(cuts[2 * i] / 4.0, cuts[2 * i + 1] / 4.0) for i in range(k)]
        overlapping = False
        if rng.random() < 0.35 and k >= 2:
            i = rng.randrange(k - 1)
            style = rng.choice(["extend", "same-start", "nested"])
            if style == "extend":
                rs[i] = (rs[i][0], rs[i + 1][0] + rng.choice([0.25, 0.5, 3.0]))
            elif style == "same-start":        # two ranges with one lower end point and different upper ones
                rs[i + 1] = (rs[i][0], rs[i][1] + rng.choice([0.25, 1.0, -0.125]))
                if rs[i + 1][1] <= rs[i + 1][0]:
                    rs[i + 1] = (rs[i][0], rs[i][1] + 0.25)
            else:                               # one range strictly inside another
                rs[i + 1] = (rs[i][0] + (rs[i][1] - rs[i][0]) / 4.0, rs[i][1] - (rs[i][1] - rs[i][0]) / 4.0)
            overlapping = True
        rng.shuffle(rs)
        labels = list(range(1, k + 1))
        mapper = {r: models.Const2D(l) for r, l in zip(rs, labels)}
        crs = glist([f"({gz(int(round(a * U)))}, {gz(int(round(b * U)))})" for a, b in rs])
        try:
            lmr = selector.LabelMapperRange(("x", "y"), mapper, inputs_mapping=models.Mapping((0,), n_inputs=2))
            rejected = False
        except ValueError:
            rejected = True
        terms_o.append(f"({crs}, {'true' if rejected else 'false'})")
        meta_o.append((rs, rejected))
        ctx.case(key=("ovl", tuple(rs)), nontrivial=overlapping, kind="range/overlap-check", sample={"ranges": rs, "rejected": rejected})
        srt = sorted(rs)
        truly = any(srt[i][1] > srt[i + 1][0] for i in range(len(srt) - 1))
        if truly and not rejected:
            problems.append((f"overlapping ranges {rs} were accepted", {"ranges": rs}, None))
        if rejected:
            continue
        for _ in range(12):
            c = rng.choice(["in", "end", "between", "beyond", "nan"])
            r = rng.choice(rs)
            key = {"in": (r[0] + r[1]) / 2, "end": rng.choice(r), "between": r[1] + 0.03125, "beyond": 1000.5, "nan": math.nan}[c]
            import warnings
            with warnings.catch_warnings():
                warnings.simplefilter("ignore")
                lab = float(lmr(key, 1.0))
            ckey = "None" if math.isnan(key) else f"(Some {gz(int(round(key * U)))})"
            ctab = glist([f"(({gz(int(round(a * U)))}, {gz(int(round(b * U)))}), {gz(l)})" for (a, b), l in zip(rs, labels)])
            terms_r.append(f"({ctab}, {ckey}, {gz(int(lab))})")
            meta_r.append((rs, key, lab))
            ctx.case(key=("rng", tuple(rs), key if key == key else "nan"), nontrivial=c in ("end", "nan", "between"), kind="range/" + c,
                     sample={"ranges": rs, "key": str(key), "label": lab})
            want = 0
            for (a, b), l in zip(rs, labels):
                if a < key < b:
                    want = l
            if lab != want:
                problems.append((f"LabelMapperRange({rs}) at key {key} returns {lab}, expected {want}", {"ranges": rs, "key": str(key)}, None))
    fr = ctx.coq_failing("rng", HEADER, terms_r, "(fun c => match c with (tab, key, e) => range_label tab key =? e end)")
    fo = ctx.coq_failing("ovl", HEADER, terms_o, "(fun c => match c with (rs, e) => Bool.eqb (has_overlapping rs) e end)")
    ctx.oblige("correspondence: LabelMapperRange.evaluate model = implementation (labels incl. end points, NaN, outside)", fr == [],
               "" if fr == [] else str([meta_r[i] for i in (fr or [])[:3]]))
    ctx.oblige("correspondence: _has_overlapping model = implementation's accept/reject decision", fo == [],
               "" if fo == [] else str([meta_o[i] for i in (fo or [])[:3]]))
    # ---------- (3) LabelMapperDict ------------------------------------------------------------------
    terms_d, meta_d = [], []
    for di in range(20 if ctx.quick else 300):
        keys = sorted(rng.sample(range(1, 60), rng.randint(1, 4)))
        keysf = [kk / 4.0 for kk in keys]
        atol = rng.choice([1e-3, 1e-2, 0.05])
        tab = {kf: models.Const2D(10 + i) for i, kf in enumerate(keysf)}
        lmd = selector.LabelMapperDict(("x", "y"), tab, atol=atol, inputs_mapping=models.Mapping((0,), n_inputs=2))
        ctab = glist([f"({gz(int(round(kf * U)))}, {gz(10 + i)})" for i, kf in enumerate(keysf)])
        for _ in range(8):
            kf = rng.choice(keysf)
            c = rng.choice(["exact", "near", "far"])
            x = {"exact": kf, "near": kf + rng.choice([-1, 1]) * atol / 4, "far": kf + rng.choice([-1, 1]) * (0.125 + 3 * atol)}[c]
            x = round(x * U) / U
            lab = float(lmd(x, 2.0))
            terms_d.append(f"({gz(int(round(atol * U)))}, {ctab}, {gz(int(round(x * U)))}, {gz(int(lab))})")
            meta_d.append((keysf, atol, x, lab))
            ctx.case(key=("dict", tuple(keysf), atol, x), nontrivial=c != "exact", kind="dict/" + c, sample={"keys": keysf, "atol": atol, "x": x, "label": lab})
            want = 0
            for i, k2 in enumerate(keysf):
                if abs(k2 - x) <= atol + 1e-5 * abs(x):
                    want = 10 + i
            if lab != want:
                problems.append((f"LabelMapperDict(keys {keysf}, atol {atol}) at {x} returns {lab}, expected {want}", {"keys": keysf, "x": x}, None))
    fd = ctx.coq_failing("dict", HEADER, terms_d, "(fun c => match c with (atol, tab, x, e) => dict_label atol tab x =? e end)")
    ctx.oblige("correspondence: LabelMapperDict model (isclose with numpy rtol) = implementation", fd == [],
               "" if fd == [] else str([meta_d[i] for i in (fd or [])[:3]]))
    # ---------- (4) RegionsSelector (oracle; its algorithm is the subject of selector_applies_own_transform) ---------
    for si in range(10 if ctx.quick else 120):
        ny, nx = rng.randint(3, 7), rng.randint(3, 8)
        ints = [[rng.randint(0, 4) for _ in range(nx)] for _ in range(ny)]
        lma = selector.LabelMapperArray(np.array(ints))
        have = sorted(set(v for row in ints for v in row) - {0})
        with_tr = [l for l in have if rng.random() < 0.7] or have[:1]
        table = {l: (models.Shift(10 * l) & models.Scale(l + 1)) for l in with_tr}
        for undef in (np.nan, -999.0):
            rs = selector.RegionsSelector(("x", "y"), ("a", "b"), table, lma, undefined_transform_value=undef)
            n = rng.randint(1, 12)
            shape = rng.choice([(n,), (2, max(1, n // 2))])
            xs = np.array([rng.uniform(-0.45, nx - 0.55) for _ in range(int(np.prod(shape)))]).reshape(shape)
            ys = np.array([rng.uniform(-0.45, ny - 0.55) for _ in range(int(np.prod(shape)))]).reshape(shape)
            if len(shape) == 2 and rng.random() < 0.5:
                xs, ys = np.asfortranarray(xs), np.asfortranarray(ys)       # memory layout must not matter
            import warnings
            with warnings.catch_warnings():
                warnings.simplefilter("ignore")
                a, b = rs(xs, ys)
            ctx.case(key=("sel", si, str(undef), shape), nontrivial=len(with_tr) < len(have) or 0 in [v for r in ints for v in r],
                     kind="selector", sample={"mask": ints, "labels_with_transform": with_tr, "undefined": str(undef), "shape": list(shape)})
            if np.shape(a) != shape:
                problems.append((f"RegionsSelector output shape {np.shape(a)} for input shape {shape}", {}, None))
                continue
            for x, y, av, bv in zip(np.asarray(xs).ravel(order='C'), np.asarray(ys).ravel(order='C'), np.ravel(a), np.ravel(b)):
                lab = ints[math.floor(y + 0.5)][math.floor(x + 0.5)]
                if lab != 0 and lab in table:
                    wa, wb = x + 10 * lab, y * (lab + 1)
                else:
                    wa = wb = undef
                okk = all((math.isnan(w_) and math.isnan(g_)) or abs(w_ - g_) < 1e-12 for w_, g_ in ((wa, av), (wb, bv)))
                if not okk:
                    key = "C15/undefined-value-uninitialised" if (lab != 0 and lab not in table and not math.isnan(undef)) else None
                    problems.append((f"RegionsSelector at ({x:.3f},{y:.3f}) (label {lab}, {'no ' if lab not in table else ''}transform) returns ({av},{bv}), expected ({wa},{wb})",
                                     {"mask": ints, "labels_with_transform": with_tr, "undefined_transform_value": str(undef), "point": [x, y]}, key))
                    break
            # set_input
            for l in have:
                try:
                    t = rs.set_input(l)
                    if l not in table or t is not table[l]:
                        problems.append((f"set_input({l}) returned a transform that is not the registered one", {}, None))
                except RegionError:
                    if l in table:
                        problems.append((f"set_input({l}) reports an unknown region for a registered label", {}, None))
    seen = set()
    for what, rep, key in problems:
        kk = key or what[:30]
        if kk in seen:
            continue
        seen.add(kk)
        ctx.violation("C15 fails on the implementation: " + what, rep, key=key)
    if (fa or fr or fo or fd) and not problems:
        ctx.violation("model and implementation disagree; the oracle found no violated clause", {"array": fa, "range": fr, "overlap": fo, "dict": fd},
                      found_input=False)
