"""C03 — the bounding box masks exactly the out-of-range inputs and nothing else.

Proof:  coq/theories/C03/BBox.v — hand model of WCS.__call__'s defaults and astropy's box evaluation with IEEE binary64
        comparisons: mask_exact, mask_off_noop, no_box_noop, batch_pointwise, edge_inclusive (closed interval, any doubles),
        nan_not_outside; the setter/getter part (axis order, rejection of a wrong-shaped box without change) is proved on the
        code regenerated from wcs.py in C07 (C07_bbox_roundtrip, C07_bbox_wrong_shape_rejected) and re-checked here.
Tie:    AST pins on the hand-modelled functions + bit-exact correspondence: for every generated point the model decides
        (inside Coq, primitive floats) whether it is masked, and the implementation's output must be the fill value on every
        axis or exactly (float.hex) the unmasked output; per-axis products of {inside, lo, hi, nextafter either side, far,
        NaN, +-inf} are enumerated exhaustively for dim <= 3.
"""
import itertools
import math

import numpy as np

from lib.common import gz, glist, gfloat, gbool
from lib import pins, families

LEVEL = "proof"
RULE = ("WCS of 1..4 pixel axes (integer-affine, exact); boxes integer / fractional / zero-width / offset; fill in {default NaN, NaN, 0.0, int 0, 1e-300, "
        "+-inf, finite}; with_bounding_box in {default, True, False}; per-axis coordinate classes {inside, =lo, =hi, nextafter(lo,-inf), "
        "nextafter(hi,+inf), far, NaN, +inf} — full product for dim<=3, sampled for dim 4; scalar, 1-d, n-d and broadcast inputs. "
        "non-trivial = at least one axis on an edge or one ulp from it; distinct = (wcs, box, fill, flag, point)")
ASSUMPTIONS = [
    "astropy ModelBoundingBox evaluation is what BBox.v says (outside = x < lo or x > hi per axis; fill on every output) — measured by this run",
    "the unmasked transform f is taken from the implementation (with_bounding_box=False) — C03 is about masking, not about f",
]
PINS = ["gwcs/wcs.py::WCS.__call__", "gwcs/wcs.py::WCS.transform", "gwcs/wcs.py::WCS.bounding_box", "gwcs/wcs.py::WCS.bounding_box@setter",
        "gwcs/api.py::GWCSAPIMixin.pixel_bounds"]
HEADER = ("From Coq Require Import ZArith List Bool PrimFloat. Import ListNotations.\n"
          "From GW Require Import Base.Fl C03.BBox.\n")


def axis_values(rng, lo, hi):
    mid = (lo + hi) / 2.0 if hi > lo else lo
    return [("in", mid), ("lo", lo), ("hi", hi), ("lo-", math.nextafter(lo, -math.inf)), ("hi+", math.nextafter(hi, math.inf)),
            ("far", hi + 1000.5), ("nan", math.nan), ("inf", math.inf)]


def run(ctx):
    from gwcs import wcs
    ctx.trusted += ["hand model coq/theories/C03/BBox.v; tools/checks/C03.py generators and bit-exact differ",
                    "FloatAxioms (Coq stdlib: specification of primitive float comparisons) for edge_inclusive / nan_not_outside"]
    ctx.gate()
    ctx.coq_theorems("C03/BBox", ["mask_exact", "mask_off_noop", "no_box_noop", "inside_is_plain", "outside_is_fill",
                                  "batch_pointwise", "edge_inclusive", "nan_not_outside", "ulp_examples"])
    pins.check(ctx, PINS)
    rng = ctx.rng
    terms, meta, problems = [], [], []
    nw = 12 if ctx.quick else 80
    # the first twelve are a fixed schedule (dimension, form in which the box is given, permuted axes_order of the input frame)
    SCHED = [(1, "tuple", False), (2, "object-C", False), (3, "tuple", True), (4, "list", False), (2, "array", True), (3, "object-C", False),
             (2, "object-F", False), (3, "object-F", True), (1, "object-F", False), (2, "list", True), (4, "object-C", True), (3, "array", False)]
    for wi in range(nw):
        n = SCHED[wi][0] if wi < len(SCHED) else (wi % 4) + 1
        # every third WCS has an input frame object whose axes_order is not the identity: the box is still per input position
        fao = None
        if n >= 2 and (SCHED[wi][2] if wi < len(SCHED) else wi % 3 == 2):
            fao = list(range(n))
            while fao == list(range(n)):
                rng.shuffle(fao)
        fam = families.affine_nd(rng, n, frame_axes_order=fao)
        w = fam.w
        kind = rng.choice(["int", "frac", "zero", "offset"])
        box = []
        for _ in range(n):
            if kind == "int":
                lo = float(rng.randint(-5, 3)); hi = lo + rng.randint(1, 20)
            elif kind == "frac":
                lo = rng.uniform(-3, 3); hi = lo + rng.uniform(0.1, 9)
            elif kind == "zero":
                lo = hi = float(rng.randint(-3, 9)) + rng.choice([0.0, 0.5])
            else:
                lo = 1000.0 + rng.uniform(0, 5); hi = lo + rng.uniform(1, 50)
            box.append((lo, hi))
        # the box is given as a tuple, as lists, as an array, or as a bounding-box object (in either storage order): always per input axis
        form = SCHED[wi][1] if wi < len(SCHED) else rng.choice(["tuple", "tuple", "list", "array", "object-F", "object-C"])
        if form == "tuple" or (n == 1 and form in ("list", "array")):
            w.bounding_box = box[0] if n == 1 else tuple(box)
        elif form == "list":
            w.bounding_box = [list(b) for b in box]
        elif form == "array":
            w.bounding_box = np.array(box)
        else:
            from astropy.modeling.bounding_box import ModelBoundingBox
            from astropy.modeling import models as _m
            carrier = _m.Identity(n)
            carrier.inputs = w.forward_transform.inputs
            order = form[-1]
            val = box[0] if n == 1 else (tuple(box) if order == "F" else tuple(box[::-1]))
            w.bounding_box = ModelBoundingBox.validate(carrier, val, order=order)
        # reported back in the same (x, y, ...) order
        rep = w.bounding_box.bounding_box(order="F")
        rep = (rep,) if n == 1 else rep
        if [tuple(map(float, r)) for r in rep] != box or [tuple(map(float, r)) for r in w.pixel_bounds] != box:
            problems.append((f"box {box} (given as {form}; input frame axes_order {fao}) is reported back as {rep} / pixel_bounds {w.pixel_bounds}",
                             {"box": box, "given_as": form, "input_frame_axes_order": fao}))
        # wrong dimensionality is rejected and changes nothing
        bad = [(0.0, 1.0)] * (n + 1)
        try:
            w.bounding_box = tuple(bad)
            problems.append((f"a {n + 1}-axis box was accepted by a {n}-axis WCS", {"box": bad}))
        except Exception:  # noqa
            rep2 = w.bounding_box
            rep2 = None if rep2 is None else rep2.bounding_box(order="F")
            rep2 = (rep2,) if (n == 1 and rep2 is not None) else rep2
            if rep2 is None or [tuple(map(float, r)) for r in rep2] != box:
                problems.append((f"rejected {n + 1}-axis box changed the stored box {box} to {rep2}", {"box": box}))
        classes = [axis_values(rng, lo, hi) for lo, hi in box]
        combos = list(itertools.product(*classes)) if n <= 3 else [tuple(rng.choice(c) for c in classes) for _ in range(400)]
        if ctx.quick and len(combos) > 200:
            combos = rng.sample(combos, 200)
        for combo in combos:
            pt = [v for _, v in combo]
            tags = [t for t, _ in combo]
            fill = rng.choice([None, None, math.nan, math.inf, -math.inf, -999.25, 0.0, 0, 1e-300])   # (not -0.0: the sign of a zero fill is not kept by astropy and not claimed)
            wb = rng.choice([None, None, True, False])
            kw = {}
            if fill is not None:
                kw["fill_value"] = fill
            if wb is not None:
                kw["with_bounding_box"] = wb
            try:
                with np.errstate(all="ignore"):
                    unm = np.atleast_1d(np.asarray(w(*pt, with_bounding_box=False), dtype=float))
                    got = np.atleast_1d(np.asarray(w(*pt, **kw), dtype=float))
            except Exception as e:  # noqa
                problems.append((f"evaluation raised {type(e).__name__}: {e}", {"point": pt, "box": box}))
                continue
            # WCS.transform between the first and the last frame of a single-step pipeline is the same evaluation with the same keywords
            if len(w.available_frames) == 2 and rng.random() < 0.3:
                try:
                    with np.errstate(all="ignore"):
                        via = np.atleast_1d(np.asarray(w.transform(w.available_frames[0], w.available_frames[1], *pt, **kw), dtype=float))
                    if not np.array_equal(via, got, equal_nan=True):
                        problems.append((f"transform({w.available_frames[0]!r}, {w.available_frames[1]!r}, {pt}, **{kw}) = {via.tolist()} but "
                                         f"calling the WCS with the same keywords gives {got.tolist()} (box {box})", {"point": pt, "box": box, "kwargs": str(kw)}))
                except Exception as e:  # noqa
                    problems.append((f"transform() raised {type(e).__name__}: {e}", {"point": pt, "box": box}))
            cbox = "(Some " + glist([f"({gfloat(lo)}, {gfloat(hi)})" for lo, hi in box]) + ")"
            cwb = "None" if wb is None else f"(Some {gbool(wb)})"
            cfill = "None" if fill is None else f"(Some {gfloat(fill)})"
            terms.append(f"({n}%nat, {cbox}, {cwb}, {cfill}, {glist([gfloat(v) for v in pt])}, "
                         f"{glist([gfloat(float(v)) for v in unm])}, {glist([gfloat(float(v)) for v in got])})")
            meta.append((n, box, wb, fill, pt))
            ctx.case(key=(wi, tuple(tags), str(fill), wb), nontrivial=any(t in ("lo", "hi", "lo-", "hi+") for t in tags),
                     kind=f"dim{n}/{kind}", sample={"dim": n, "box": box, "point_classes": tags, "fill": str(fill), "with_bounding_box": wb})
            # independent oracle (plain Python comparisons)
            out = any((v < lo) or (v > hi) for v, (lo, hi) in zip(pt, box))
            eff_fill = math.nan if fill is None else fill
            want = np.full(unm.shape, eff_fill) if (out and wb is not False) else unm
            if not all((math.isnan(a) and math.isnan(b)) or a.hex() == b.hex() for a, b in zip(map(float, got), map(float, want))):
                problems.append((f"point {pt} (classes {tags}) with box {box}, fill {fill}, with_bounding_box={wb}: got {got.tolist()}, "
                                 f"expected {'fill on every axis' if (out and wb is not False) else 'the unmasked value ' + str(unm.tolist())}",
                                 {"dim": n, "box": box, "point": [float.hex(v) if v == v else 'nan' for v in pt], "fill": str(fill), "with_bounding_box": wb}))
        # array inputs (same shape on every axis) are masked point by point
        if n >= 2:
            xs = np.array([box[0][0] - 1, box[0][0], (box[0][0] + box[0][1]) / 2, box[0][1], box[0][1] + 1])
            rest = [(b[0] + b[1]) / 2 for b in box[1:]]
            X = xs.reshape(5, 1) * np.ones((1, 2))
            with np.errstate(all="ignore"):
                arr = np.asarray(w(X, *[np.full(X.shape, r) for r in rest]), dtype=float)
                sc = np.asarray([[np.atleast_1d(np.asarray(w(x, *rest), dtype=float)) for _ in range(2)] for x in xs])
            sc = np.moveaxis(sc, -1, 0)
            if arr.shape != sc.shape or not np.array_equal(arr, sc, equal_nan=True):
                problems.append(("n-d array input is not masked point by point", {"box": box, "xs": xs.tolist()}))
            # broadcastable mix (array on one axis, scalars on the others)
            with np.errstate(all="ignore"):
                mix = w(X, *rest)
            shapes = [np.shape(a) for a in mix]
            if any(sh != X.shape for sh in shapes):
                problems.append((f"array x with scalar other axes: outputs have shapes {shapes}, and the outputs that stay scalar are not "
                                 f"replaced by the fill value for the masked points", {"box": box, "x": X.tolist(), "others": rest},
                                 "C03/broadcast-mixed-shapes"))
    failing = ctx.coq_failing("cases", HEADER, terms,
                              "(fun c => match c with (n, box, wb, fill, xs, unm, got) => check_point n box wb fill xs unm got end)")
    ctx.oblige("correspondence: model masking decision (primitive floats in Coq) reproduces the implementation bit for bit",
               failing == [], "" if failing == [] else f"failing: {[meta[i] for i in (failing or [])[:3]]}")
    seen = set()
    for pr in problems:
        what, rep = pr[0], pr[1]
        key = pr[2] if len(pr) > 2 else None
        if what[:50] in seen:
            continue
        seen.add(what[:50])
        ctx.violation("C03 fails on the implementation: " + what, rep, key=key)
    if failing and not [p for p in problems if len(p) < 3]:
        ctx.violation("model and implementation disagree on masking; the plain-Python oracle found no violated clause",
                      {"first": [str(meta[i]) for i in failing[:3]]}, found_input=False)
    ctx.extra["exhaustive"] = False
    ctx.extra["exhaustive_families"] = "per-axis class products enumerated completely for dim <= 3 (thorough tier)"
