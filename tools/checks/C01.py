"""C01 — pipeline evaluation is exactly the composition of its steps, for any frame pair.

Proof:  coq/dyn/C01/{Sem,Proofs,Properties}.v, compiled on every run against Gen_pipeline.v, which
        tools/py2coq REGENERATES from gwcs/wcs.py (get_transform, forward_transform, _get_frame_index,
        _get_frame_name, available_frames, set_transform, insert_transform, insert_frame).
Tie:    (1) the translator (fail-closed);  (2) correspondence: the regenerated Gallina code is evaluated by
        vm_compute on the same pipelines / frame pairs / integer points as the implementation
        (integer-exact leaf transforms), error kinds included;  (3) fix_inputs: hand model + correspondence.
Search: property oracle on the implementation (manual step-by-step composition).
"""
import itertools

import numpy as np

from lib.common import gz, gzl, glist
from lib import pipes

LEVEL = "proof"
RULE = ("pipelines of 1..6 steps, dimension 1..4, frames as objects or bare names, integer-exact invertible / "
        "non-invertible leaf transforms; per pipeline ALL ordered frame pairs (by name and by object), unknown frames, "
        "forward call, WCS.transform, fix_inputs on random input subsets; integer points. non-trivial = returns a "
        "transform value (not None / error); distinct = distinct (pipeline, query, point)")
ASSUMPTIONS = [
    "astropy: `a | b` evaluates b(a(x)); (a|b).inverse = b.inverse | a.inverse; fix_inputs(m, {i: c}) evaluates m with input i "
    "held at c — Section variables den/den_inv/fill in Sem.v; exercised numerically by the correspondence",
    "frame objects are identified by their name for lookup (what _get_frame_index does)",
]
THEOREMS = ["C01_forward_is_chain", "C01_get_transform_down", "C01_get_transform_up", "C01_inverse_sound",
            "C01_get_transform_self", "C01_unknown_from", "C01_unknown_to", "C01_lookup_obj_eq_name",
            "C01_available_frames", "C01_fix_inputs_eval", "C01_nonvacuous"]
HEADER = ("From Coq Require Import ZArith List Bool. Import ListNotations. Open Scope Z_scope.\n"
          "From GW Require Import Base.Py.\nFrom WC01 Require Import Gen_pipeline Sem Proofs.\n")


def gen_pipeline(rng, nsteps=None):
    n = rng.randint(1, 4)
    k = nsteps or rng.randint(1, 6)
    leaves = [pipes.random_leaf(rng, i, n) for i in range(k - 1)]
    as_obj = [rng.random() < 0.6 for _ in range(k)]
    return n, leaves, as_obj


def build(n, leaves, as_obj):
    from gwcs import wcs
    k = len(as_obj)
    frames = [pipes.make_frame(n, f"f{i}", as_obj[i]) for i in range(k)]
    pl = [(frames[i], leaves[i].model() if i < k - 1 else None) for i in range(k)]
    return wcs.WCS(pl), frames


def coq_wcs(n, leaves, as_obj):
    k = len(as_obj)
    steps = [f"mk_step {pipes.coq_fref(i, as_obj[i])} {leaves[i].coq_model() if i < k - 1 else 'None'}" for i in range(k)]
    return "(mk_wcs " + glist(steps) + " [])", glist([l.coq_def() for l in leaves])


def expected_of(fn):
    try:
        r = fn()
    except Exception as e:  # noqa
        return ("err", pipes.errkind(e))
    if r is None:
        return ("none",)
    return ("val", r)


def coq_expected(exp, ints):
    if exp[0] == "err":
        return f"(RErr {exp[1]})"
    if exp[0] == "none":
        return "RNone"
    return f"(RVal {gzl(ints)})"


def oracle_pair(w, frames, leaves, i, j, pt, fi=None, fj=None):
    """the property statement, directly on the implementation (fi / fj: the frame given by object or by name)"""
    k = len(frames)
    fi = frames[i] if fi is None else fi
    fj = frames[j] if fj is None else fj
    try:
        t = w.get_transform(fi, fj)
    except Exception as e:  # noqa
        if i > j and any(not l.invertible for l in leaves[j:i]):
            return None     # no inverse exists: raising is right
        return f"get_transform({i},{j}) raised {type(e).__name__}"
    if i == j:
        return None if t is None else "transform from a frame to itself is not None"
    x = list(pt)
    if i < j:
        for s in range(i, j):
            x = leaves[s].apply(x)
    else:
        for s in range(i - 1, j - 1, -1):
            m = w.pipeline[s].transform.inverse
            x = list(np.atleast_1d(m(*x)))
    got = np.atleast_1d(np.asarray(t(*pt), dtype=float)).ravel()
    if not np.array_equal(got, np.asarray(x, dtype=float)):
        return f"get_transform({i},{j}) at {pt} gives {got.tolist()} but composing the steps gives {x}"
    return None


def mixed_dim_probe(ctx, rng, oracle_bad):
    """pipelines whose frames have different numbers of axes (2-D -> 1-D -> 2-D and 2-D -> 2-D -> 1-D): transform() between any two
    frames, frames given by name or object, with and without units, must evaluate as get_transform does"""
    import astropy.units as u
    from astropy import coordinates as coord
    from astropy.modeling import models
    from gwcs import wcs, coordinate_frames as cf
    for k in range(6 if ctx.quick else 40):
        a, b, c = rng.choice([1, 2, -3]), rng.choice([0.5, 2.0]), rng.randint(1, 9)
        det = cf.Frame2D(name="detector", unit=(u.pix, u.pix))
        if k % 2 == 0:
            slit = cf.CoordinateFrame(1, ("SPATIAL",), (0,), unit=(u.arcsec,), name="slit", axes_names=("s",))
            sky = cf.Frame2D(name="sky", unit=(u.deg, u.deg))
            t1 = models.Mapping((0,), n_inputs=2) | models.Scale(a)                 # (x, y) -> a x
            t2 = models.Mapping((0, 0)) | (models.Scale(b) & models.Shift(c))      # s -> (b s, s + c)
            fr = [det, slit, sky]
            ref1 = lambda x, y: (a * x,)
            ref2 = lambda s_: (b * s_, s_ + c)
        else:
            foc = cf.Frame2D(name="focal", unit=(u.mm, u.mm))
            wave = cf.SpectralFrame(axes_order=(0,), unit=(u.um,), name="wave")
            t1 = models.Scale(a) & models.Shift(c)
            t2 = models.Mapping((1,), n_inputs=2) | models.Scale(b)                 # (u, v) -> b v
            fr = [det, foc, wave]
            ref1 = lambda x, y: (a * x, y + c)
            ref2 = lambda p, q: (b * q,)
        w = wcs.WCS([(fr[0], t1), (fr[1], t2), (fr[2], None)])
        xs, ys = np.array([1.0, 2.0, 5.0]), np.array([3.0, 4.0, 7.0])
        for (i, j) in ((0, 1), (0, 2), (1, 2)):
            for pts, lab in (((xs, ys), "array"), ((float(xs[0]), float(ys[0])), "scalar")):
                args = pts if i == 0 else tuple(np.asarray(v) for v in ref1(*pts))
                want = ref1(*args) if (i, j) == (0, 1) else (ref2(*ref1(*args)) if (i, j) == (0, 2) else ref2(*args))
                for by in ("name", "object"):
                    fa, fb = (fr[i].name, fr[j].name) if by == "name" else (fr[i], fr[j])
                    for wu in (False, True, "quantity-in"):
                        rec = dict(frames=[f.name for f in fr], naxes=[f.naxes for f in fr], call=f"transform({fr[i].name}, {fr[j].name}) by {by}",
                                   with_units=wu, inputs=lab)
                        ctx.case(key=("mixdim", k, i, j, lab, by, wu), nontrivial=True, kind="transform/mixed-dimension", sample=rec)
                        try:
                            if wu == "quantity-in":      # inputs as quantities in the units of the from-frame or in another, convertible unit
                                other = {"pix": "kpix", "arcsec": "deg", "mm": "m", "deg": "arcmin", "um": "nm"}
                                got = w.transform(fa, fb, *[(np.asarray(v) * un).to(other[str(un)]) if (k + j) % 2 else np.asarray(v) * un
                                                            for v, un in zip(args, fr[i].unit)])
                            else:
                                got = w.transform(fa, fb, *args, with_units=wu)
                        except Exception as e:  # noqa
                            oracle_bad.append((f"{rec['call']} (with_units={wu}, {lab} input; frames have {rec['naxes']} axes) raised "
                                               f"{type(e).__name__}: {str(e)[:80]}", rec))
                            continue
                        got = got if isinstance(got, tuple) else (got,)
                        vals = []
                        for g in got:
                            if hasattr(g, "spherical"):
                                vals += [np.asarray(g.spherical.lon.deg), np.asarray(g.spherical.lat.deg)]
                            else:
                                vals.append(np.asarray(getattr(g, "value", g), dtype=float))
                        ok = len(vals) == len(want) and all(np.shape(v) == np.shape(np.asarray(x_)) and np.allclose(v, x_) for v, x_ in zip(vals, want))
                        if not ok:
                            oracle_bad.append((f"{rec['call']} (with_units={wu}, {lab} input; frames have {rec['naxes']} axes) gives "
                                               f"{[np.asarray(v).tolist() for v in vals]}, the steps compose to {[np.asarray(x_).tolist() for x_ in want]}", rec))


PINS = ["gwcs/wcs.py::WCS.fix_inputs", "gwcs/wcs.py::WCS.transform", "gwcs/wcs.py::WCS.__call__"]


def run(ctx):
    from py2coq import gen_pipeline as G, t2
    ctx.trusted += ["tools/py2coq (fail-closed Python-ast -> Gallina translator) and GW.Base.Py primitives",
                    "tools/checks/C01.py generators, integer-exact leaf models, differ, oracle"]
    ctx.gate()
    from lib import pins as _pins
    _pins.check(ctx, PINS)      # hand-modelled beside the T2-translated methods
    try:
        gen_src = G.gen(__import__("lib.common", fromlist=["REPO"]).REPO)
        ctx.oblige("translate: gwcs/wcs.py pipeline methods within the py2coq subset", True)
    except (t2.Unsupported, SyntaxError) as e:
        gen_src = None
        ctx.oblige("translate: gwcs/wcs.py pipeline methods within the py2coq subset", False, str(e))
    if gen_src is not None:
        res = ctx.dyn_build("WC01", {"Gen_pipeline": gen_src}, ["C01"], ["Gen_pipeline", "Sem", "FillTab", "Proofs", "Properties"])
        ctx.oblige("regenerated Gen_pipeline.v type-checks", res.get("Gen_pipeline", (False, ""))[0],
                   res.get("Gen_pipeline", (False, ""))[1][-800:])
        ctx.dyn_theorems("WC01", "Properties", res, THEOREMS)
        # meaning of the re-insertion table used for fix_inputs in the correspondence (fixed values in place, free inputs in order)
        ctx.dyn_theorems("WC01", "FillTab", res, ["fill_tab_length", "fill_tab_fixed_in_place", "fill_tab_free_inputs_in_order"])
    # ---- correspondence + oracle -------------------------------------------------------
    rng = ctx.rng
    npipes = 120 if ctx.quick else 1500
    terms, meta = [], []
    oracle_bad = []
    for pi in range(npipes):
        n, leaves, as_obj = gen_pipeline(rng, nsteps=(pi % 6) + 1)
        k = len(as_obj)
        try:
            w, frames = build(n, leaves, as_obj)
        except Exception as e:  # noqa
            ctx.violation(f"constructing a valid pipeline raised {type(e).__name__}: {e}", {"n": n, "k": k}, found_input=True)
            continue
        cw, ctab = coq_wcs(n, leaves, as_obj)
        pt = [rng.randint(-20, 20) for _ in range(n)]
        queries = []
        for i, j in itertools.product(range(k), repeat=2):
            byobj_i, byobj_j = rng.random() < 0.5, rng.random() < 0.5
            queries.append(("gt", i, j, byobj_i and as_obj[i], byobj_j and as_obj[j]))
        queries.append(("gt_unknown_from",))
        queries.append(("gt_unknown_to",))
        queries.append(("gt_unknown_both",))
        queries.append(("fwd",))
        if k >= 2:
            i, j = rng.randrange(k), rng.randrange(k)
            queries.append(("transform", i, j))
        for q in queries:
            if q[0] == "gt":
                _, i, j, oi, oj = q
                fi = frames[i] if oi else f"f{i}"
                fj = frames[j] if oj else f"f{j}"
                exp = expected_of(lambda: w.get_transform(fi, fj))
                cf_, cg = pipes.coq_fref(i, oi), pipes.coq_fref(j, oj)
                call = f"m_get_transform w {cf_} {cg}"
                bad = oracle_pair(w, frames, leaves, i, j, pt, fi, fj)
                if bad:
                    bad += f" [from given as {'object' if oi else 'name'}, to as {'object' if oj else 'name'}]"
                if bad:
                    oracle_bad.append((bad, dict(n=n, leaves=[(l.perm, l.signs, l.offs, l.invertible) for l in leaves],
                                                as_obj=as_obj, pair=(i, j), point=pt)))
            elif q[0] == "gt_unknown_from":
                exp = expected_of(lambda: w.get_transform("nosuch", f"f{k - 1}"))
                call = f"m_get_transform w (FStr 99) (FStr {k - 1})"
            elif q[0] == "gt_unknown_to":
                exp = expected_of(lambda: w.get_transform("f0", "nosuch"))
                call = "m_get_transform w (FStr 0) (FStr 99)"
            elif q[0] == "gt_unknown_both":
                exp = expected_of(lambda: w.get_transform("nosuch", "nosuch"))
                call = "m_get_transform w (FStr 99) (FStr 99)"
            elif q[0] == "fwd":
                exp = expected_of(lambda: w.forward_transform)
                call = "m_forward_transform w"
            else:
                _, i, j = q
                exp = expected_of(lambda: w.get_transform(f"f{i}", f"f{j}") and w.transform(f"f{i}", f"f{j}", *pt))
                if exp[0] == "val" and exp[1] is None:
                    exp = ("none",)
                call = f"m_get_transform w (FStr {i}) (FStr {j})"
            if q[0].startswith("gt_unknown") and exp[0] != "err":
                oracle_bad.append((f"get_transform with a frame that is not in the pipeline ({q[0][11:]}) was answered ({exp[0]}) instead of "
                                   "being reported as an error", dict(n=n, steps=k, query=q[0])))
            ints = None
            if exp[0] == "val":
                val = exp[1]
                try:
                    out = val(*pt) if callable(val) else val
                    if q[0] == "fwd":
                        out2 = w(*pt)
                        if not np.array_equal(np.atleast_1d(out), np.atleast_1d(out2)):
                            oracle_bad.append(("w(*pt) differs from forward_transform(*pt)", dict(point=pt)))
                    ints = pipes.to_ints(out)
                except Exception as e:  # noqa
                    exp = ("err", pipes.errkind(e))
                if exp[0] == "val" and ints is None:
                    ctx.violation("integer-exact pipeline produced a non-integer", {"query": q, "point": pt})
                    continue
            key = (cw, call, tuple(pt))
            ctx.case(key=key, nontrivial=(exp[0] == "val"), kind=q[0] + "/" + exp[0],
                     sample={"dim": n, "steps": k, "query": q, "point": pt, "expected": exp[0] if exp[0] != "val" else ints})
            terms.append(f"({cw}, {ctab}, (fun w : wcs => {call}), {gzl(pt)}, {coq_expected(exp, ints)})")
            meta.append((q, pt, exp[0]))
        # fix_inputs
        if k >= 2 and n >= 2:
            nfix = rng.randint(1, n - 1)
            idx = sorted(rng.sample(range(n), nfix))
            fixed = {i: rng.randint(-9, 9) for i in idx}
            rest_pt = [rng.randint(-20, 20) for _ in range(n - nfix)]
            before = pipes.to_ints(w(*pt))
            # the dict is passed with its keys in arbitrary insertion order, some of them given by input name instead of index
            order = list(idx)
            rng.shuffle(order)
            names_in = list(w.forward_transform.inputs)
            passed = {(names_in[i] if rng.random() < 0.3 else i): fixed[i] for i in order}
            exp = expected_of(lambda: w.fix_inputs(dict(passed)))
            ints = None
            if exp[0] == "val":
                try:
                    ints = pipes.to_ints(exp[1](*rest_pt))
                except Exception as e:  # noqa
                    exp = ("err", pipes.errkind(e))
            after = pipes.to_ints(w(*pt))
            if before != after:
                oracle_bad.append(("fix_inputs changed the original WCS", dict(fixed=fixed, point=pt)))
            full = list(rest_pt)
            for i in idx:
                full.insert(i, fixed[i])
            want = pipes.to_ints(w(*full))
            if exp[0] == "val" and ints != want:
                oracle_bad.append((f"fix_inputs({passed}) at {rest_pt} gives {ints}, original at {full} gives {want}",
                                   dict(n=n, fixed={str(k2): v for k2, v in passed.items()}, point=rest_pt)))
            if exp[0] == "err":
                oracle_bad.append((f"fix_inputs({passed}) raised {exp[1]}", dict(n=n, fixed={str(k2): v for k2, v in passed.items()})))
            fx = glist([f"({gz(i)}, {gz(fixed[i])})" for i in idx])
            call = f"(do w' <- fix_inputs_model w {fx}; m_forward_transform w')"
            ctx.case(key=(cw, call, tuple(rest_pt)), nontrivial=(exp[0] == "val"), kind="fix_inputs/" + exp[0],
                     sample={"dim": n, "steps": k, "fix_inputs": fixed, "point": rest_pt, "expected": ints})
            terms.append(f"({cw}, {ctab}, (fun w : wcs => {call}), {gzl(rest_pt)}, {coq_expected(exp, ints)})")
            meta.append((("fix", fixed), rest_pt, exp[0]))
    mixed_dim_probe(ctx, rng, oracle_bad)
    checker = "(fun c => match c with (w, tab, q, x, e) => agrees tab (q w) x e end)"
    failing = None
    if gen_src is not None:
        failing = ctx.coq_failing("cases", HEADER, terms, checker, label="WC01")
    ctx.oblige("correspondence: regenerated Gallina code (vm_compute) = implementation on every query",
               failing == [], "" if failing == [] else f"failing cases: {[meta[i] for i in (failing or [])[:5]]}")
    for bad, rep in oracle_bad[:6]:
        ctx.violation("C01 fails on the implementation: " + bad, rep)
    if failing and not oracle_bad:
        ctx.violation("regenerated model and implementation disagree; the direct oracle found no violated clause",
                      {"correspondence": "C01 cases", "first": [str(meta[i]) for i in failing[:3]]}, found_input=False)
    ctx.extra["exhaustive_per_pipeline"] = "all ordered frame pairs of every generated pipeline"
