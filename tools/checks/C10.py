"""C10 — a FITS-SIP header produced from a WCS reproduces it to the accuracy it states.

Proof:  coq/theories/C10/SipFit.v — hand model over Q of the decision part of the export:
          * `deglist` (None | iterable | int -> sorted list within 1..9 or ValueError/IndexError), `search` (the degree loop of
            _fit_2D_poly with the LU fit as an arbitrary oracle degree -> residual/conditioning/LinAlgError) and `conclude` (warning
            flags, double-sampling check, reported error);
          * theorems chosen_degree_is_lowest_permitted, degree_lowest, silent_means_met, unmet_is_signalled,
            reported_error_not_understated, accepted_is_fitted, deglist_sorted_in_range;
          * `reform` (_reform_poly_coefficients) with sip_decomposition / sip_reproduces_fit: CD.(u + A(u,v), v + B(u,v)) equals the fitted
            polynomial pair for every (u, v) and every coefficient list when det CD <> 0;
          * `stored` (_store_2D_coefficients) with stored_iff; CRPIX/NAXIS/axis-remap bookkeeping lemmas.
        The numerical content (that the LU solve returns the least-squares polynomial, that wcslib evaluates the header as the SIP
        convention says, that floating-point residuals are what the exact ones would be) is NOT proved: C10 is `partial` in that sense and
        the oracle below measures it.
Tie:    AST pins on the modelled functions + correspondence: _fit_2D_poly is driven with a scripted _poly_fit_lu (dyadic residuals, so the
        float comparisons are exact) through every branch and compared with `run_fit2d` evaluated in Coq; _reform_poly_coefficients and
        _store_2D_coefficients are run on random polynomials and compared with `reform` / `stored`.
Search: property oracle on the implementation: to_fits_sip over a family of distorted celestial WCSs, header evaluated by wcslib (forward)
        and by an independent AP/BP evaluator (inverse) on a dense grid that is not a multiple of the fitting grid.
"""
import math
import warnings
from fractions import Fraction

import numpy as np

from lib.common import gz, glist, gbool
from lib import pins

LEVEL = "proof"
RULE = ("(a) scripted degree searches: degree None / iterable (shuffled, duplicates, out of range, empty) / int (valid and invalid); per-degree "
        "fit scripted as residual (k/64) x conditioning or LinAlgError; request k/64; dense residual |X - d|; non-trivial = stops for a reason "
        "other than first-degree success; (b) random polynomial pairs through _reform_poly_coefficients / _store_2D_coefficients; (c) WCS "
        "family: distortion order 1..5, amplitude 0..10 px, pointing incl. RA 0/360 and |Dec| up to 89.5, scale, rotation, parity, offset "
        "boxes, crpix None / given, 5 zenithal codes, requests 1e-4..0.5, degree None / int / iterable, lon/lat swapped, 3 frames, celestial "
        "pair embedded in 3-D in both pixel orders; non-trivial = distortion present or non-default option; distinct by parameters")
ASSUMPTIONS = [
    "the residuals _poly_fit_lu returns are finite (a NaN residual — WCS undefined inside the box — makes every comparison false; the "
    "request then stays unmet and the warning is issued, but that path is outside the Q model)",
    "wcslib (astropy.wcs) is the reference reader of the header; an independent evaluator applies AP/BP",
    "sampling allowance: a dense-sample error may exceed the value recorded / requested by 30 % + 2e-11 deg of floating-point noise",
]
PINS = ["gwcs/wcs.py::WCS.to_fits", "gwcs/wcs.py::_fit_2D_poly", "gwcs/wcs.py::_reform_poly_coefficients", "gwcs/wcs.py::_store_2D_coefficients",
        "gwcs/wcs.py::_make_sampling_grid", "gwcs/wcs.py::_compute_distance_residual", "gwcs/wcs.py::WCS._to_fits_sip",
        "gwcs/wcs.py::WCS.to_fits_sip"]
HEADER = ("From Coq Require Import ZArith QArith List Bool. Import ListNotations.\n"
          "From GW Require Import C10.SipFit.\nOpen Scope Q_scope.\n")
THEOREMS = ["chosen_degree_is_lowest_permitted", "degree_lowest", "silent_means_met", "unmet_is_signalled",
            "reported_error_not_understated", "accepted_is_fitted", "deglist_sorted_in_range", "sip_decomposition",
            "sip_reproduces_fit", "stored_iff", "order_keyword_covers_coefficients", "stored_within_order",
            "order_keyword_too_small_refuted", "crpix_one_based", "naxis_covers_box", "axis_remap_injective"]
SLACK = 1.3
NOISE_DEG = 2e-11


def gq(x):
    f = Fraction(x)
    n = f"({f.numerator})" if f.numerator < 0 else f"{f.numerator}"
    return f"({n} # {f.denominator})"


def gnat(n):
    return f"{int(n)}%nat"


# ------------------------------------------------------------------ (a) scripted degree search
def scripted_case(rng):
    kind = rng.choice(["none", "none", "iter", "iter", "iter", "int", "int", "badint", "baditer", "empty"])
    if kind == "none":
        spec, cspec = None, "DNone"
    elif kind == "iter":
        l = [rng.randint(1, 9) for _ in range(rng.randint(1, 5))]
        spec, cspec = l, f"(DIter {glist([gz(v) for v in l])})"
    elif kind == "int":
        z = rng.randint(1, 9)
        spec, cspec = z, f"(DInt {gz(z)})"
    elif kind == "badint":
        z = rng.choice([0, 10, -1, 12])
        spec, cspec = z, f"(DInt {gz(z)})"
    elif kind == "baditer":
        l = [rng.randint(1, 9) for _ in range(rng.randint(0, 3))] + [rng.choice([0, 10, -2, 11])]
        rng.shuffle(l)
        spec, cspec = l, f"(DIter {glist([gz(v) for v in l])})"
    else:
        spec, cspec = [], "(DIter [])"
    max_error = Fraction(rng.randint(1, 40), 64)
    X = Fraction(rng.randint(0, 640), 64)
    style = rng.choice(["decreasing", "decreasing", "random", "plateau"])
    tbl = {}
    e = Fraction(rng.randint(20, 400), 64)
    for d in range(1, 10):
        r = rng.random()
        if style == "decreasing":
            e = e * Fraction(rng.choice([1, 2, 3, 3]), 4) if d > 1 else e
            e = Fraction(int(e * 64), 64) + Fraction(rng.randint(0, 1), 64)
        elif style == "random":
            e = Fraction(rng.randint(0, 200), 64)
        else:
            e = e if rng.random() < 0.5 else Fraction(rng.randint(0, 100), 64)
        if r < 0.07:
            tbl[d] = ("linalg",)
        elif r < 0.16:
            tbl[d] = ("ok", e, False)
        else:
            tbl[d] = ("ok", e, True)
    return kind, spec, cspec, max_error, X, tbl


def run_scripted(spec, max_error, X, tbl):
    """Drive the real _fit_2D_poly with a scripted _poly_fit_lu."""
    import gwcs.wcs as gw

    def fake(xin, yin, xout, yout, degree, coord_pow=None):
        t = tbl[degree]
        if t[0] == "linalg":
            raise np.linalg.LinAlgError("scripted")
        return [float(degree)], [0.0], float(t[1]), [(1, 0)], (1.0 if t[2] else np.inf)

    orig = gw._poly_fit_lu
    gw._poly_fit_lu = fake
    one = np.array([1.0])
    zero = np.array([0.0])
    try:
        with warnings.catch_warnings(record=True) as wl:
            warnings.simplefilter("always")
            try:
                px, py, err = gw._fit_2D_poly(spec, float(max_error), 1.0, one, zero, one, zero,
                                              one, zero, np.array([float(X)]), zero)
            except np.linalg.LinAlgError:
                return (1, 0, Fraction(0), False, False)
            except UnboundLocalError:
                return (2, 0, Fraction(0), False, False)
            except ValueError:
                return (3, 0, Fraction(0), False, False)
            except IndexError:
                return (4, 0, Fraction(0), False, False)
        msgs = [str(x.message) for x in wl]
        return (0, int(round(px.c1_0.value)), Fraction(float(err)),
                any("Failed to achieve" in m for m in msgs), any("Double sampling" in m for m in msgs))
    finally:
        gw._poly_fit_lu = orig


def gfit(t):
    return "FitLinAlgError" if t[0] == "linalg" else f"(FitOk {gq(t[1])} {gbool(t[2])})"


# ------------------------------------------------------------------ (c) WCS family
PROJS = ["TAN", "STG", "SIN", "ARC", "ZEA"]


def build(rng, p):
    from astropy import coordinates as coord
    from astropy import units as u
    from astropy.modeling import models
    from gwcs import coordinate_frames as cf, wcs
    order, amp, nx, ny, x0, y0 = p["order"], p["amp"], p["nx"], p["ny"], p["x0"], p["y0"]
    cx, cy = x0 + nx / 2.0, y0 + ny / 2.0
    h = max(nx, ny) / 2.0
    prng = np.random.default_rng(p["pseed"])

    def poly():
        q = models.Polynomial2D(max(order, 1))
        if order >= 2:
            nt = sum(1 for i in range(order + 1) for j in range(order + 1 - i) if i + j >= 2)
            for i in range(order + 1):
                for j in range(order + 1 - i):
                    if i + j >= 2:
                        setattr(q, f"c{i}_{j}", prng.uniform(-1, 1) * amp / nt / h ** (i + j))
        return q
    px, py = poly(), poly()
    px.c1_0 = 1
    py.c0_1 = 1
    dist = (models.Shift(-cx) & models.Shift(-cy)) | models.Mapping((0, 1, 0, 1)) | (px & py)
    c, s = math.cos(math.radians(p["rot"])), math.sin(math.radians(p["rot"]))
    mat = np.array([[c, -s], [s, c]]) @ np.diag([p["parity"] * p["scale"], p["scale"]])
    tr = (dist | models.AffineTransformation2D(matrix=mat) | getattr(models, f"Pix2Sky_{p['native']}")()
          | models.RotateNative2Celestial(p["ra"], p["dec"], 180))
    rf = {"icrs": coord.ICRS(), "fk5": coord.FK5(), "galactic": coord.Galactic()}[p["frame"]]
    box2 = ((x0 - 0.5, x0 + nx - 0.5), (y0 - 0.5, y0 + ny - 0.5))
    emb = p["embed"]
    if emb is None:
        if p["swap"]:
            tr = tr | models.Mapping((1, 0))
            sky = cf.CelestialFrame(reference_frame=rf, name="sky", axes_order=(1, 0))
        else:
            sky = cf.CelestialFrame(reference_frame=rf, name="sky")
        w = wcs.WCS([(cf.Frame2D(name="detector"), tr), (sky, None)])
        w.bounding_box = box2
        return w, (0, 1), ((1, 0) if p["swap"] else (0, 1))
    spec = models.Scale(0.01) | models.Shift(1.5)
    sf = lambda order: cf.SpectralFrame(axes_order=order, unit=u.um, name="wave")  # noqa: E731
    det = cf.CoordinateFrame(3, ["SPATIAL", "SPATIAL", "SPECTRAL"] if emb == "xyz" else ["SPECTRAL", "SPATIAL", "SPATIAL"],
                             (0, 1, 2), unit=(u.pix, u.pix, u.pix), name="detector")
    if emb == "xyz":      # (x, y, z) -> (lon, lat, wave)
        full = tr & spec
        sky = cf.CelestialFrame(reference_frame=rf, name="sky", axes_order=(0, 1))
        out = cf.CompositeFrame([sky, sf((2,))], name="world")
        w = wcs.WCS([(det, full), (out, None)])
        w.bounding_box = (box2[0], box2[1], (-0.5, 9.5))
        return w, (0, 1), (0, 1)
    # (z, x, y) -> (wave, lon, lat)
    full = spec & tr
    sky = cf.CelestialFrame(reference_frame=rf, name="sky", axes_order=(1, 2))
    out = cf.CompositeFrame([sf((0,)), sky], name="world")
    w = wcs.WCS([(det, full), (out, None)])
    w.bounding_box = ((-0.5, 9.5), box2[0], box2[1])
    return w, (1, 2), (1, 2)


def gen_params(rng, quick):
    order = rng.randint(1, 5)
    p = dict(order=order, amp=(rng.choice([0, 0.3, 2, 5, 10]) if order > 1 else 0), pseed=rng.randint(0, 10**6),
             nx=rng.choice([256, 512, 1000, 2048]), ny=rng.choice([256, 700, 2048]),
             x0=rng.choice([0, 0, 100, 1000]), y0=rng.choice([0, 0, 50]),
             scale=rng.choice([1e-5, 2.8e-5, 1e-4, 5e-4]), rot=rng.choice([0, 23, 90, 135.5, 180, 271, rng.uniform(0, 360)]),
             parity=rng.choice([1, -1]), native=rng.choice(PROJS),
             ra=rng.choice([0.0, 359.9999, 5.6, 180.0, 270.3, rng.uniform(0, 360)]),
             dec=rng.choice([0, -72.05, 89.0, 45, -89.5, 30, rng.uniform(-89, 89)]),
             frame=rng.choice(["icrs", "icrs", "fk5", "galactic"]), swap=rng.random() < 0.3,
             embed=rng.choice([None, None, None, "xyz", "zxy"]))
    if p["embed"]:
        p["swap"] = False
    kw = dict(max_pix_error=rng.choice([1e-4, 1e-3, 0.01, 0.1, 0.25, 0.5]),
              max_inv_pix_error=rng.choice([1e-4, 1e-3, 0.01, 0.1, 0.25, 0.5, None]),
              projection=(p["native"] if rng.random() < 0.75 else rng.choice(PROJS)),
              npoints=rng.choice([16, 32]))
    dsel = rng.random()
    if dsel < 0.5:
        kw["degree"] = None
    elif dsel < 0.75:
        kw["degree"] = rng.randint(1, 6)
    else:
        kw["degree"] = sorted(rng.sample(range(1, 8), rng.randint(2, 4)), reverse=rng.random() < 0.5)
    if rng.random() < 0.3:
        kw["inv_degree"] = rng.choice([rng.randint(1, 6), [2, 4, 6]])
    if rng.random() < 0.35:
        kw["crpix"] = (p["x0"] + rng.choice([1, p["nx"] // 2, p["nx"] // 3 + 0.5]),
                       p["y0"] + rng.choice([1, p["ny"] // 2, p["ny"] - 7.25]))
    return p, kw


def export(w, kw):
    with warnings.catch_warnings(record=True) as wl:
        warnings.simplefilter("always")
        try:
            hdr = w.to_fits_sip(**kw)
        except Exception as e:  # noqa: BLE001
            return None, [f"{type(e).__name__}: {e}"]
    return hdr, [str(x.message) for x in wl if "deprecat" not in str(x.message).lower()]


def fits_reader(hdr):
    from astropy import wcs as astwcs
    with warnings.catch_warnings():
        warnings.simplefilter("ignore")
        return astwcs.WCS(hdr)


def measure(w, hdr, p, pix_axes, n1=61, n2=59):
    """dense comparison; returns (forward error px, inverse error px or None, details)"""
    from astropy.coordinates import angular_separation
    x0, y0, nx, ny = p["x0"], p["y0"], p["nx"], p["ny"]
    g1 = np.linspace(x0 - 0.5, x0 + nx - 0.5, n1)
    g2 = np.linspace(y0 - 0.5, y0 + ny - 0.5, n2)
    x, y = (a.ravel() for a in np.meshgrid(g1, g2))
    if p["embed"] == "xyz":
        out = w(x, y, np.full_like(x, 4.5))[:2]
    elif p["embed"] == "zxy":
        out = w(np.full_like(x, 4.5), x, y)[1:]
    else:
        out = w(x, y)
    fw = fits_reader(hdr)
    a2, b2 = fw.all_pix2world(x, y, 0)
    lon_first = hdr["CTYPE1"][:4] in ("RA--", "GLON")
    if lon_first:
        hl, hb = a2, b2
    else:
        hl, hb = b2, a2
    gl, gb = (out[1], out[0]) if p["swap"] else (out[0], out[1])
    sep = np.degrees(angular_separation(np.radians(gl), np.radians(gb), np.radians(hl), np.radians(hb)))
    ferr = float(np.nanmax(sep)) / p["scale"]
    ierr = None
    if "AP_ORDER" in hdr or "A_ORDER" not in hdr:
        wa, wb = (gl, gb) if lon_first else (gb, gl)
        foc = fw.wcs_world2pix(wa, wb, 0)
        crp = fw.wcs.crpix - 1
        U, V = foc[0] - crp[0], foc[1] - crp[1]
        du = dv = 0.0
        if "AP_ORDER" in hdr:
            n = hdr["AP_ORDER"]
            du = sum(hdr.get(f"AP_{i}_{j}", 0.0) * U**i * V**j for i in range(n + 1) for j in range(n + 1 - i))
            dv = sum(hdr.get(f"BP_{i}_{j}", 0.0) * U**i * V**j for i in range(n + 1) for j in range(n + 1 - i))
        ierr = float(np.nanmax(np.hypot(U + du + crp[0] - x, V + dv + crp[1] - y)))
    return ferr, ierr, fw


def oracle(ctx, rng, p, kw, problems):
    """All C10 claims on one configuration. Returns a short tag for the histogram."""
    w, pix_axes, cel_axes = build(rng, p)
    hdr, msgs = export(w, kw)
    rec = {"params": p, "kwargs": {k: (list(v) if isinstance(v, (list, tuple)) else v) for k, v in kw.items()}}
    if hdr is None:
        if not msgs[0].startswith(("ValueError", "LinAlgError", "UnboundLocalError")):
            problems.append((f"to_fits_sip raised {msgs[0][:120]}", rec, None))
        return "error"
    req, ireq = kw["max_pix_error"], kw.get("max_inv_pix_error")
    noise = NOISE_DEG / p["scale"]
    ferr, ierr, fw = measure(w, hdr, p, pix_axes)
    rec.update(observed_forward_px=ferr, observed_inverse_px=ierr, SIPMXERR=hdr.get("SIPMXERR"), SIPIVERR=hdr.get("SIPIVERR"),
               A_ORDER=hdr.get("A_ORDER"), AP_ORDER=hdr.get("AP_ORDER"), warnings=msgs)
    silent = not msgs
    # --- accuracy when silent
    if silent and ferr > req * SLACK + noise:
        problems.append((f"no warning, yet wcslib disagrees with the WCS by {ferr:.4g} px > requested {req:g}", rec, None))
    if silent and ireq and "AP_ORDER" in hdr and ierr > ireq * SLACK + noise + ferr:
        problems.append((f"no warning, yet the inverse polynomials miss by {ierr:.4g} px > requested {ireq:g}", rec, None))
    # --- recorded errors do not understate (warned or not)
    if ferr > hdr["SIPMXERR"] * SLACK + noise:
        problems.append((f"SIPMXERR={hdr['SIPMXERR']:.4g} understates the observed forward error {ferr:.4g} px", rec, None))
    if "SIPIVERR" in hdr and ierr is not None and ierr > hdr["SIPIVERR"] * SLACK + noise + ferr:
        problems.append((f"SIPIVERR={hdr['SIPIVERR']:.4g} understates the observed inverse error {ierr:.4g} px", rec, None))
    if silent and hdr["SIPMXERR"] > req * (1 + 1e-9):
        problems.append((f"no warning, yet SIPMXERR={hdr['SIPMXERR']:.4g} > requested {req:g}", rec, None))
    if silent and ireq and "SIPIVERR" in hdr and hdr["SIPIVERR"] > ireq * (1 + 1e-9):
        problems.append((f"no warning, yet SIPIVERR={hdr['SIPIVERR']:.4g} > requested {ireq:g}", rec, None))
    # --- reference pixel -> reference value; conventions
    crpix = np.array([hdr["CRPIX1"], hdr["CRPIX2"]])
    lon_first = hdr["CTYPE1"][:4] in ("RA--", "GLON")
    crval = np.array([hdr["CRVAL1"], hdr["CRVAL2"]])
    got = np.array(fw.all_pix2world(crpix[0] - 1, crpix[1] - 1, 0)).ravel()
    if p["embed"] == "xyz":
        mine = np.array(w(crpix[0] - 1, crpix[1] - 1, 4.5)[:2])
    elif p["embed"] == "zxy":
        mine = np.array(w(4.5, crpix[0] - 1, crpix[1] - 1)[1:])
    else:
        mine = np.array(w(crpix[0] - 1, crpix[1] - 1))

    def close(a, b):
        d = np.abs((np.asarray(a) - np.asarray(b) + 180) % 360 - 180)
        return bool(np.all(d < 1e-9 / max(math.cos(math.radians(min(89.9, abs(p["dec"])))), 1e-3)))
    if not close(got, crval):
        problems.append((f"wcslib maps CRPIX to {got.tolist()} not CRVAL {crval.tolist()}", rec, None))
    if not close(mine, crval):
        problems.append((f"the WCS maps the header's reference pixel to {mine.tolist()} not CRVAL {crval.tolist()}", rec, None))
    if "crpix" in kw:
        if not np.allclose(crpix, kw["crpix"], atol=1e-9):
            problems.append((f"CRPIX {crpix.tolist()} is not the requested 1-based {kw['crpix']}", rec, None))
    else:
        want = [round(p["x0"] + p["nx"] / 2.0 - 0.5, 1) + 1, round(p["y0"] + p["ny"] / 2.0 - 0.5, 1) + 1]
        if not np.allclose(crpix, want, atol=1e-9):
            problems.append((f"CRPIX {crpix.tolist()} is not the 1-based box centre {want}", rec, None))
    if (hdr["NAXIS"], hdr["NAXIS1"], hdr["NAXIS2"]) != (2, p["x0"] + p["nx"], p["y0"] + p["ny"]):
        problems.append((f"NAXIS1/2 = {hdr['NAXIS1']}, {hdr['NAXIS2']} do not match the box ({p['x0'] + p['nx']}, {p['y0'] + p['ny']})",
                         rec, None))
    want_lon = {"icrs": "RA--", "fk5": "RA--", "galactic": "GLON"}[p["frame"]]
    want_lat = {"icrs": "DEC-", "fk5": "DEC-", "galactic": "GLAT"}[p["frame"]]
    c1, c2 = hdr["CTYPE1"], hdr["CTYPE2"]
    exp = (want_lat, want_lon) if p["swap"] else (want_lon, want_lat)
    if (c1[:4], c2[:4]) != exp or c1[5:8] != kw["projection"] or c2[5:8] != kw["projection"]:
        problems.append((f"CTYPE = {c1!r}, {c2!r}: expected {exp} with projection {kw['projection']}", rec, None))
    if ("A_ORDER" in hdr) != c1.endswith("-SIP"):
        problems.append((f"CTYPE {c1!r} and A_ORDER presence disagree", rec, None))
    # premise of order_keyword_covers_coefficients: no coefficient keyword lies beyond its order keyword (a standard reader ignores those)
    import re as _re
    for fam_ in ("A", "B", "AP", "BP"):
        degs_ = [int(k.split("_")[1]) + int(k.split("_")[2]) for k in hdr if _re.fullmatch(fam_ + r"_\d+_\d+", k)]
        if degs_ and (f"{fam_}_ORDER" not in hdr or max(degs_) > hdr[f"{fam_}_ORDER"]):
            problems.append((f"{fam_}_ORDER = {hdr.get(fam_ + '_ORDER')} but coefficient keywords up to total degree {max(degs_)} are written: "
                             "a standard reader drops them", rec, None))
    rs = hdr.get("RADESYS")
    if p["frame"] == "galactic":
        if rs is not None:
            problems.append((f"galactic header carries RADESYS={rs}", rec, None))
    elif rs != p["frame"].upper():
        problems.append((f"RADESYS={rs} for a {p['frame']} frame", rec, None))
    # --- lowest permitted degree
    deg = kw.get("degree")
    if silent and not isinstance(deg, int):
        permitted = list(range(1, 10)) if deg is None else sorted(deg)
        chosen = hdr.get("A_ORDER", 1)
        if chosen not in permitted:
            problems.append((f"chosen degree {chosen} is not among the permitted {permitted}", rec, None))
        for lower in [d for d in permitted if d < chosen]:
            kw2 = dict(kw, degree=lower, max_inv_pix_error=None)
            h2, m2 = export(w, kw2)
            if h2 is not None and not m2:
                problems.append((f"degree {chosen} chosen although permitted degree {lower} meets the request silently", rec, None))
    return "silent" if silent else "warned"


def run(ctx):
    import gwcs.wcs as gw
    from astropy.modeling import models
    from astropy.io import fits
    ctx.trusted += ["hand model coq/theories/C10/SipFit.v; tools/checks/C10.py scripted fit, generators, dense-grid oracle; "
                    "astropy.wcs/wcslib as the FITS reader"]
    ctx.gate()
    ctx.coq_theorems("C10/SipFit", THEOREMS)
    pins.check(ctx, PINS)
    rng = ctx.rng
    problems = []
    # ---------- (a) scripted degree searches vs run_fit2d ---------------------------------------
    terms, meta = [], []
    for _ in range(400 if ctx.quick else 6000):
        kind, spec, cspec, max_error, X, tbl = scripted_case(rng)
        got = run_scripted(spec, max_error, X, tbl)
        ctbl = glist([f"({gnat(d)}, {gfit(t)})" for d, t in tbl.items()])
        exp = f"({gz(got[0])}, {gnat(got[1])}, {gq(got[2])}, {gbool(got[3])}, {gbool(got[4])})"
        terms.append(f"(({cspec}, {gq(max_error)}, {gq(X)}, {ctbl}), {exp})")
        rec = dict(degree=spec, max_error=str(max_error), X=str(X),
                   fits={d: [str(v) for v in t] for d, t in tbl.items()}, implementation=[str(v) for v in got])
        meta.append(rec)
        nontrivial = got[0] != 0 or got[3] or got[4] or got[1] not in (1, (min(spec) if isinstance(spec, list) and spec else spec))
        ctx.case(key=("fit", cspec, str(max_error), str(X), str(sorted(tbl.items()))), nontrivial=bool(nontrivial), kind=f"search:{kind}",
                 sample=rec)
        # property-level reading of the implementation's own answer
        if got[0] == 0 and not got[3] and not got[4]:
            if got[2] > max_error:
                problems.append((f"_fit_2D_poly returned silently with error {float(got[2]):g} > requested {float(max_error):g}", rec, None))
            elif abs(X - got[1]) > max_error:
                problems.append((f"_fit_2D_poly returned silently although the double-sampled residual {float(abs(X - got[1])):g} exceeds "
                                 f"the request {float(max_error):g}", rec, None))
        if got[0] == 0 and (got[2] < abs(X - got[1]) and (tbl.get(got[1], ("",))[0] == "ok")
                            and (tbl[got[1]][1] <= max_error or isinstance(spec, int) or (isinstance(spec, list) and len(spec) == 1))):
            problems.append((f"reported error {float(got[2]):g} understates the double-sampled residual {float(abs(X - got[1])):g}", rec, None))
    bad = ctx.coq_failing("c10_search", HEADER, terms,
                          "(fun c => let '((s, m, x, t), e) := c in same_outcome (run_fit2d s m x t) e)")
    ctx.oblige("correspondence:_fit_2D_poly == run_fit2d on scripted fits", bad == [], f"{len(bad) if bad else bad} differ")
    if bad:
        ctx.extra["search_disagreements"] = [meta[i] for i in bad[:5]]
    # ---------- (b) reform / store ---------------------------------------------------------------
    terms_r, terms_s = [], []
    for _ in range(60 if ctx.quick else 800):
        deg = rng.randint(1, 5)
        while True:
            cd = [rng.randint(-4, 4) for _ in range(4)]
            det = cd[0] * cd[3] - cd[1] * cd[2]
            if det in (1, -1, 2, -2, 4, -4):
                break
        px, py = models.Polynomial2D(deg), models.Polynomial2D(deg)
        px.c1_0, px.c0_1, py.c1_0, py.c0_1 = cd
        px.c0_0, py.c0_0 = rng.randint(-3, 3), rng.randint(-3, 3)
        hi = []
        for i in range(deg + 1):
            for j in range(deg + 1 - i):
                if i + j >= 2:
                    a, b = Fraction(rng.randint(-64, 64), 16), Fraction(rng.randint(-64, 64), 16)
                    setattr(px, f"c{i}_{j}", float(a))
                    setattr(py, f"c{i}_{j}", float(b))
                    hi.append((i, j, a, b))
        cdm, sx, sy = gw._reform_poly_coefficients(px, py)
        ok_low = all(getattr(q, n).value == 0 for q in (sx, sy) for n in ("c0_0", "c1_0", "c0_1"))
        ok_cd = [cdm[0][0], cdm[0][1], cdm[1][0], cdm[1][1]] == [float(v) for v in cd]
        impl = glist([f"({gnat(i)}, {gnat(j)}, {gq(Fraction(getattr(sx, f'c{i}_{j}').value).limit_denominator(10**9))}, "
                      f"{gq(Fraction(getattr(sy, f'c{i}_{j}').value).limit_denominator(10**9))})" for (i, j, _, _) in hi])
        src = glist([f"({gnat(i)}, {gnat(j)}, {gq(a)}, {gq(b)})" for (i, j, a, b) in hi])
        terms_r.append(f"(({gq(cd[0])}, {gq(cd[1])}, {gq(cd[2])}, {gq(cd[3])}), {src}, {impl}, {gbool(ok_low and ok_cd)})")
        ctx.case(key=("reform", tuple(cd), str(hi)), nontrivial=deg >= 2, kind="reform")
        for keep in (False, True):
            hdr = fits.Header()
            gw._store_2D_coefficients(hdr, sx, "A", keeplinear=keep)
            keys = sorted((int(k.split("_")[1]), int(k.split("_")[2])) for k in hdr)
            vals_ok = all(hdr[f"A_{i}_{j}"] == getattr(sx, f"c{i}_{j}").value for i, j in keys)
            terms_s.append(f"({gnat(0 if keep else 1)}, {gnat(deg)}, {glist([f'({gnat(i)}, {gnat(j)})' for i, j in keys])}, {gbool(vals_ok)})")
    chk_r = ("(fun c => let '((a, b, c0, d), src, impl, low) := c in low && "
             "(fix eq (l1 l2 : list term) := match l1, l2 with [] , [] => true | (i1, j1, x1, y1) :: r1, (i2, j2, x2, y2) :: r2 => "
             "Nat.eqb i1 i2 && Nat.eqb j1 j2 && Qle_bool (Qabs' (x1 - x2)) (1 # 100000000) && Qle_bool (Qabs' (y1 - y2)) (1 # 100000000) && eq r1 r2 "
             "| _, _ => false end) (reform a b c0 d src) impl)")
    badr = ctx.coq_failing("c10_reform", HEADER, terms_r, chk_r)
    ctx.oblige("correspondence:_reform_poly_coefficients == reform", badr == [], f"{badr}")
    chk_s = ("(fun c => let '(m, d, keys, ok) := c in ok && "
             "(fix eq (l1 l2 : list (nat * nat)) := match l1, l2 with [], [] => true | (a, b) :: r1, (c0, e) :: r2 => "
             "Nat.eqb a c0 && Nat.eqb b e && eq r1 r2 | _, _ => false end) (stored m d) keys)")
    bads = ctx.coq_failing("c10_store", HEADER, terms_s, chk_s)
    ctx.oblige("correspondence:_store_2D_coefficients key set == stored", bads == [], f"{bads}")
    if badr:
        problems.append(("_reform_poly_coefficients: CD.(u+A, v+B) no longer reproduces the fitted polynomials", {"case": terms_r[badr[0]]}, None))
    if bads:
        problems.append(("_store_2D_coefficients writes a different set of A_i_j keywords than mindeg < i+j <= degree",
                         {"case": terms_s[bads[0]]}, None))
    # ---------- (b2) axis bookkeeping of the header vs SipHeader.v ---------------------------------
    ctx.coq_theorems("C10/SipHeader", ["sip_cards_distinct", "naxis_from_pair_axes", "compact_axes", "kept_axes", "lon_lat_not_swapped"])
    terms_h, meta_h = [], []
    for _ in range(10 if ctx.quick else 120):
        p, kw = gen_params(rng, ctx.quick)
        p["order"], p["amp"] = 1, 0
        # three image axes of different lengths, so that a size taken from the wrong axis shows
        p["nx"], p["ny"] = rng.choice([200, 320]), rng.choice([100, 150])
        w, pix_axes, cel_axes = build(rng, p)
        lon_axis, lat_axis = (cel_axes if not p["swap"] else (1, 0))
        for keep in (False, True):
            try:
                with warnings.catch_warnings():
                    warnings.simplefilter("ignore")
                    hdr = (w.to_fits(degree=1, sampling=5)[0] if keep else w.to_fits_sip(degree=1))
            except Exception as e:  # noqa: BLE001
                problems.append((f"{'to_fits' if keep else 'to_fits_sip'} raised {type(e).__name__}: {str(e)[:100]}", {"params": p}, None))
                continue
            ct = {int(k[5:]): hdr[k] for k in hdr if k.startswith("CTYPE") and k[5:].isdigit()}
            nlon = [i for i, v in ct.items() if v[:4] in ("RA--", "GLON")]
            nlat = [i for i, v in ct.items() if v[:4] in ("DEC-", "GLAT")]
            crp = sorted(int(k[5:]) for k in hdr if k.startswith("CRPIX") and k[5:].isdigit() and int(k[5:]) in
                         ([pix_axes[0] + 1, pix_axes[1] + 1] if keep else [1, 2]))
            obs = [nlon[0] if len(nlon) == 1 else -1, nlat[0] if len(nlat) == 1 else -1] + (crp if len(crp) == 2 else [-1, -1])
            sizes_ok = True
            if obs[2] > 0:
                box = w.bounding_box.bounding_box(order="F")
                sizes_ok = (hdr.get(f"NAXIS{obs[2]}") == int(box[pix_axes[0]][1]) + 1 and hdr.get(f"NAXIS{obs[3]}") == int(box[pix_axes[1]][1]) + 1)
                if not sizes_ok:
                    problems.append((f"NAXIS{obs[2]}/NAXIS{obs[3]} = {hdr.get(f'NAXIS{obs[2]}')}, {hdr.get(f'NAXIS{obs[3]}')} are not the sizes of the "
                                     f"pixel axes {pix_axes} that feed the celestial pair (box {box})", {"params": p, "keep_axis_position": keep}, None))
            terms_h.append(f"({gbool(keep)}, {gz(lon_axis)}, {gz(lat_axis)}, {gz(pix_axes[0])}, {gz(pix_axes[1])}, {glist([gz(v) for v in obs])}, {gbool(sizes_ok)})")
            meta_h.append(dict(embed=p["embed"], swap=p["swap"], keep=keep, observed=obs))
            ctx.case(key=("hdr-axes", p["embed"], p["swap"], keep), nontrivial=bool(p["embed"] or p["swap"] or keep), kind="header-axes")
    badh = ctx.coq_failing("c10_axes", "From Coq Require Import ZArith List Bool. Import ListNotations. Open Scope Z_scope.\nFrom GW Require Import C10.SipHeader.\n",
                           terms_h, "(fun c => let '(keep, lon, lat, p1, p2, obs, ok) := c in ok && "
                           "(fix eq (a b : list Z) := match a, b with [], [] => true | x :: r, y :: s => (x =? y) && eq r s | _, _ => false end) "
                           "(axes_list keep lon lat p1 p2) obs)")
    ctx.oblige("correspondence:axis numbers and NAXIS sources of the exported header == SipHeader.v", badh == [], f"{[meta_h[i] for i in (badh or [])[:3]]}")
    # ---------- (c) the property on the implementation -------------------------------------------
    n = 60 if ctx.quick else 1500
    for k in range(n):
        p, kw = gen_params(rng, ctx.quick)
        tag = oracle(ctx, rng, p, kw, problems)
        nontrivial = p["order"] > 1 and p["amp"] > 0 or p["swap"] or p["embed"] or "crpix" in kw or kw["degree"] is not None
        ctx.case(key=("wcs", str(sorted(p.items())), str(sorted((k2, str(v)) for k2, v in kw.items()))), nontrivial=bool(nontrivial),
                 kind=f"export:{tag}:{'3d' if p['embed'] else ('swap' if p['swap'] else '2d')}",
                 sample={"params": p, "kwargs": {k2: str(v) for k2, v in kw.items()}, "outcome": tag})
    for what, rec, key in problems:
        ctx.violation(what, rec, key=key)
