"""C12 — high-level objects and axis metadata match transform outputs in any axis order.

Proof:  coq/theories/C12/Frames.v — world values and metadata entries are abstract tokens; hand model of CompositeFrame's
        metadata scatter, value routing (coordinates) and gathering (coordinate_to_quantity). Theorems: metadata_describes_output
        (entry i is the entry of the slot owning world axis i, any frames whose axes partition 0..n-1), gather_route_id
        (objects fed back return the world values in WORLD-AXIS order, any frame order); refutation witnesses of the legacy
        shortcut / frame-order gathering (repaired in /repo).
Tie:    AST pins + correspondence: for every generated output frame the routing observed on the implementation (which world
        axis ended in which object slot; which slot each metadata entry describes) is compared with the model evaluated in Coq.
Search: oracle on the implementation incl. comparison with astropy's generic HighLevelWCSWrapper and round trips.
"""
import itertools

import numpy as np

from lib.common import gz, gzl, glist
from lib import pins

LEVEL = "proof"
RULE = ("output frames built from celestial (ICRS/FK5/Galactic), spectral, temporal, Stokes and generic sub-frames; EVERY permutation of "
        "world axes among the slots for n <= 4 and both listing orders of the sub-frames, lone celestial frames incl. swapped axes, "
        "duplicate sub-frame kinds; scalar and array pixels. non-trivial = a permutation other than the identity; distinct by frame layout")
ASSUMPTIONS = [
    "astropy object construction (SkyCoord(lon, lat), SpectralCoord, Time, StokesCoord, Quantity) keeps the values it is given",
    "which sky frame / unit an object carries is compared directly on the implementation (tested), only the ROUTING is modelled",
]
PINS = ["gwcs/coordinate_frames.py::CompositeFrame.__init__", "gwcs/coordinate_frames.py::CompositeFrame.coordinates",
        "gwcs/coordinate_frames.py::CompositeFrame.coordinate_to_quantity",
        "gwcs/coordinate_frames.py::CompositeFrame._world_axis_object_components",
        "gwcs/coordinate_frames.py::CompositeFrame._wao_classes_rename_map",
        "gwcs/coordinate_frames.py::CelestialFrame.coordinates", "gwcs/coordinate_frames.py::CelestialFrame._world_axis_object_components",
        "gwcs/api.py::GWCSAPIMixin.world_axis_physical_types",
        # per-frame metadata the token model abstracts (unit / class entries of every frame kind)
        "gwcs/coordinate_frames.py::CoordinateFrame._world_axis_object_classes",
        "gwcs/coordinate_frames.py::CoordinateFrame._world_axis_object_components",
        "gwcs/coordinate_frames.py::CoordinateFrame._default_axis_physical_types",
        "gwcs/coordinate_frames.py::CelestialFrame._world_axis_object_classes",
        "gwcs/coordinate_frames.py::CelestialFrame._default_axis_physical_types",
        "gwcs/coordinate_frames.py::SpectralFrame._world_axis_object_classes",
        "gwcs/coordinate_frames.py::SpectralFrame._world_axis_object_components",
        "gwcs/coordinate_frames.py::SpectralFrame._default_axis_physical_types",
        "gwcs/coordinate_frames.py::TemporalFrame._world_axis_object_classes",
        "gwcs/coordinate_frames.py::TemporalFrame._world_axis_object_components",
        "gwcs/coordinate_frames.py::TemporalFrame._default_axis_physical_types",
        "gwcs/coordinate_frames.py::StokesFrame._world_axis_object_classes",
        "gwcs/coordinate_frames.py::StokesFrame._world_axis_object_components",
        "gwcs/coordinate_frames.py::StokesFrame._default_axis_physical_types",
        "gwcs/coordinate_frames.py::Frame2D._default_axis_physical_types",
        "gwcs/coordinate_frames.py::CompositeFrame._wao_renamed_components_iter",
        "gwcs/coordinate_frames.py::CompositeFrame._wao_renamed_classes_iter",
        "gwcs/coordinate_frames.py::CompositeFrame._world_axis_object_classes",
        "gwcs/coordinate_frames.py::CompositeFrame.frames",
        "gwcs/coordinate_frames.py::CoordinateFrame.axis_physical_types",
        "gwcs/coordinate_frames.py::CoordinateFrame._set_axis_physical_types",
        "gwcs/api.py::GWCSAPIMixin.world_axis_object_classes",
        "gwcs/api.py::GWCSAPIMixin.world_axis_object_components",
        "gwcs/api.py::GWCSAPIMixin.world_axis_units"]
HEADER = ("From Coq Require Import List Arith Bool. Import ListNotations.\nFrom GW Require Import C12.Frames.\n"
          "Definition lleq (a b : list (list nat)) : bool := Nat.eqb (length a) (length b) && forallb (fun p => Nat.eqb (length (fst p)) (length (snd p)) "
          "&& forallb (fun q => Nat.eqb (fst q) (snd q)) (combine (fst p) (snd p))) (combine a b).\n"
          "Definition leq (a b : list nat) : bool := Nat.eqb (length a) (length b) && forallb (fun q => Nat.eqb (fst q) (snd q)) (combine a b).\n")

KINDS = {"cel": 2, "spec": 1, "time": 1, "stokes": 1, "gen": 1, "spec2": 1, "spec3": 1}
VALUE = {"lon": 52.0, "lat": 11.0, "spec": 7.0, "spec2": 3.0, "spec3": 4.5, "time": 100.0, "stokes": 2.0, "gen": 5.0}


def make_sub(kind, axes, idx):
    import astropy.units as u
    from astropy import coordinates as coord
    from astropy.time import Time
    from gwcs import coordinate_frames as cf
    if kind == "cel":
        rf = [coord.ICRS(), coord.FK5(), coord.Galactic()][idx % 3]
        un = [(u.deg, u.deg), (u.arcmin, u.arcmin), (u.deg, u.arcmin)][(idx + len(axes) + axes[0]) % 3]
        return cf.CelestialFrame(reference_frame=rf, axes_order=tuple(axes), unit=un, name=f"sky{idx}")
    if kind in ("spec", "spec2", "spec3"):
        return cf.SpectralFrame(axes_order=tuple(axes), unit={"spec": (u.um,), "spec2": (u.Hz,), "spec3": (u.J,)}[kind], name=f"{kind}{idx}")
    if kind == "time":
        return cf.TemporalFrame(Time("2020-01-01T00:00:00"), axes_order=tuple(axes), unit=[(u.s,), (u.min,), (u.d,)][(idx + axes[0]) % 3],
                                name=f"time{idx}")
    if kind == "stokes":
        return cf.StokesFrame(axes_order=tuple(axes), name=f"stokes{idx}")
    return cf.CoordinateFrame(1, axes_type=("SPATIAL",), axes_order=tuple(axes), unit=(u.m,), name=f"gen{idx}", axes_names=(f"g{idx}",))


def slot_names(kind):
    return ["lon", "lat"] if kind == "cel" else [kind]


def object_values(kind, obj, sub):
    from astropy.time import Time
    import astropy.units as u
    if kind == "cel":
        return [float(obj.spherical.lon.to_value(sub.unit[0])), float(obj.spherical.lat.to_value(sub.unit[1]))]
    if kind in ("spec", "spec2", "spec3"):
        return [float(obj.to_value(sub.unit[0]))]
    if kind == "time":
        return [float((obj - sub.reference_frame).to_value(sub.unit[0]))]
    if kind == "stokes":
        return [float(np.asarray(obj.value))]
    return [float(obj.to_value(u.m))]


def layouts(quick):
    combos = [["cel"], ["cel", "spec"], ["spec", "time"], ["cel", "spec", "time"], ["spec", "time", "stokes"], ["spec", "spec2"],
              ["cel", "gen"], ["gen", "spec", "time", "stokes"], ["cel", "stokes", "spec"], ["cel", "cel"],
              ["spec", "spec2", "spec3"], ["spec", "spec2", "spec3", "time"]]     # three sub-frames of one kind: object keys spectral, spectral1, spectral2
    for kinds in combos:
        n = sum(KINDS[k] for k in kinds)
        if n > 4:
            continue
        perms = list(itertools.permutations(range(n)))
        for perm in perms:
            # slots in listing order get world axes perm[0], perm[1], ...
            axes, pos = [], 0
            for k in kinds:
                axes.append(list(perm[pos:pos + KINDS[k]]))
                pos += KINDS[k]
            for rev in (False, True):
                if rev and len(kinds) == 1:
                    continue
                ks, ax = (kinds[::-1], axes[::-1]) if rev else (kinds, axes)
                yield ks, ax, n


def build(kinds, axes, n):
    import astropy.units as u
    from astropy.modeling import models
    from gwcs import wcs, coordinate_frames as cf
    subs = [make_sub(k, a, i) for i, (k, a) in enumerate(zip(kinds, axes))]
    out = subs[0] if len(subs) == 1 else cf.CompositeFrame(subs, name="world")
    det = cf.CoordinateFrame(n, axes_type=("PIXEL",) * n, axes_order=tuple(range(n)), unit=(u.pix,) * n, name="detector")
    tr = models.Scale(1.0)
    for _ in range(n - 1):
        tr = tr & models.Scale(1.0)
    return wcs.WCS([(det, tr), (out, None)]), subs


def run(ctx):
    ctx.trusted += ["hand model coq/theories/C12/Frames.v; tools/checks/C12.py layouts, observation of the routing, oracle"]
    ctx.gate()
    ctx.coq_theorems("C12/Frames", ["metadata_describes_output", "gather_route_id", "fold_route_nth", "shortcut_refuted",
                                    "gather_frame_order_refuted", "covers_example"])
    pins.check(ctx, PINS)
    from astropy.wcs.wcsapi import HighLevelWCSWrapper
    problems = []
    terms_route, terms_meta, meta = [], [], []
    all_layouts = list(layouts(ctx.quick))
    if ctx.quick:
        all_layouts = [l for i, l in enumerate(all_layouts) if l[2] <= 3 or i % 4 == 0]
    for kinds, axes, n in all_layouts:
        tag = "+".join(f"{k}{a}" for k, a in zip(kinds, axes))
        try:
            w, subs = build(kinds, axes, n)
        except Exception as e:  # noqa
            problems.append((f"building frame {tag} raised {type(e).__name__}: {e}", {"layout": tag}, None))
            continue
        # world value of output i: the value of the slot that owns axis i
        world = [None] * n
        for k, a in zip(kinds, axes):
            for s, i in zip(slot_names(k), a):
                world[i] = VALUE[s] + (0.2 * i if s != "stokes" else 0.0)       # Stokes values must stay integral; no half-integers (the index of x.5 is not stable under a unit round trip)
        pix = list(world)
        ident = all(a == sorted(a) for a in axes) and [i for a in axes for i in a] == list(range(n))
        ctx.case(key=tag, nontrivial=not ident, kind=f"n{n}/{len(kinds)}frames", sample={"frames": kinds, "axes_order": axes, "world": world})
        lone_swapped = (kinds == ["cel"] and axes == [[1, 0]])
        # ---- (a) metadata describes output i ------------------------------------------------------
        try:
            comps = w.world_axis_object_components
            classes = w.world_axis_object_classes
            phys = list(w.world_axis_physical_types)
            units = list(w.world_axis_units)
            owner = []
            keys_in_order = []
            for c in comps:
                if c[0] not in keys_in_order:
                    keys_in_order.append(c[0])
            if len(set(c[0] for c in comps)) != len(kinds) or any(c[0] not in classes for c in comps):
                problems.append((f"{tag}: object components {comps} are inconsistent with classes {list(classes)}", {"layout": tag}, None))
            for i in range(n):
                # which (frame, slot) does the code say output i belongs to?  frames identified through their class entry
                key, slot = comps[i][0], comps[i][1]
                fidx = None
                for j, (k, sub) in enumerate(zip(kinds, subs)):
                    base = {"cel": "celestial", "spec": "spectral", "spec2": "spectral", "spec3": "spectral", "time": "temporal", "stokes": "stokes", "gen": "SPATIAL"}[k]
                    if key.startswith(base):
                        cand = [jj for jj, kk in enumerate(kinds) if {"cel": "celestial", "spec": "spectral", "spec2": "spectral", "spec3": "spectral", "time": "temporal",
                                                                      "stokes": "stokes", "gen": "SPATIAL"}[kk] == base]
                        suffix = key[len(base):]
                        fidx = cand[int(suffix) if suffix else 0] if (int(suffix) if suffix else 0) < len(cand) else None
                        break
                owner.append((fidx if fidx is not None else 99, slot))
            want_owner = [None] * n
            for j, a in enumerate(axes):
                for s, i in enumerate(a):
                    want_owner[i] = (j, s)
            # physical types / units per output, from the owner's own metadata
            bad_meta = []
            for i in range(n):
                j, s = want_owner[i]
                sub = subs[j]
                if phys[i] != sub.axis_physical_types[s] or units[i] != sub.unit[s].to_string(format="vounit"):
                    bad_meta.append(i)
            if owner != want_owner or bad_meta:
                key = "C12/lone-celestial-swapped" if lone_swapped else None
                problems.append((f"{tag}: metadata does not describe the outputs: components say owners {owner}, true owners {want_owner}; "
                                 f"physical types {phys}, units {units} (mismatch at outputs {bad_meta})", {"frames": kinds, "axes_order": axes}, key))
            if len(kinds) > 1:
                toks = glist(["(" + glist([str(x) for x in a]) + ", " + glist([str(10 * j + s) for s in range(len(a))]) + ")" for j, a in enumerate(axes)])
                got = glist([str(10 * o[0] + o[1]) for o in owner])
                terms_meta.append(f"({toks}, {n}, {got})")
        except Exception as e:  # noqa
            problems.append((f"{tag}: axis metadata raised {type(e).__name__}: {e}", {"layout": tag}, None))
        # ---- (b) objects carry the values of their world axes ----------------------------------------
        try:
            objs = w.pixel_to_world(*pix)
            objs = objs if isinstance(objs, (list, tuple)) and len(kinds) > 1 else [objs]
            observed = []
            for k, sub, o in zip(kinds, subs, objs):
                vals = object_values(k, o, sub)
                # which world axis does each slot value come from? (values are distinct by construction)
                observed.append([min(range(n), key=lambda i: abs(world[i] - v)) if min(abs(world[i] - v) for i in range(n)) < 1e-6 else 99 for v in vals])
            if observed != axes:
                key = "C12/lone-celestial-swapped" if lone_swapped else None
                problems.append((f"{tag}: pixel_to_world built objects from world axes {observed}, the frames declare {axes}",
                                 {"frames": kinds, "axes_order": axes, "pixel": pix}, key))
            if len(kinds) > 1:
                terms_route.append("(" + glist([glist([str(x) for x in a]) for a in axes]) + ", " + str(n) + ", " +
                                   glist([glist([str(x) for x in o]) for o in observed]) + ")")
                meta.append((kinds, axes, observed))
            # astropy's generic machinery builds the same objects
            try:
                gobjs = HighLevelWCSWrapper(w).pixel_to_world(*pix)
                gobjs = gobjs if isinstance(gobjs, (list, tuple)) else [gobjs]
                # the generic wrapper lists objects in order of first appearance along the world axes: compare kind for kind
                def sig(k, o, sub):
                    return (k if k not in ("spec2", "spec3") else "spec", tuple(round(v, 9) for v in object_values(k, o, sub)), type(o).__name__)
                mine = sorted(sig(k, o, sub) for k, sub, o in zip(kinds, subs, objs))
                order = sorted(range(len(kinds)), key=lambda j: min(axes[j]))
                theirs = sorted(sig(kinds[j], o, subs[j]) for j, o in zip(order, gobjs))
                if len(gobjs) != len(objs) or mine != theirs:
                    key = "C12/lone-celestial-swapped" if lone_swapped else None
                    problems.append((f"{tag}: astropy's generic wrapper builds {theirs}, gwcs builds {mine}", {"frames": kinds, "axes_order": axes}, key))
            except Exception as e:  # noqa
                problems.append((f"{tag}: astropy's generic HighLevelWCSWrapper.pixel_to_world raised {type(e).__name__}: {str(e)[:120]}",
                                 {"frames": kinds, "axes_order": axes}, "C12/lone-celestial-swapped" if lone_swapped else None))
            # ---- (c) round trips ----------------------------------------------------------------------
            for name, fn in (("world_to_pixel", w.world_to_pixel), ("invert", lambda *o: w.invert(*o)),
                             ("world_to_array_index", w.world_to_array_index)):
                try:
                    back = fn(*objs)
                    back = list(back) if n > 1 else [back]
                    back = [float(np.asarray(getattr(b, "value", b))) for b in back]
                    want = pix if name != "world_to_array_index" else [float(np.floor(p + 0.5)) for p in pix[::-1]]
                    if not np.allclose(back, want, rtol=0, atol=1e-6):
                        problems.append((f"{tag}: {name}(pixel_to_world({pix})) = {back}", {"frames": kinds, "axes_order": axes},
                                         "C12/lone-celestial-swapped" if lone_swapped else None))
                except Exception as e:  # noqa
                    key = "C12/lone-celestial-swapped" if lone_swapped else None
                    problems.append((f"{tag}: {name} of the objects returned by pixel_to_world raised {type(e).__name__}: {str(e)[:100]}",
                                     {"frames": kinds, "axes_order": axes, "pixel": pix}, key))
        except Exception as e:  # noqa
            problems.append((f"{tag}: pixel_to_world raised {type(e).__name__}: {str(e)[:150]}", {"frames": kinds, "axes_order": axes}, None))
    fr = ctx.coq_failing("route", HEADER, terms_route,
                         "(fun c => match c with (frames, n, got) => lleq (route nat 99 frames (seq 0 n)) got end)")
    fm = ctx.coq_failing("meta", HEADER, terms_meta,
                         "(fun c => match c with (frames, n, got) => leq (scatter_all frames (repeat 99 n)) got end)")
    ctx.oblige("correspondence: routing model (route, in Coq) = which world axes the implementation puts into each object", fr == [],
               "" if fr == [] else str([meta[i] for i in (fr or [])[:3]]))
    ctx.oblige("correspondence: metadata scatter model = owners declared by world_axis_object_components", fm == [],
               "" if fm == [] else f"{len(fm or [])} layouts")
    ctx.extra["exhaustive"] = not ctx.quick
    ctx.extra["exhaustive_families"] = "all permutations of world axes among sub-frame slots for n <= 4 (thorough tier), both listing orders"
    seen = {}
    for what, rep, key in problems:
        kk = key or what.split(":", 1)[1][:45]
        seen.setdefault(kk, (what, rep, key))
    for what, rep, key in list(seen.values()):
        ctx.violation("C12 fails on the implementation: " + what, rep, key=key)
    if (fr or fm) and not [p for p in problems if p[2] is None]:
        ctx.violation("model and implementation disagree on routing; the oracle found no violated clause", {"route": fr, "meta": fm}, found_input=False)
