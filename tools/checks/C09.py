"""C09 — ASDF write/read (and copying) yields an equivalent, independent WCS.

Proof:  coq/theories/C09/Roundtrip.v — converters as field tables: theorem roundtrip (every field named by the specification
        survives to_tree then from_tree when write and read table agree on an unshared key). The tables are REGENERATED each run
        from gwcs/converters/wcs.py by tools/py2coq/gen_converters.py (which follows variable rebinding), and Coq computes the
        premise `matching wt rt spec = true` for every converter class.
Tie:    translator + real ASDF round trips (the correspondence): every frame kind x sky frames x reference positions x axes-order
        permutations x package transforms in the pipeline x box / pixel_shape x manifest versions x lazy/eager x memmap/copy x
        file/BytesIO; fields compared, every frame pair evaluated bit for bit, tree idempotence; deepcopy / pickle isolation.
"""
import copy
import io
import itertools
import os
import pickle

import numpy as np

LEVEL = "proof"
RULE = ("WCSs built from every frame type (2-D, celestial in 6 sky frames, spectral x reference positions, temporal, Stokes, generic, "
        "nested composite, bare-name frames) x axes-order permutations x every package-defined transform in the pipeline x "
        "box/pixel_shape x ASDF standard versions (thorough) x {lazy, eager} x {memmap, copy} x {file, BytesIO}; deepcopy and pickle. "
        "non-trivial = non-default field values / permuted axes / custom inverse; distinct by (object description, open mode)")
ASDF_NOTE = "asdf / asdf-astropy encode and decode leaf values (units, Time, sky frames, arrays, astropy transforms) faithfully"
ASSUMPTIONS = [ASDF_NOTE + " — exercised by the round trips",
               "constructor normalisation (e.g. 'custom:' prefixes, upper/lower case of reference position) is idempotent — compared on the objects"]


def frame_zoo(rng):
    import astropy.units as u
    from astropy import coordinates as coord
    from astropy.time import Time
    from gwcs import coordinate_frames as cf
    out = []
    for rf in (coord.ICRS(), coord.FK5(equinox=Time("J2010")), coord.Galactic(), coord.FK4(equinox=Time("B1950")),
               coord.GCRS(obstime=Time("2020-01-01")), coord.BarycentricMeanEcliptic()):
        for ao in ((0, 1), (1, 0)):
            out.append(("celestial/" + type(rf).__name__ + str(ao),
                        lambda rf=rf, ao=ao: cf.CelestialFrame(reference_frame=rf, axes_order=ao, name="sky", unit=(u.deg, u.deg),
                                                               axes_names=("lon", "lat")), 2))
    for pos in (None, "GEOCENTER", "BARYCENTER", "HELIOCENTER"):
        for un in (u.um, u.Hz):
            out.append((f"spectral/{pos}/{un}", lambda pos=pos, un=un: cf.SpectralFrame(axes_order=(0,), unit=(un,), name="spec", axes_names=("w",),
                                                                                       reference_position=pos), 1))
    out.append(("temporal", lambda: cf.TemporalFrame(Time("2020-05-01T00:00:00"), unit=(u.s,), axes_order=(0,), name="time", axes_names=("t",)), 1))
    out.append(("stokes", lambda: cf.StokesFrame(axes_order=(0,), name="pol"), 1))
    out.append(("stokes/custom-names", lambda: cf.StokesFrame(axes_order=(0,), name="pol", axes_names=("mypol",),
                                                             axis_physical_types=("custom:mypol",)), 1))
    out.append(("frame2d", lambda: cf.Frame2D(name="focal", axes_order=(0, 1), unit=(u.mm, u.mm), axes_names=("fx", "fy")), 2))
    out.append(("generic", lambda: cf.CoordinateFrame(2, ("SPATIAL", "SPECTRAL"), (0, 1), unit=(u.m, u.nm), name="gen",
                                                      axes_names=("a", "b"), axis_physical_types=("custom:a", "custom:b")), 2))
    out.append(("generic/refpos", lambda: cf.CoordinateFrame(1, ("SPECTRAL",), (0,), unit=(u.nm,), name="genr", reference_position="BARYCENTER"), 1))
    # names left blank (defaults must not be substituted on re-reading)
    out.append(("celestial/blank-names", lambda: cf.CelestialFrame(reference_frame=coord.ICRS(), name="sky", unit=(u.deg, u.deg),
                                                                  axes_names=("", "")), 2))
    out.append(("frame2d/blank-names", lambda: cf.Frame2D(name="focal", axes_order=(0, 1), unit=(u.mm, u.mm), axes_names=None), 2))
    out.append(("spectral/partly-blank", lambda: cf.SpectralFrame(axes_order=(0,), unit=(u.um,), name="spec", axes_names=("",)), 1))
    # units that differ from the constructors' defaults, including the dimensionless unit (a falsy-looking value for a writer's shortcut)
    out.append(("frame2d/dimensionless", lambda: cf.Frame2D(name="focal", axes_order=(0, 1), unit=(u.one, u.one)), 2))
    out.append(("frame2d/default-units", lambda: cf.Frame2D(name="focal"), 2))
    out.append(("frame2d/mixed-dimensionless", lambda: cf.Frame2D(name="focal", unit=(u.one, u.pix)), 2))
    out.append(("generic/dimensionless", lambda: cf.CoordinateFrame(1, ("SPATIAL",), (0,), unit=(u.one,), name="gen1"), 1))
    out.append(("celestial/arcsec", lambda: cf.CelestialFrame(reference_frame=coord.ICRS(), name="sky", unit=(u.arcsec, u.arcsec)), 2))
    out.append(("celestial/rad-deg", lambda: cf.CelestialFrame(reference_frame=coord.ICRS(), name="sky", unit=(u.rad, u.deg)), 2))
    out.append(("temporal/days", lambda: cf.TemporalFrame(Time("2020-05-01T00:00:00"), unit=(u.d,), axes_order=(0,), name="time"), 1))
    out.append(("name-only", lambda: "world", 2))
    return out


def transform_zoo(n):
    from astropy.modeling import models
    from gwcs import geometry as g, spectroscopy as sp, selector
    T = []
    if n == 2:
        T.append(("shift&scale", lambda: models.Shift(1.5) & models.Scale(2.0)))
        T.append(("affine+bbox-custom-inverse", None))
        T.append(("tan", lambda: models.Shift(-10) & models.Shift(-20) | models.Scale(1e-3) & models.Scale(1e-3) | models.Pix2Sky_TAN() |
                  models.RotateNative2Celestial(30, 40, 180)))
        T.append(("tofrom-dircos", lambda: models.Mapping((0, 1, 1)) | g.ToDirectionCosines() | g.FromDirectionCosines() | models.Mapping((0, 1), n_inputs=3)))
        T.append(("s2c-c2s", lambda: g.SphericalToCartesian() | g.CartesianToSpherical()))
        mask = np.zeros((6, 7), dtype=int)
        mask[1:3, 1:4] = 1
        mask[3:5, 2:6] = 2
        T.append(("regions-selector", lambda: selector.RegionsSelector(("x", "y"), ("a", "b"),
                                                                        {1: models.Shift(1) & models.Scale(2), 2: models.Scale(3) & models.Shift(-1)},
                                                                        selector.LabelMapperArray(mask), undefined_transform_value=-9.0)))
        # a dictionary label mapper whose keys were inserted unsorted and overlap within atol at x = 3.0 (the last matching key wins:
        # the order of the keys is part of the model), and a range mapper with unsorted ranges
        lab = lambda v: models.Mapping((0,), n_inputs=2) | models.Const1D(v)      # noqa: E731
        T.append(("regions-selector/dict-unsorted-overlap", lambda: selector.RegionsSelector(
            ("x", "y"), ("a", "b"), {1: models.Shift(1) & models.Scale(2), 2: models.Scale(3) & models.Shift(-1)},
            selector.LabelMapperDict(("x", "y"), {3.1: lab(1), 2.9: lab(2), 7.4: lab(1)}, inputs_mapping=models.Mapping((0,), n_inputs=2), atol=0.15),
            undefined_transform_value=-9.0)))
        T.append(("regions-selector/range-unsorted", lambda: selector.RegionsSelector(
            ("x", "y"), ("a", "b"), {1: models.Shift(1) & models.Scale(2), 2: models.Scale(3) & models.Shift(-1)},
            selector.LabelMapperRange(("x", "y"), {(7.0, 9.0): lab(2), (2.0, 4.0): lab(1)}, inputs_mapping=models.Mapping((0,), n_inputs=2)),
            undefined_transform_value=-9.0)))
        T.append(("grating", lambda: models.Mapping((0, 1, 1)) | (models.Scale(1e-6) & models.Scale(0.01) & models.Scale(0.01)) |
                  sp.AnglesFromGratingEquation3D(20000, 1) | models.Mapping((0, 1), n_inputs=3)))
    else:
        T.append(("scale|shift", lambda: models.Scale(0.5) | models.Shift(2.0)))
        B, C = [0.58339748, 0.46085267, 3.8915394], [0.00252643, 0.010078333, 1200.556]
        T.append(("sellmeier-glass", lambda: sp.SellmeierGlass(B, C)))
        T.append(("sellmeier-zemax", lambda: sp.SellmeierZemax(65, 35, 0.9, 1.1, B, C, [-2.66e-05, 1e-9, 0.0], [1e-7, 1e-9, 0.2])))
        T.append(("wavelength-from-grating", lambda: models.Mapping((0, 0)) | sp.WavelengthFromGratingEquation(20000, -1)))
        T.append(("snell", lambda: models.Mapping((0, 0, 0, 0)) | (models.Const1D(1.5) & models.Scale(0.01) & models.Scale(0.02) & models.Const1D(0.9))
                  | sp.Snell3D() | models.Mapping((0,), n_inputs=3)))
    return T


def custom_inverse_transform():
    from astropy.modeling import models
    t = models.Polynomial2D(1, c0_0=1, c1_0=2, c0_1=0) & models.Polynomial2D(1, c0_0=-1, c1_0=0, c0_1=3) | models.Identity(2)
    t = models.Mapping((0, 1, 0, 1)) | t
    t.inverse = models.Mapping((0, 1, 0, 1)) | models.Polynomial2D(1, c0_0=-0.5, c1_0=0.5, c0_1=0) & models.Polynomial2D(1, c0_0=1 / 3, c1_0=0, c0_1=1 / 3)
    return t


def describe_frame(f):
    if isinstance(f, str):
        return ("str", f)
    d = {"type": type(f).__name__, "name": f.name, "axes_order": tuple(f.axes_order), "axes_names": tuple(f.axes_names),
         "unit": tuple(str(x) for x in f.unit), "phys": tuple(f.axis_physical_types), "naxes": f.naxes, "axes_type": tuple(f.axes_type)}
    rf = getattr(f, "reference_frame", None)
    if rf is not None:
        try:
            d["reference_frame"] = (type(rf).__name__, tuple(sorted((k, str(getattr(rf, k))) for k in getattr(rf, "frame_attributes", {}))))
        except Exception:  # noqa
            d["reference_frame"] = str(rf)
    d["reference_position"] = getattr(f, "reference_position", None)
    if hasattr(f, "frames"):
        d["frames"] = tuple(tuple(sorted(describe_frame(x).items())) if not isinstance(x, str) else x for x in f.frames)
    return d


def evaluate_all(w, pts):
    """forward, backward and every frame pair on integer-friendly points -> list of float.hex tuples"""
    out = []
    fr = w.available_frames
    with np.errstate(all="ignore"):
        for pt in pts:
            try:
                r = w(*pt, with_bounding_box=False)
                out.append(("fwd", tuple(float(v).hex() for v in np.atleast_1d(r))))
                try:
                    b = w.invert(*np.atleast_1d(r), with_bounding_box=False)
                    out.append(("inv", tuple(float(v).hex() for v in np.atleast_1d(b))))
                except Exception as e:  # noqa
                    out.append(("inv", type(e).__name__))
            except Exception as e:  # noqa
                out.append(("fwd", type(e).__name__))
        for a, b in itertools.permutations(range(len(fr)), 2):
            try:
                t = w.get_transform(fr[a], fr[b])
                r = t(*pts[0])
                out.append((f"{a}->{b}", tuple(float(v).hex() for v in np.atleast_1d(r))))
            except Exception as e:  # noqa
                out.append((f"{a}->{b}", type(e).__name__))
    return out


def roundtrip(w, mode, tmpdir, version=None, ext=None):
    import asdf
    kwa = {}
    if version is not None:
        kwa["version"] = version
    if ext is not None:
        kwa["extensions"] = [ext]          # write with one particular registered gwcs manifest version
    af = asdf.AsdfFile({"wcs": w}, **kwa)
    lazy, memmap, where = mode
    if where == "bytes":
        buf = io.BytesIO()
        af.write_to(buf)
        buf.seek(0)
        src = buf
    else:
        src = os.path.join(tmpdir, "rt.asdf")
        af.write_to(src)
    # from here on the file exists: a failure is not a refusal to write but a file that cannot be read back
    try:
        with asdf.open(src, lazy_load=lazy, memmap=memmap) as f2:
            w2 = f2["wcs"]
            # force loading while the file is open, then detach
            tree2 = asdf.AsdfFile({"wcs": w2})
            buf2 = io.BytesIO()
            tree2.write_to(buf2)
            w2 = copy.deepcopy(w2)
    except Exception as e:  # noqa
        raise ReadBackError(f"{type(e).__name__}: {str(e)[:120]}") from e
    return w2, buf2.getvalue()


class ReadBackError(Exception):
    pass


def yaml_part(b):
    i = b.find(b"\n...")
    return b[:i] if i >= 0 else b


def run(ctx):
    from py2coq import gen_converters as G
    from lib.common import REPO
    import asdf
    ctx.trusted += ["tools/py2coq/gen_converters.py (table extractor, follows rebinding)", "tools/checks/C09.py object zoo and comparison",
                    "asdf, asdf-astropy, asdf_wcs_schemas as installed"]
    ctx.gate()
    ctx.coq_theorems("C09/Roundtrip", ["roundtrip", "lookup_flat_unique", "from_tree_lookup", "spectral_refpos_refuted"])
    problems = []
    try:
        src, tables = G.gen(REPO)
        ctx.oblige("translate: field tables of gwcs/converters/wcs.py", True)
    except (G.Unsupported, SyntaxError, KeyError) as e:
        src, tables = None, {}
        ctx.oblige("translate: field tables of gwcs/converters/wcs.py", False, str(e))
    unmatched = []
    if src is not None:
        ctx.dyn_build("WC09", {"Gen_converters": src}, [], ["Gen_converters"])
        for name, spec in G.SPEC.items():
            if name not in tables:
                ctx.oblige(f"converter class {name} exists", False)
                continue
            lst = "[" + "; ".join(f'"{x}"' for x in spec) + "]"
            ob = ("From Coq Require Import String List. Import ListNotations. Local Open Scope string_scope.\n"
                  "From GW Require Import C09.Roundtrip.\nFrom WC09 Require Import Gen_converters.\n"
                  f"Theorem C09_tables_match_{name} : matching wt_{name} rt_{name} {lst} = true.\nProof. vm_compute. reflexivity. Qed.\n"
                  f"Theorem C09_roundtrip_{name} : forall (value : Type) (f : assoc value) fld v, In fld {lst} -> lookup value fld f = Some v ->\n"
                  f"  lookup value fld (from_tree value rt_{name} (to_tree value wt_{name} f)) = Some v.\n"
                  f"Proof. intros value f fld v. apply roundtrip. exact C09_tables_match_{name}. Qed.\nPrint Assumptions C09_roundtrip_{name}.\n")
            r = ctx.dyn_build("WC09", {"M_" + name: ob}, [], ["M_" + name])["M_" + name]
            ctx.oblige(f"C09_roundtrip_{name}: regenerated write/read tables carry every specified field ({', '.join(spec)})", r[0], r[1][-300:])
            if r[0]:
                ctx._parse_assumptions([f"C09_roundtrip_{name}"], r[1])
            else:
                unmatched.append(name)
    # ---- transform converters (selector / geometry / spectroscopy): same theorem, tables per model class --------------
    from py2coq import gen_tconverters as GT
    try:
        tsrc, ttables = GT.gen(REPO)
        ctx.oblige("translate: field tables of gwcs/converters/{selector,geometry,spectroscopy}.py", True)
    except (GT.Unsupported, SyntaxError, KeyError, AttributeError, IndexError) as e:
        tsrc, ttables = None, {}
        ctx.oblige("translate: field tables of gwcs/converters/{selector,geometry,spectroscopy}.py", False, f"{type(e).__name__}: {e}")
    if tsrc is not None:
        ctx.dyn_build("WC09", {"Gen_tconv": tsrc}, [], ["Gen_tconv"])
        expected = {"LabelMapperArray", "LabelMapperDict", "LabelMapperRange", "LabelMapper", "RegionsSelector", "ToDirectionCosines",
                    "FromDirectionCosines", "SphericalToCartesian", "CartesianToSpherical", "SellmeierGlass", "SellmeierZemax", "Snell3D",
                    "AnglesFromGratingEquation3D", "WavelengthFromGratingEquation"}
        ctx.oblige("every gwcs model class has a converter entry", expected <= set(ttables), f"missing: {sorted(expected - set(ttables))}")
        for name in sorted(ttables):
            wt, rt, ps = ttables[name]
            spec = list(ps) + ([GT.CLASS_TAG] if any(a == GT.CLASS_TAG for _, a in wt) else [])
            lst = "[" + "; ".join(f'"{x}"' for x in spec) + "]"
            sel = (f"Definition e_{name} := match find (fun e => String.eqb (fst e) \"{name}\") tconv with Some e => snd e | None => ([], [], []) end.\n"
                   f"Definition wt_{name} := fst (fst e_{name}).\nDefinition rt_{name} := snd (fst e_{name}).\n")
            ob = ("From Coq Require Import String List. Import ListNotations. Local Open Scope string_scope.\n"
                  "From GW Require Import C09.Roundtrip.\nFrom WC09 Require Import Gen_tconv.\n" + sel +
                  f"Theorem C09_params_are_the_constructor_s_{name} : snd e_{name} = {'[' + '; '.join(chr(34) + x + chr(34) for x in ps) + ']'}.\nProof. vm_compute. reflexivity. Qed.\n"
                  f"Theorem C09_tables_match_{name} : matching wt_{name} rt_{name} {lst} = true.\nProof. vm_compute. reflexivity. Qed.\n"
                  f"Theorem C09_roundtrip_{name} : forall (value : Type) (f : assoc value) fld v, In fld {lst} -> lookup value fld f = Some v ->\n"
                  f"  lookup value fld (from_tree value rt_{name} (to_tree value wt_{name} f)) = Some v.\n"
                  f"Proof. intros value f fld v. apply roundtrip. exact C09_tables_match_{name}. Qed.\nPrint Assumptions C09_roundtrip_{name}.\n")
            r = ctx.dyn_build("WC09", {"MT_" + name: ob}, [], ["MT_" + name])["MT_" + name]
            ctx.oblige(f"C09_roundtrip_{name}: regenerated transform-converter tables carry every constructor parameter ({', '.join(spec) or 'none'})",
                       r[0], r[1][-300:])
            if r[0]:
                ctx._parse_assumptions([f"C09_roundtrip_{name}"], r[1])
            else:
                unmatched.append(name)
    # ---- real round trips ---------------------------------------------------------------------------
    import tempfile
    from astropy.modeling import models
    from gwcs import wcs, coordinate_frames as cf
    import astropy.units as u
    rng = ctx.rng
    modes = [(False, False, "bytes")] if ctx.quick else list(itertools.product((True, False), (True, False), ("bytes", "file")))
    zoo = frame_zoo(rng)
    tmpdir = tempfile.mkdtemp(prefix="c09_", dir=ctx.work)
    objs = []
    for fname, mk, n in zoo:
        for tname, tmk in transform_zoo(n):
            if ctx.quick and rng.random() < 0.55 and tname not in ("affine+bbox-custom-inverse", "regions-selector") and "spectral" not in fname and "stokes" not in fname:
                continue
            objs.append((fname, mk, n, tname, tmk))
    # composite / nested composite
    def comp():
        from astropy import coordinates as coord
        sky = cf.CelestialFrame(reference_frame=coord.ICRS(), axes_order=(2, 0), name="sky")
        spec = cf.SpectralFrame(axes_order=(1,), unit=(u.um,), name="spec", reference_position="BARYCENTER")
        return cf.CompositeFrame([sky, spec], name="cube")
    for fname, mk, n, tname, tmk in objs:
        det = cf.CoordinateFrame(n, ("PIXEL",) * n, tuple(range(n)), unit=(u.pix,) * n, name="detector") if rng.random() < 0.7 else "detector"
        tr = custom_inverse_transform() if tmk is None else tmk()
        mid = cf.Frame2D(name="mid") if n == 2 else cf.CoordinateFrame(1, ("SPATIAL",), (0,), unit=(u.pix,), name="mid")
        extra = (models.Shift(0.25) & models.Shift(-0.5)) if n == 2 else models.Shift(0.25)
        try:
            w = wcs.WCS([(det, tr), (mid, extra), (mk(), None)], name=f"w-{fname}")
        except Exception as e:  # noqa
            problems.append((f"constructing WCS for {fname}/{tname} raised {type(e).__name__}: {e}", {}, None))
            continue
        with_box = rng.random() < 0.6
        if with_box:
            try:
                w.bounding_box = ((0.0, 10.0), (1.0, 20.0)) if n == 2 else (0.5, 9.5)
            except Exception:  # noqa
                with_box = False
        if rng.random() < 0.5 and not isinstance(det, str):     # (the pixel_shape setter needs an input frame object)
            w.pixel_shape = (11, 21) if n == 2 else (10,)
        pts = [(3.0, 4.0), (7.5, 12.25)] if n == 2 else [(1.5,), (6.0,)]
        versions = [None] if ctx.quick else [None] + [v for v in ("1.5.0", "1.6.0") if v in [str(x) for x in asdf.versioning.supported_versions]]
        combos = [(m, v, None) for m in modes for v in (versions if m == modes[0] else [None])]
        if not ctx.quick or rng.random() < 0.3:
            from gwcs.extension import get_extensions
            combos += [(modes[0], None, e) for e in get_extensions() if getattr(e, "tags", None)]
        for mode, version, ext in combos:
            tag = f"{fname}|{tname}|box={with_box}|{mode}|asdf={version}" + (f"|{ext.extension_uri.rsplit('/', 1)[-1]}" if ext is not None else "")
            try:
                w2, tree_bytes = roundtrip(w, mode, tmpdir, version, ext)
            except ReadBackError as e:
                problems.append((f"{tag}: the file was written but reading it back raised {e}", {"object": tag}, None))
                continue
            except Exception as e:  # noqa
                # a refusal with an error is allowed by the property; record it
                ctx.case(key=tag, nontrivial=False, kind="refused/" + type(e).__name__, sample={"object": tag, "refused": str(e)[:80]})
                continue
            ctx.case(key=tag, nontrivial=("(1, 0)" in fname or tmk is None or "BARY" in fname or "custom" in fname), kind=fname.split("/")[0],
                     sample={"frames": fname, "transform": tname, "bounding_box": with_box, "open_mode": list(map(str, mode))})
            # fields
            bad = []
            if w2.name != w.name or w2.pixel_shape != w.pixel_shape:
                bad.append("name/pixel_shape")
            b1 = w.bounding_box
            b2 = w2.bounding_box
            if (b1 is None) != (b2 is None) or (b1 is not None and b1.bounding_box(order="F") != b2.bounding_box(order="F")):
                bad.append("bounding_box")
            if list(w2.available_frames) != list(w.available_frames):
                bad.append("frame sequence")
            for s1, s2 in zip(w.pipeline, w2.pipeline):
                d1, d2 = describe_frame(s1.frame), describe_frame(s2.frame)
                if d1 != d2:
                    diff = [k for k in d1 if isinstance(d1, dict) and d1.get(k) != (d2.get(k) if isinstance(d2, dict) else None)]
                    key = None
                    if diff == ["reference_position"] and d1.get("type") == "CoordinateFrame":
                        key = "C09/generic-refpos-dropped"
                    elif d1.get("type") == "StokesFrame" and set(diff) <= {"axes_names", "phys"}:
                        key = "C09/stokes-fields-dropped"
                    elif (diff == ["reference_position"] and d1.get("type") == "SpectralFrame" and version == "1.5.0"
                          and d1.get("reference_position") is None and str(d2.get("reference_position")).upper() == "GEOCENTER"):
                        key = "C09/legacy-standard-refpos-default"     # schema default filled in by asdf for standards <= 1.5.0
                    problems.append((f"{tag}: frame '{d1.get('name') if isinstance(d1, dict) else d1}' differs after the round trip in {diff}: "
                                     f"{[(k, d1.get(k), d2.get(k)) for k in diff][:3]}", {"object": tag}, key))
            if bad:
                problems.append((f"{tag}: {', '.join(bad)} differ after the round trip", {"object": tag}, None))
            # behaviour, bit for bit
            e1, e2 = evaluate_all(w, pts), evaluate_all(w2, pts)
            if e1 != e2:
                k = next(i for i, (a, b) in enumerate(zip(e1, e2)) if a != b)
                problems.append((f"{tag}: evaluation differs after the round trip at {e1[k][0]}: {e1[k][1]} vs {e2[k][1]}", {"object": tag}, None))
            # writing the re-read object gives the same tree
            try:
                _, tree_bytes2 = roundtrip(w2, (False, False, "bytes"), tmpdir)
                if yaml_part(tree_bytes) != yaml_part(tree_bytes2):
                    problems.append((f"{tag}: writing the re-read WCS produces a different tree", {"object": tag}, None))
            except Exception as e:  # noqa
                problems.append((f"{tag}: re-writing the re-read WCS raised {type(e).__name__}", {"object": tag}, None))
        # deepcopy / pickle: equivalence and isolation
        for how, fn in (("deepcopy", copy.deepcopy), ("pickle", lambda o: pickle.loads(pickle.dumps(o)))):
            try:
                c = fn(w)
            except Exception as e:  # noqa
                problems.append((f"{fname}|{tname}: {how} of the WCS raised {type(e).__name__}: {str(e)[:100]}", {"object": f"{fname}|{tname}"}, None))
                continue
            if evaluate_all(c, pts) != evaluate_all(w, pts) or list(c.available_frames) != list(w.available_frames):
                problems.append((f"{fname}|{tname}: {how} is not equivalent to the original", {}, None))
            before = evaluate_all(w, pts)
            try:
                c.insert_transform(c.available_frames[-1], extra, after=False)
                c.pixel_shape = None
                for p in c.pipeline[0].transform.param_names[:1]:
                    setattr(c.pipeline[0].transform, p, getattr(c.pipeline[0].transform, p).value + 1.0)
            except Exception:  # noqa
                pass
            if evaluate_all(w, pts) != before:
                problems.append((f"{fname}|{tname}: mutating a {how} changed the original (shared state)", {}, None))
    # nested composite object
    try:
        w = wcs.WCS([(cf.CoordinateFrame(3, ("PIXEL",) * 3, (0, 1, 2), unit=(u.pix,) * 3, name="detector"),
                      models.Scale(1.0) & models.Scale(2.0) & models.Scale(0.5)), (comp(), None)], name="cube")
        w2, _ = roundtrip(w, (False, False, "bytes"), tmpdir)
        ctx.case(key="composite", nontrivial=True, kind="composite", sample={"frames": "Composite[Celestial(2,0), Spectral(1)]"})
        if describe_frame(w.output_frame) != describe_frame(w2.output_frame):
            problems.append(("composite frame differs after the round trip", {}, None))
    except Exception as e:  # noqa
        problems.append((f"composite round trip raised {type(e).__name__}: {e}", {}, None))
    ctx.oblige("ASDF / deepcopy / pickle round trips: fields, behaviour (bit for bit), tree idempotence, isolation",
               not [p for p in problems if p[2] is None], problems[0][0][:300] if problems else "")
    seen = set()
    for what, rep, key in problems:
        kk = key or what.split(":", 1)[-1][:40]
        if kk in seen:
            continue
        seen.add(kk)
        ctx.violation("C09 fails on the implementation: " + what, rep, key=key)
    if unmatched and not [p for p in problems if p[2] is None]:
        ctx.violation("converter tables of " + ", ".join(unmatched) + " no longer carry every specified field; the round trips found no lost field",
                      {"theorems": ["C09_roundtrip_" + n for n in unmatched]}, found_input=False)
