"""C04 — inverse results and in_image respect the bounding box on every inversion path.

Proof:  coq/theories/C04/Invert.v — hand model (IEEE binary64 comparisons) of invert's routing, the blanking tail of the
        iterative solver and in_image: in_image_spec (right on both paths), iterative_masks, masking_off_ignores_box;
        the full clause `invert_masks_both_paths` is stated, proved for a masking analytic path and REFUTED for the code
        as it stands (invert_analytic_unmasked_refuted) — known finding C04/analytic-path-unmasked.
Tie:    AST pins + bit-exact correspondence: for each generated world point the raw solution of the chosen path is
        obtained from the implementation (with_bounding_box=False); the model decides (in Coq) masking and in_image, and
        must reproduce invert / numerical_inverse / in_image exactly.
Search: property oracle on the implementation using the true pixel of each generated world point.
"""
import math

import numpy as np

from lib.common import gz, glist, gfloat, gbool
from lib import pins

LEVEL = "proof"
RULE = ("1-D and 2-D WCSs with a box, each with its analytic inverse and with it removed (inverse-less identity wrapper => iterative "
        "path); world points from pixels inside, exactly on the edges, outside, plus NaN; fill in {default, NaN, finite, inf, 0.0, int 0}; "
        "with_bounding_box in {default, True, False}; scalar and array calls. non-trivial = pixel on an edge or outside; "
        "distinct = (wcs, path, pixel, fill, flag)")
ASSUMPTIONS = [
    "the raw (unmasked) solution of each path is taken from the implementation; convergence of the solver is C05's subject",
    "batches are pointwise (C06)",
]
PINS = ["gwcs/wcs.py::WCS.invert", "gwcs/wcs.py::WCS.in_image", "gwcs/wcs.py::WCS.numerical_inverse"]
HEADER = ("From Coq Require Import ZArith List Bool PrimFloat. Import ListNotations.\n"
          "From GW Require Import Base.Fl C03.BBox C04.Invert.\n")


def build(rng, n, analytic, preattach=False):
    import astropy.units as u
    from astropy.modeling import models
    from gwcs import wcs, coordinate_frames as cf
    if n == 1:
        a, b = rng.choice([0.5, 2.0, -1.5]), rng.uniform(-3, 3)
        tr = models.Scale(a) | models.Shift(b)
        if not analytic:
            tr = models.Polynomial1D(1, c0=0.0, c1=1.0) | tr
        det = cf.CoordinateFrame(naxes=1, axes_type=("PIXEL",), axes_order=(0,), name="detector", unit=(u.pix,))
        out = cf.CoordinateFrame(naxes=1, axes_type=("SPATIAL",), axes_order=(0,), name="world", unit=(u.pix,))
        box = [(float(rng.randint(0, 3)), float(rng.randint(6, 40)) + rng.choice([0.0, 0.5]))]
    else:
        from astropy import coordinates as coord
        ang = rng.uniform(-30, 30)
        sc = 10 ** rng.uniform(-4.5, -3.5)
        tr = (models.Shift(-rng.uniform(20, 60)) & models.Shift(-rng.uniform(2, 9)) | models.Rotation2D(ang) |
              models.Scale(sc * rng.choice([1, -1])) & models.Scale(sc) | models.Pix2Sky_TAN() |
              models.RotateNative2Celestial(rng.uniform(0, 360), rng.uniform(-70, 70), 180))
        if not analytic:
            ident = models.Mapping((0, 1, 0, 1)) | models.Polynomial2D(1, c0_0=0, c1_0=1, c0_1=0) & models.Polynomial2D(1, c0_0=0, c1_0=0, c0_1=1)
            tr = ident | tr
        det = cf.Frame2D(name="detector")
        out = cf.CelestialFrame(reference_frame=coord.ICRS(), name="world")
        box = [(0.0, float(rng.randint(50, 120))), (float(rng.randint(0, 4)), float(rng.randint(8, 30)) + 0.5)]
    if preattach and n == 2:
        # the box is put on the forward transform BEFORE the WCS is built: astropy stores it in its native 'C' order (y first)
        tr.bounding_box = tuple(box[::-1])
        w = wcs.WCS([(det, tr), (out, None)])
    else:
        w = wcs.WCS([(det, tr), (out, None)])
        w.bounding_box = box[0] if n == 1 else tuple(box)
    return w, box


def pixel_classes(rng, box):
    pts = []
    for _ in range(3):
        pts.append(("inside", [rng.uniform(lo + 0.1 * (hi - lo), hi - 0.1 * (hi - lo)) for lo, hi in box]))
    for k in range(len(box)):
        for edge in (0, 1):
            p = [(lo + hi) / 2 for lo, hi in box]
            p[k] = box[k][edge]
            pts.append(("edge", p))
        p = [(lo + hi) / 2 for lo, hi in box]
        p[k] = box[k][1] + rng.uniform(0.5, 40)
        pts.append(("outside", p))
        p = [(lo + hi) / 2 for lo, hi in box]
        p[k] = box[k][0] - rng.uniform(0.5, 40)
        pts.append(("outside", p))
    pts.append(("nan", [math.nan] * len(box)))
    return pts


def aslist(r, n):
    return [float(v) for v in (r if n > 1 else [r])]


def run(ctx):
    ctx.trusted += ["hand model coq/theories/C04/Invert.v; tools/checks/C04.py generators, bit-exact differ, oracle",
                    "FloatAxioms (Coq stdlib) via C03.BBox"]
    ctx.gate()
    ctx.coq_theorems("C04/Invert", ["in_image_spec", "in_image_needs_finite", "nonfinite_pixel_not_in_image", "in_image_without_box", "iterative_masks", "masking_off_ignores_box",
                                    "invert_masks_when_analytic_masks", "invert_analytic_unmasked_refuted"])
    pins.check(ctx, PINS)
    rng = ctx.rng
    terms_i, terms_m, meta_i, meta_m, problems = [], [], [], [], []
    nw = 12 if ctx.quick else 80
    for wi in range(nw):
        n = 1 + (wi % 2)
        analytic = (wi // 2) % 2 == 0
        w, box = build(rng, n, analytic, preattach=(wi // 4) % 2 == 1)
        cbox = "(Some " + glist([f"({gfloat(lo)}, {gfloat(hi)})" for lo, hi in box]) + ")"
        for cls, pix in pixel_classes(rng, box):
            with np.errstate(all="ignore"):
                world = aslist(w(*pix, with_bounding_box=False), n)
                try:
                    raw = aslist(w.invert(*world, with_bounding_box=False), n) if analytic else \
                        aslist(w.numerical_inverse(*world, with_bounding_box=False), n)
                except Exception as e:  # noqa
                    key = "C04/iterative-1d-raises" if (n == 1 and not analytic and isinstance(e, TypeError)) else None
                    problems.append((f"{n}-D {'analytic' if analytic else 'iterative'} inversion raised {type(e).__name__}: {e}",
                                     {"dim": n, "pixel": pix, "how": "WCS with Polynomial1D(1,c0=0,c1=1)|Scale|Shift (no analytic inverse); w.invert(world)"}, key))
                    continue
                for fill in (None, -999.25, math.inf, 0.0, 0) if not ctx.quick else (None, rng.choice([-999.25, math.inf, 0.0, 0])):
                    for wb in (None, True, False) if not ctx.quick else (None, rng.choice([True, False])):
                        kw = {}
                        if fill is not None:
                            kw["fill_value"] = fill
                        if wb is not None:
                            kw["with_bounding_box"] = wb
                        got = aslist(w.invert(*world, **kw), n)
                        cwb = "None" if wb is None else f"(Some {gbool(wb)})"
                        cfill = "None" if fill is None else f"(Some {gfloat(fill)})"
                        terms_i.append(f"({n}%nat, {cbox}, {gbool(analytic)}, {glist([gfloat(v) for v in raw])}, {cwb}, {cfill}, "
                                       f"{glist([gfloat(v) for v in got])})")
                        meta_i.append((n, analytic, cls, pix, wb, fill))
                        ctx.case(key=(wi, cls, tuple(pix), str(fill), wb), nontrivial=cls in ("edge", "outside"),
                                 kind=f"{'analytic' if analytic else 'iterative'}/{cls}",
                                 sample={"dim": n, "path": "analytic" if analytic else "iterative", "pixel": pix, "class": cls,
                                         "fill": str(fill), "with_bounding_box": wb, "result": got})
                        # ---- oracle (true pixel known)
                        masked_expected = cls == "outside" and wb is not False
                        eff = math.nan if fill is None else fill
                        if cls in ("inside", "outside"):
                            if masked_expected:
                                okm = all((math.isnan(g) and math.isnan(eff)) or g == eff for g in got)
                                if not okm:
                                    key = "C04/analytic-path-unmasked" if (analytic and all(abs(g - p) < 1e-6 for g, p in zip(got, pix))) else None
                                    problems.append((f"{'analytic' if analytic else 'iterative'} invert of the world point of pixel {pix} (outside box {box}) "
                                                     f"returns {got}, not the fill value", {"dim": n, "box": box, "pixel": pix, "world": world,
                                                                                            "with_bounding_box": wb, "fill": str(fill)}, key))
                            elif analytic or cls == "inside":
                                # (outside the box with masking off, the iterative solver is not promised to converge: C05)
                                if not all(abs(g - p) < 1e-4 for g, p in zip(got, pix)):
                                    problems.append((f"invert of the world point of pixel {pix} ({cls}, with_bounding_box={wb}) returns {got}",
                                                     {"dim": n, "box": box, "pixel": pix}))
                inim = w.in_image(*world)
                if np.shape(inim) != ():
                    problems.append((f"in_image of a scalar point returns shape {np.shape(inim)}", {"pixel": pix}))
                terms_m.append(f"({n}%nat, {cbox}, {gbool(analytic)}, {glist([gfloat(v) for v in raw])}, {gbool(bool(inim))})")
                meta_m.append((n, analytic, cls, pix))
                if cls in ("inside", "outside", "nan") and bool(inim) != (cls == "inside"):
                    problems.append((f"in_image is {bool(inim)} for the world point of pixel {pix} ({cls}; box {box})", {"pixel": pix, "box": box}))
        # array call = elementwise
        if n == 1 and not analytic:
            continue        # the iterative solver does not support 1-D (known finding above)
        # (points exactly on an edge are decided by rounding noise of the round trip: left out here)
        pts = [p for c, p in pixel_classes(rng, box) if c not in ("nan", "edge")]
        with np.errstate(all="ignore"):
            cols = [np.array([p[k] for p in pts]) for k in range(n)]
            worlds = w(*cols, with_bounding_box=False)
            worlds = worlds if n > 1 else (worlds,)
            arr = w.in_image(*worlds)
            sc = [bool(w.in_image(*[float(ww[i]) for ww in worlds])) for i in range(len(pts))]
            if np.shape(arr) != (len(pts),) or [bool(v) for v in arr] != sc:
                problems.append((f"in_image on an array {[bool(v) for v in np.atleast_1d(arr)]} differs from element-wise {sc}", {"box": box}))
            ai = w.invert(*worlds)
            ai = ai if n > 1 else (ai,)
            si = [aslist(w.invert(*[float(ww[i]) for ww in worlds]), n) for i in range(len(pts))]
            if not all(np.allclose([a[i] for a in ai], si[i], rtol=0, atol=(1e-6 if analytic else 3e-5), equal_nan=True) for i in range(len(pts))):
                problems.append(("invert on an array differs from element-wise inversion", {"box": box}))
    # ---- no box, and boxes open to infinity: non-finite world values must not be reported as in the image -----------------
    for wi in range(4 if ctx.quick else 24):
        n = 1 + (wi % 2)
        w, box = build(rng, n, True)
        mode = ["nobox", "open"][(wi // 2) % 2]
        box = None if mode == "nobox" else [(lo, math.inf) for lo, hi in box]
        w.bounding_box = None if box is None else (box[0] if n == 1 else tuple(box))
        cbox = "None" if box is None else "(Some " + glist([f"({gfloat(lo)}, {gfloat(hi)})" for lo, hi in box]) + ")"
        if n == 1:
            cands = [[math.inf], [-math.inf], [math.nan], [rng.uniform(1, 5)], [1e300]]
        else:
            ok = aslist(w(rng.uniform(5, 40), rng.uniform(5, 8), with_bounding_box=False), 2)
            cands = [ok, [math.inf, ok[1]], [ok[0], -math.inf], [math.nan, ok[1]], [math.inf, math.inf]]
        for world in cands:
            with np.errstate(all="ignore"):
                try:
                    raw = aslist(w.invert(*world, with_bounding_box=False), n)
                    inim = w.in_image(*world)
                except Exception as e:  # noqa
                    problems.append((f"in_image / invert of world point {world} ({mode}) raised {type(e).__name__}: {str(e)[:100]}",
                                     {"dim": n, "box": str(box), "world": [str(v) for v in world]}))
                    continue
            want = all(math.isfinite(v) for v in raw) and (box is None or all(lo <= v <= hi for v, (lo, hi) in zip(raw, box)))
            ctx.case(key=("nobox", wi, str(world)), nontrivial=not all(math.isfinite(v) for v in world), kind=f"in_image/{mode}",
                     sample={"dim": n, "box": str(box), "world": [str(v) for v in world], "pixel": [str(v) for v in raw]})
            terms_m.append(f"({n}%nat, {cbox}, true, {glist([gfloat(v) for v in raw])}, {gbool(bool(inim))})")
            meta_m.append((n, True, mode, [str(v) for v in world]))
            if np.shape(inim) != () or bool(inim) != want:
                problems.append((f"in_image is {inim} for world point {world}, which inverts to pixel {raw} (box {box})",
                                 {"dim": n, "box": str(box), "world": [str(v) for v in world], "pixel": [str(v) for v in raw]}))
        cols = [np.array([c[k] for c in cands]) for k in range(n)]
        with np.errstate(all="ignore"):
            arr = w.in_image(*cols)
            sc = [bool(w.in_image(*c)) for c in cands]
        if np.shape(arr) != (len(cands),) or [bool(v) for v in arr] != sc:
            problems.append((f"in_image on an array {[bool(v) for v in np.atleast_1d(arr)]} differs from element-wise {sc} ({mode})",
                             {"box": str(box), "world": [[str(v) for v in c] for c in cands]}))
    fi = ctx.coq_failing("inv", HEADER, terms_i,
                         "(fun c => match c with (n, box, an, raw, wb, fill, got) => check_invert n box an raw wb fill got end)")
    fm = ctx.coq_failing("inim", HEADER, terms_m,
                         "(fun c => match c with (n, box, an, raw, got) => check_in_image n box an raw got end)")
    ctx.oblige("correspondence: model invert (masking decision in Coq) reproduces invert/numerical_inverse bit for bit", fi == [],
               "" if fi == [] else f"failing: {[meta_i[i] for i in (fi or [])[:3]]}")
    ctx.oblige("correspondence: model in_image reproduces in_image on every point", fm == [],
               "" if fm == [] else f"failing: {[meta_m[i] for i in (fm or [])[:3]]}")
    seen = set()
    for pr in problems:
        what, rep, key = pr[0], pr[1], (pr[2] if len(pr) > 2 else None)
        k = key or what[:45]
        if k in seen:
            continue
        seen.add(k)
        ctx.violation("C04 fails on the implementation: " + what, rep, key=key)
    if (fi or fm) and not [p for p in problems if len(p) < 3 or p[2] is None]:
        ctx.violation("model and implementation disagree; the oracle found no violated clause beyond the known finding",
                      {"invert": [str(meta_i[i]) for i in (fi or [])[:3]], "in_image": [str(meta_m[i]) for i in (fm or [])[:3]]},
                      found_input=False)
