"""C19 — the package's analytic models satisfy their defining identities.

Proof:  coq/dyn/C19/ModelProofs.v — theorems over the REAL-NUMBER functions that tools/py2coq/t1 REGENERATES each run from
        the `evaluate` bodies in gwcs/geometry.py and gwcs/spectroscopy.py (Gen_models.v): unit sphere, normalised direction
        cosines, from(to(v)) = (x, y, 1), grating equation, grating / Snell unit triples, Sellmeier formula, Zemax = the
        published formula (transcribed by hand), latitude in [-90, 90], longitude in [0, 360) / [-180, 180], poles -> 0.
Tie:    translator (fail-closed) + translator self-check: the numpy closure emitted from the same AST walk is compared
        bit for bit with the real `evaluate` on random inputs.
Tested (not proved): the identities in binary64 on edge inputs (poles, wrap boundaries, > 1 turn, zero vectors,
        Quantity vs plain), within a few ulp.
"""
import math

import numpy as np

LEVEL = "proof"
RULE = ("(a) translator self-check: closure vs evaluate on random scalars/arrays per model (bit-exact); (b) float identities on "
        "longitudes/latitudes incl. poles, 0/360/+-180 boundaries and values beyond one turn, cartesian vectors incl. axis-aligned "
        "and zero, both wrap settings, Quantity and plain inputs, physically admissible grating/Snell inputs, Sellmeier coefficient "
        "sets, scalar and array wavelengths. non-trivial = edge input (pole / boundary / zero vector / array); distinct by value")
ASSUMPTIONS = [
    "numpy functions mean their real-number counterparts (RMath.v: deg2rad, rad2deg, arctan2, hypot, mod, masked update)",
    "PARTIAL wrt floating point: theorems are over R; binary64 behaviour is sampled (tested)",
    "Reals axioms of the Coq standard library (ClassicalDedekindReals.sig_forall_dec, sig_not_dec, functional_extensionality_dep)",
]
# what T1 does not translate: constructors, declared inverses, unit declarations and the wrap setting of the models
PINS = ["gwcs/geometry.py::ToDirectionCosines.__init__",
        "gwcs/geometry.py::ToDirectionCosines.inverse",
        "gwcs/geometry.py::FromDirectionCosines.__init__",
        "gwcs/geometry.py::FromDirectionCosines.inverse",
        "gwcs/geometry.py::SphericalToCartesian.__init__",
        "gwcs/geometry.py::SphericalToCartesian.wrap_lon_at",
        "gwcs/geometry.py::SphericalToCartesian.inverse",
        "gwcs/geometry.py::SphericalToCartesian.input_units",
        "gwcs/geometry.py::CartesianToSpherical.__init__",
        "gwcs/geometry.py::CartesianToSpherical.wrap_lon_at",
        "gwcs/geometry.py::CartesianToSpherical.inverse",
        "gwcs/spectroscopy.py::WavelengthFromGratingEquation.__init__",
        "gwcs/spectroscopy.py::WavelengthFromGratingEquation.return_units",
        "gwcs/spectroscopy.py::AnglesFromGratingEquation3D.__init__",
        "gwcs/spectroscopy.py::AnglesFromGratingEquation3D.input_units",
        "gwcs/spectroscopy.py::Snell3D.__init__",
        "gwcs/spectroscopy.py::SellmeierGlass.__init__",
        "gwcs/spectroscopy.py::SellmeierGlass.input_units",
        "gwcs/spectroscopy.py::SellmeierZemax.__init__"]
THEOREMS = ["C19_s2c_unit", "C19_dircos_unit", "C19_from_to_dircos", "C19_grating_wavelength", "C19_grating_angles",
            "C19_snell", "C19_sellmeier_glass", "C19_zemax_is_published_formula", "C19_c2s_lat_range",
            "C19_c2s_lon_range_360", "C19_c2s_lon_range_180", "C19_c2s_pole_lon0"]


def models_under_test():
    from gwcs import geometry as g, spectroscopy as sp
    B = [0.58339748, 0.46085267, 3.8915394]
    C = [0.00252643, 0.010078333, 1200.556]
    return {
        "ToDirectionCosines": (g.ToDirectionCosines(), {}),
        "FromDirectionCosines": (g.FromDirectionCosines(), {}),
        "SphericalToCartesian": (g.SphericalToCartesian(), {}),
        "CartesianToSpherical_360": (g.CartesianToSpherical(wrap_lon_at=360), {}),
        "CartesianToSpherical_180": (g.CartesianToSpherical(wrap_lon_at=180), {}),
        "WavelengthFromGratingEquation": (sp.WavelengthFromGratingEquation(20000, -1),
                                          {"groove_density": [20000.0], "spectral_order": [-1.0]}),
        "AnglesFromGratingEquation3D": (sp.AnglesFromGratingEquation3D(20000, 1), {"groove_density": [20000.0], "spectral_order": [1.0]}),
        "Snell3D": (sp.Snell3D(), {}),
        "SellmeierGlass": (sp.SellmeierGlass(B, C), {"B_coef": B, "C_coef": C}),
        "SellmeierZemax": (sp.SellmeierZemax(65, 35, 0.9, 1.1, B, C, [-2.66e-05, 1e-9, 0.0], [1e-7, 1e-9, 0.2]),
                           {"temp": [65.0], "ref_temp": [35.0], "ref_pressure": [0.9], "pressure": [1.1], "B_coef": B, "C_coef": C,
                            "D_coef": [-2.66e-05, 1e-9, 0.0], "E_coef": [1e-7, 1e-9, 0.2]}),
    }


def rand_inputs(rng, name, n):
    if name.startswith("CartesianToSpherical") or name == "ToDirectionCosines":
        arrs = [np.array([rng.uniform(-2, 2) for _ in range(n)]) for _ in range(3)]
        if name.startswith("CartesianToSpherical"):
            # special directions inside a batch: exact poles (x = y = 0, either sign of zero), points on the axes / wrap boundary
            for i in range(n):
                r = rng.random()
                if r < 0.15:
                    arrs[0][i], arrs[1][i] = rng.choice([0.0, -0.0]), rng.choice([0.0, -0.0])
                elif r < 0.22:
                    arrs[1][i] = rng.choice([0.0, -0.0])          # on the lon = 0 / 180 meridian
                elif r < 0.27:
                    arrs[0][i] = 0.0                                # lon = +-90
        return arrs
    if name == "FromDirectionCosines":
        return [np.array([rng.uniform(-1, 1) for _ in range(n)]) for _ in range(4)]
    if name == "SphericalToCartesian":
        return [np.array([rng.uniform(-400, 400) for _ in range(n)]), np.array([rng.uniform(-90, 90) for _ in range(n)])]
    if name == "WavelengthFromGratingEquation":
        return [np.array([rng.uniform(-0.5, 0.5) for _ in range(n)]) for _ in range(2)]
    if name == "AnglesFromGratingEquation3D":
        return [np.array([rng.uniform(1e-6, 5e-6) for _ in range(n)]), np.array([rng.uniform(-0.3, 0.3) for _ in range(n)]),
                np.array([rng.uniform(-0.3, 0.3) for _ in range(n)])]
    if name == "Snell3D":
        return [np.array([rng.uniform(1.2, 1.8) for _ in range(n)])] + [np.array([rng.uniform(-0.4, 0.4) for _ in range(n)]) for _ in range(3)]
    return [np.array([rng.uniform(0.6, 5.0) for _ in range(n)])]


def run(ctx):
    from py2coq import gen_models as G, t1
    from lib.common import REPO
    ctx.trusted += ["tools/py2coq/t1.py (fail-closed arithmetic translator) and coq/theories/C19/RMath.v",
                    "tools/checks/C19.py numeric oracle"]
    ctx.gate()
    from lib import pins as _pins
    _pins.check(ctx, PINS)
    ctx.coq_theorems("C19/RMath", ["fmod_range", "atan2_range", "atan2_nonneg_x"])
    try:
        src, closures, info = G.gen(REPO)
        ctx.oblige("translate: evaluate bodies of geometry.py / spectroscopy.py within the T1 subset", True)
    except (t1.Unsupported, SyntaxError, StopIteration) as e:
        src, closures = None, {}
        ctx.oblige("translate: evaluate bodies of geometry.py / spectroscopy.py within the T1 subset", False, str(e))
    if src is not None:
        res = ctx.dyn_build("WC19", {"Gen_models": src}, ["C19"], ["Gen_models", "ModelProofs"])
        ctx.oblige("regenerated Gen_models.v type-checks", res.get("Gen_models", (False, ""))[0], res.get("Gen_models", (False, ""))[1][-600:])
        ctx.dyn_theorems("WC19", "ModelProofs", res, THEOREMS)
    rng = ctx.rng
    problems = []
    M = models_under_test()
    # ---- (a) translator self-check: closure == evaluate, bit for bit --------------------------
    mism = []
    for name, (m, P) in M.items():
        if name not in closures:
            continue
        inputs, outs = closures[name]
        fn = eval("lambda " + ", ".join(inputs) + ", P: (" + ", ".join(outs) + ",)", {"np": np})
        for rep in range(6 if ctx.quick else 60):
            args = rand_inputs(rng, name, 1)
            args = [a.copy() for a in args]
            with np.errstate(all="ignore"):
                got = m(*[a.copy() for a in args])
                got = got if isinstance(got, tuple) else (got,)
                exp = fn(*[a.copy() for a in args], P)
            ok = all(np.array_equal(np.asarray(g, dtype=float).ravel(), np.asarray(e, dtype=float).ravel(), equal_nan=True)
                     for g, e in zip(got, exp))
            ctx.case(key=("closure", name, tuple(float(a[0]) for a in args)), nontrivial=True, kind="closure/" + name,
                     sample={"model": name, "inputs": [float(a[0]) for a in args]})
            if not ok:
                mism.append((name, [float(a[0]) for a in args], [np.asarray(g).tolist() for g in got], [np.asarray(e).tolist() for e in exp]))
    ctx.oblige("translator self-check: numpy closure emitted by T1 reproduces evaluate bit for bit", not mism,
               str(mism[:2]))
    # ---- (b) float identities -------------------------------------------------------------------
    import astropy.units as u
    from gwcs import geometry as g, spectroscopy as sp
    tol = 1e-12

    def prob(what, rep, key=None):
        problems.append((what, rep, key))
    lons = [0.0, 360.0, -180.0, 180.0, 359.9999999, 720.5, -725.25, 45.0, 90.0, 270.0] + [rng.uniform(-800, 800) for _ in range(20)]
    lats = [0.0, 90.0, -90.0, 89.999999, -89.999999, 30.0] + [rng.uniform(-90, 90) for _ in range(20)]
    for wrap in (360, 180):
        s2c = g.SphericalToCartesian(wrap_lon_at=wrap)
        c2s = g.CartesianToSpherical(wrap_lon_at=wrap)
        for lon in lons:
            for lat in (lats if not ctx.quick else lats[:10]):
                x, y, z = s2c(lon, lat)
                ctx.case(key=("s2c", wrap, lon, lat), nontrivial=abs(lat) > 89.9 or lon in (0.0, 360.0, 180.0, -180.0) or abs(lon) > 360,
                         kind=f"s2c/{wrap}", sample={"lon": lon, "lat": lat, "wrap": wrap})
                if abs(x * x + y * y + z * z - 1) > tol:
                    prob(f"SphericalToCartesian({lon},{lat}) is not on the unit sphere", {"lon": lon, "lat": lat})
                lo2, la2 = c2s(x, y, z)
                lo2, la2 = float(lo2), float(la2)
                okr = (0 <= lo2 < 360) if wrap == 360 else (-180 <= lo2 <= 180)
                if not okr or not (-90 <= la2 <= 90):
                    prob(f"CartesianToSpherical(wrap={wrap}) returns lon={lo2}, lat={la2} out of range for lon={lon}, lat={lat}",
                         {"lon": lon, "lat": lat, "wrap": wrap},
                         "C19/lon-360" if (wrap == 360 and lo2 == 360.0 and -90 <= la2 <= 90 and -1e-12 < float(y) < 0) else None)
                if abs(lat) < 89.99:
                    dl = (lo2 - lon) % 360
                    if min(dl, 360 - dl) > 1e-7 or abs(la2 - lat) > 1e-9:
                        prob(f"c2s(s2c({lon},{lat})) = ({lo2},{la2}) (wrap {wrap})", {"lon": lon, "lat": lat, "wrap": wrap})
                # quantity == plain
                xq, yq, zq = s2c(lon * u.deg, lat * u.deg)
                if not (float(xq.value) == float(x) and float(yq.value) == float(y) and float(zq.value) == float(z)):
                    prob("SphericalToCartesian gives different numbers for Quantity and plain inputs", {"lon": lon, "lat": lat})
                # the same angles in other (and mixed) angular units
                for ul, ub in ((u.rad, u.rad), (u.hourangle, u.deg), (u.deg, u.rad), (u.arcmin, u.arcsec)):
                    xm, ym, zm = s2c((lon * u.deg).to(ul), (lat * u.deg).to(ub))
                    if max(abs(float(xm.value) - float(x)), abs(float(ym.value) - float(y)), abs(float(zm.value) - float(z))) > 1e-11:
                        prob(f"SphericalToCartesian gives different numbers for lon in {ul}, lat in {ub} than for the same angles in degrees",
                             {"lon": lon, "lat": lat, "lon_unit": str(ul), "lat_unit": str(ub)})
        # poles and degenerate vectors
        for vec in ((0.0, 0.0, 1.0), (0.0, 0.0, -1.0), (0.0, 0.0, 0.0), (1.0, 0.0, 0.0), (0.0, 1.0, 0.0), (-1.0, 0.0, 0.0), (0.0, -1.0, 0.0),
                    (-0.0, 0.0, 1.0), (-0.0, -0.0, -1.0), (0.0, -0.0, 1.0), (-0.0, -0.0, 0.0)):      # signed zeros
            lo, la = c2s(*vec)
            ctx.case(key=("pole", wrap, vec), nontrivial=True, kind="c2s/axis", sample={"vector": vec, "wrap": wrap})
            if vec[0] == 0 and vec[1] == 0 and float(lo) != 0.0:
                prob(f"pole {vec} maps to longitude {float(lo)} (wrap {wrap})", {"vector": vec, "wrap": wrap})
            okr = (0 <= float(lo) < 360) if wrap == 360 else (-180 <= float(lo) <= 180)
            if not okr:
                prob(f"CartesianToSpherical{vec} longitude {float(lo)} out of range (wrap {wrap})", {"vector": vec})
    # the declared inverse follows the wrap setting as configured NOW: every history of reading `.inverse` and assigning
    # `wrap_lon_at` must end with the inverse a fresh model of the final setting declares
    for cls, other in ((g.SphericalToCartesian, g.CartesianToSpherical), (g.CartesianToSpherical, g.SphericalToCartesian)):
        for hist in ((360, "inv", 180), (180, "inv", 360), (360, 180, "inv", 360, "inv"), (180, "inv", "inv", 360, 180), (360, "inv", 360)):
            m = cls(wrap_lon_at=hist[0])
            try:
                for h in hist[1:]:
                    if h == "inv":
                        inv = m.inverse
                        inv(10.0, 20.0) if inv.n_inputs == 2 else inv(0.5, -0.5, 0.1)
                    else:
                        m.wrap_lon_at = h
                final = [h for h in hist if h != "inv"][-1]
                inv, fresh = m.inverse, cls(wrap_lon_at=final).inverse
                ctx.case(key=("wrap-history", cls.__name__, hist), nontrivial=True, kind="inverse-after-wrap-history",
                         sample={"model": cls.__name__, "history": list(hist)})
                if type(inv) is not other or inv.wrap_lon_at != final or m.wrap_lon_at != final:
                    prob(f"{cls.__name__}: after the history {list(hist)} (inverse reads / wrap_lon_at assignments) the declared inverse is "
                         f"{type(inv).__name__}(wrap_lon_at={getattr(inv, 'wrap_lon_at', None)}), the model says wrap_lon_at={m.wrap_lon_at}; "
                         f"configured: {final}", {"model": cls.__name__, "history": list(hist)})
                    continue
                for lon in (200.0, 270.0, 359.0, -160.0, -1.0, 10.0):
                    lat = 12.5
                    if cls is g.SphericalToCartesian:
                        got = tuple(float(v) for v in inv(*m(lon, lat)))
                        exp = tuple(float(v) for v in fresh(*cls(wrap_lon_at=final)(lon, lat)))
                        okr = (0 <= got[0] < 360) if final == 360 else (-180 <= got[0] <= 180)
                    else:
                        vec = g.SphericalToCartesian()(lon, lat)
                        got = tuple(float(v) for v in m(*vec))
                        exp = tuple(float(v) for v in cls(wrap_lon_at=final)(*vec))
                        okr = (0 <= got[0] < 360) if final == 360 else (-180 <= got[0] <= 180)
                    if got != exp or not okr:
                        prob(f"{cls.__name__}: after the history {list(hist)} longitude {lon} comes back as {got[0]} "
                             f"(a fresh model configured with wrap_lon_at={final} gives {exp[0]})",
                             {"model": cls.__name__, "history": list(hist), "lon": lon, "lat": lat})
                        break
            except Exception as e:  # noqa
                prob(f"{cls.__name__}: history {list(hist)} raised {type(e).__name__}: {e}", {"model": cls.__name__, "history": list(hist)})
    # the one-ulp edge: a tiny negative angle
    lo, la = g.CartesianToSpherical()(1.0, -1e-300, 0.0)
    ctx.case(key="lon360", nontrivial=True, kind="c2s/tiny-negative", sample={"vector": [1.0, -1e-300, 0.0]})
    if not (0 <= float(lo) < 360):
        prob(f"CartesianToSpherical()(1, -1e-300, 0) returns longitude {float(lo)}, not in [0, 360)",
             {"vector": [1.0, -1e-300, 0.0], "how": "gwcs.geometry.CartesianToSpherical()(1., -1e-300, 0.)"}, "C19/lon-360")
    # direction cosines
    to, frm = g.ToDirectionCosines(), g.FromDirectionCosines()
    for _ in range(20 if ctx.quick else 300):
        x, y = rng.uniform(-3, 3), rng.uniform(-3, 3)
        a, b, c, v = to(x, y, 1.0)
        ctx.case(key=("dircos", x, y), nontrivial=True, kind="dircos")
        if abs(a * a + b * b + c * c - 1) > tol:
            prob("direction cosines are not normalised", {"x": x, "y": y})
        x2, y2, z2 = frm(a, b, c, v)
        if max(abs(x2 - x), abs(y2 - y), abs(z2 - 1.0)) > 1e-12:
            prob(f"FromDirectionCosines(ToDirectionCosines({x},{y},1)) = ({x2},{y2},{z2})", {"x": x, "y": y})
        inv = to.inverse
        if type(inv).__name__ != "FromDirectionCosines" or type(frm.inverse).__name__ != "ToDirectionCosines":
            prob("declared inverses of the direction-cosine pair are wrong", {})
    # gratings, Snell
    for _ in range(20 if ctx.quick else 300):
        d, mo = rng.uniform(1e4, 3e4), rng.choice([-2, -1, 1, 2])
        lam, ain, bin_ = rng.uniform(1e-6, 4e-6), rng.uniform(-0.2, 0.2), rng.uniform(-0.2, 0.2)
        ao, bo, go = sp.AnglesFromGratingEquation3D(d, mo)(lam, np.array([ain]), np.array([bin_]))
        ctx.case(key=("grating", d, mo, lam, ain, bin_), nontrivial=True, kind="grating")
        if abs(float(ao[0]) - (ain - d * mo * lam)) > 1e-12 or float(bo[0]) != -bin_ or abs(float(ao[0]) ** 2 + float(bo[0]) ** 2 + float(go[0]) ** 2 - 1) > tol:
            prob("AnglesFromGratingEquation3D violates its equations", {"d": d, "m": mo, "lam": lam, "alpha_in": ain, "beta_in": bin_})
        w = sp.WavelengthFromGratingEquation(d, mo)(ain, float(ao[0]))
        if abs(float(w) * d * mo - (ain + float(ao[0]))) > 1e-12:
            prob("WavelengthFromGratingEquation violates lambda*d*m = alpha_in + alpha_out", {"d": d, "m": mo})
        n = rng.uniform(1.1, 1.9)
        a2, b2, g2 = sp.Snell3D()(n, ain, bin_, math.sqrt(1 - ain * ain - bin_ * bin_))
        if abs(n * float(a2) - ain) > 1e-14 or abs(n * float(b2) - bin_) > 1e-14 or abs(float(a2) ** 2 + float(b2) ** 2 + float(g2) ** 2 - 1) > tol:
            prob("Snell3D violates its equations", {"n": n})
    # Sellmeier: formulae for scalar and array wavelengths
    glass, P = M["SellmeierGlass"]
    zem, PZ = M["SellmeierZemax"]
    for lam in (np.array([0.7, 1.0, 2.0, 3.5]), np.array([[1.0, 2.0, 5.0], [0.6, 1.5, 3.0]]), np.array([[0.9], [1.1], [2.2]]),
                np.array([[[0.8, 1.3]], [[2.1, 4.0]]])):
      for name, mod in (("SellmeierGlass", glass), ("SellmeierZemax", zem)):
        try:
            arr = np.asarray(mod(lam), dtype=float)
        except Exception as e:  # noqa
            prob(f"{name}: wavelengths of shape {lam.shape} raise {type(e).__name__}", {"model": name, "wavelengths": lam.tolist()})
            continue
        sc = np.array([float(mod(float(x))) for x in lam.ravel()]).reshape(lam.shape)
        ctx.case(key=("sellmeier", name, lam.shape), nontrivial=True, kind="sellmeier/array", sample={"model": name, "wavelengths": lam.tolist()})
        if arr.shape != lam.shape or not np.allclose(arr, sc, rtol=1e-14, atol=0):
            prob(f"{name}: array wavelengths {lam.tolist()} give {arr.tolist()} but scalars give {sc.tolist()}",
                 {"model": name, "wavelengths": lam.tolist()}, "C19/zemax-first-element" if (name == "SellmeierZemax" and lam.ndim == 1 and np.allclose(arr, sc[0])) else None)
    # SellmeierZemax against the published formula, written out independently for scalars, over temperature / pressure configurations
    # (vacuum, equal and unequal pressures, equal and unequal temperatures)
    def zemax_formula(lam, T, Tref, Pref, Pobs, Bc, Cc, Dc, Ec):
        T, Tref = T - 273.15, Tref - 273.15
        dT = T - Tref
        nref = 1.0 + (6432.8 + 2949810.0 * lam ** 2 / (146.0 * lam ** 2 - 1.0) + 5540.0 * lam ** 2 / (41.0 * lam ** 2 - 1.0)) * 1e-8
        na_obs = 1.0 + (nref - 1.0) * Pobs / (1.0 + (T - 15.0) * 3.4785e-3)
        na_ref = 1.0 + (nref - 1.0) * Pref / (1.0 + (Tref - 15.0) * 3.4785e-3)
        lr = lam * na_obs / na_ref
        nrel = math.sqrt(1.0 + sum(b * lr * lr / (lr * lr - c) for b, c in zip(Bc, Cc)))
        dn = 0.5 * (nrel ** 2 - 1.0) / nrel * (Dc[0] * dT + Dc[1] * dT ** 2 + Dc[2] * dT ** 3 + (Ec[0] * dT + Ec[1] * dT ** 2) / (lr ** 2 - Ec[2] ** 2))
        return (nrel * na_ref + dn) / na_obs
    Bz, Cz = [0.58339748, 0.46085267, 3.8915394], [0.00252643, 0.010078333, 1200.556]
    Dz, Ez = [-2.66e-05, 1e-9, 0.0], [1e-7, 1e-9, 0.2]
    for (T_, Tr_, Pr_, Po_) in ((65.0, 35.0, 0.9, 1.1), (65.0, 35.0, 1.0, 1.0), (310.0, 290.0, 0.8, 0.8), (300.0, 300.0, 1.0, 1.0), (40.0, 35.0, 0.0, 0.0),
                                (293.0, 288.0, 1.0, 0.0), (rng.uniform(30, 320), rng.uniform(30, 320), rng.uniform(0, 1.2), rng.uniform(0, 1.2))):
        mz = sp.SellmeierZemax(T_, Tr_, Pr_, Po_, Bz, Cz, Dz, Ez)
        for lam in (0.6, 1.0, 2.0, 3.5):
            want = zemax_formula(lam, T_, Tr_, Pr_, Po_, Bz, Cz, Dz, Ez)
            got = float(mz(lam))
            ctx.case(key=("zemax-cfg", T_, Tr_, Pr_, Po_, lam), nontrivial=True, kind="zemax/configuration",
                     sample={"temperature": T_, "ref_temperature": Tr_, "ref_pressure": Pr_, "pressure": Po_, "wavelength": lam})
            if abs(got - want) > 1e-13 * abs(want):
                prob(f"SellmeierZemax(T={T_}, Tref={Tr_}, Pref={Pr_}, P={Po_}) at {lam} um gives {got!r}, the published formula gives {want!r}",
                     {"temperature": T_, "ref_temperature": Tr_, "ref_pressure": Pr_, "pressure": Po_, "wavelength": lam})
                break
    B, C = P["B_coef"], P["C_coef"]
    for x in (0.7, 1.0, 2.0, 3.5):
        want = math.sqrt(1 + sum(b * x * x / (x * x - c) for b, c in zip(B, C)))
        if abs(float(glass(float(x))) - want) > 1e-14:
            prob("SellmeierGlass deviates from its formula", {"wavelength": float(x)})
    ctx.oblige("float identities hold on the implementation at every sampled input (tested)", not [p for p in problems if p[2] is None],
               problems[0][0] if problems else "")
    seen = set()
    for what, rep, key in problems:
        k = key or what[:40]
        if k in seen:
            continue
        seen.add(k)
        ctx.violation("C19 fails on the implementation: " + what, rep, key=key)
    ctx.extra["partial"] = "binary64 behaviour of the identities is sampled (tested); the theorems are over the reals"
