"""C02 — world->pixel undoes pixel->world wherever an exact inverse exists (partial: see DESIGN 5 C02).

Proof:  coq/dyn/C02/Backward.v over the regenerated forward_transform (Gen_pipeline.v): backward = step inverses
        in reverse order; round trips are the identity when leaf inverses are inverses (Section hypothesis about
        astropy leaves); backward.inverse = forward; user-supplied inverses are used as given.
Tie:    translator (forward_transform) + hand model of backward_transform, both run against the implementation on
        integer-exact pipelines incl. user-supplied (deliberately wrong) inverses, before and after in-place edits.
Tested (not proved): floating-point round trips of astropy's projections/rotations within conditioning.
"""
import numpy as np

from lib.common import gz, gzl, glist
from lib import pipes
from checks import C01

LEVEL = "proof"
PINS = ["gwcs/wcs.py::WCS.invert", "gwcs/wcs.py::WCS.backward_transform"]
RULE = ("integer-exact invertible pipelines (1..5 transforms, dim 1..4, permutations, user-supplied inverses, some "
        "non-invertible leaves): backward_transform, its .inverse, invert(), compared with the model; then a step is replaced in place "
        "and everything is compared again. Numeric family: affine/rotation chains and all zenithal projections at sampled pointings, "
        "round trip within 1e-7 px or 5e-10 deg (tested). non-trivial = backward transform exists; distinct = distinct (pipeline, point)")
ASSUMPTIONS = [
    "PARTIAL: that astropy's leaf .inverse is the mathematical inverse to floating-point conditioning (hypotheses inv_l/inv_r) "
    "is sampled numerically here, not proved",
    "astropy: (a|b).inverse = b.inverse | a.inverse; a user-assigned .inverse is returned as given",
]
THEOREMS = ["C02_backward_is_rev_inverses", "C02_roundtrip", "C02_user_inverse_honoured", "C02_nonvacuous"]
HEADER = ("From Coq Require Import ZArith List Bool. Import ListNotations. Open Scope Z_scope.\n"
          "From GW Require Import Base.Py.\nFrom WC01 Require Import Gen_pipeline Sem Proofs Backward.\n")


def numeric_family(ctx, problems):
    """sampled floating-point round trips (tested, not proved)"""
    from astropy.modeling import models
    from astropy import units as u
    from astropy import coordinates as coord
    from gwcs import wcs, coordinate_frames as cf
    rng = ctx.rng
    codes = ["TAN", "STG", "SIN", "ARC", "ZEA", "AZP", "SZP", "AIR"]
    n = 40 if ctx.quick else 600
    for t in range(n):
        code = codes[t % len(codes)]
        ra = rng.choice([0.0, 359.999, 180.0, rng.uniform(0, 360)])
        dec = rng.choice([0.0, 89.0, -89.0, rng.uniform(-80, 80)])
        ang = rng.uniform(0, 360)
        scale = 10 ** rng.uniform(-5, -3)
        parity = rng.choice([1, -1])
        proj = getattr(models, "Pix2Sky_" + code)()
        tr = (models.Shift(-rng.uniform(0, 500)) & models.Shift(-rng.uniform(0, 500)) |
              models.Rotation2D(ang) | models.Scale(parity * scale) & models.Scale(scale) | proj |
              models.RotateNative2Celestial(ra, dec, 180.0))
        det = cf.Frame2D(name="detector")
        sky = cf.CelestialFrame(reference_frame=coord.ICRS(), name="sky")
        w = wcs.WCS([(det, tr), (sky, None)])
        x, y = rng.uniform(0, 1000), rng.uniform(0, 1000)
        try:
            lon, lat = w(x, y)
            x2, y2 = w.invert(lon, lat)
            err = max(abs(x2 - x), abs(y2 - y))
            # world -> pixel -> world
            lon2, lat2 = w(x2, y2)
            werr = max(abs(((lon2 - lon + 180) % 360) - 180) * np.cos(np.deg2rad(lat)), abs(lat2 - lat)) / scale
        except Exception as e:  # noqa
            problems.append((f"numeric round trip raised {type(e).__name__}: {e}", dict(code=code, ra=ra, dec=dec)))
            continue
        ctx.case(key=("num", code, ra, dec, ang, scale, parity, x, y), nontrivial=True, kind="numeric/" + code,
                 sample={"projection": code, "pointing": [ra, dec], "pixel": [x, y], "roundtrip_err_px": err})
        # conditioning: wcslib's (partly iterative) projections are accurate to ~1e-10 deg in world units
        # ... and where the forward map itself cannot resolve the pixel difference (the re-evaluated world point agrees to 1e-12 deg:
        # SZP / AZP close to the pole), the pixel returned is a correct preimage even if it differs from the starting pixel by more
        world_ok = werr < 1e-7 or werr * scale < 5e-10
        pixel_ok = err < 1e-7 or err * scale < 5e-10 or (werr * scale < 1e-12 and err < 1e-3)
        if not (world_ok and pixel_ok):
            problems.append((f"pixel->world->pixel error {err:.3g} px / world error {werr:.3g} px ({code}, ra={ra}, dec={dec})",
                             dict(code=code, ra=ra, dec=dec, angle=ang, scale=scale, parity=parity, pixel=[x, y])))


def mixed_unitness(ctx, problems):
    """a forward transform that carries units with a user-supplied inverse that does not: world positions given as numbers,
    quantities (any convertible unit) or objects must all be inverted by that inverse"""
    import astropy.units as u
    from astropy.modeling import models
    from gwcs import wcs, coordinate_frames as cf
    rng = ctx.rng
    for _ in range(6 if ctx.quick else 60):
        a, b = rng.choice([0.5, 2.0, 4.0]), rng.choice([400.0, 500.0, 1000.0])        # nm / pix, nm
        det = cf.CoordinateFrame(1, ("PIXEL",), (0,), unit=(u.pix,), name="detector")
        spec = cf.SpectralFrame(axes_order=(0,), unit=(u.um,), name="wave")
        t = models.Multiply(a * u.nm / u.pix) | models.Shift(b * u.nm)
        t.inverse = models.Shift(-b / 1000.0) | models.Scale(1000.0 / a)               # um (frame unit) -> pixel, bare numbers
        w = wcs.WCS([(det, t), (spec, None)])
        x = float(rng.randint(0, 400)) / 4.0
        lam_um = (a * x + b) / 1000.0
        rec = dict(forward=f"Multiply({a} nm/pix) | Shift({b} nm)", inverse=f"Shift({-b / 1000.0}) | Scale({1000.0 / a})", pixel=x)
        for label, arg in (("number in frame units", lam_um), ("Quantity in nm", lam_um * 1000.0 * u.nm), ("Quantity in um", lam_um * u.um),
                           ("Quantity in Angstrom", lam_um * 1e4 * u.AA)):
            try:
                got = w.invert(arg)
                got = float(getattr(got, "value", got))
                unit = getattr(w.invert(arg), "unit", None)
            except Exception as e:  # noqa
                problems.append((f"[mixed unit-ness] invert({label}) raised {type(e).__name__} although the user-supplied inverse maps "
                                 f"{lam_um} um to pixel {x}", dict(rec, world=label)))
                continue
            if abs(got - x) > 1e-9 * max(1.0, abs(x)) or unit is not None:
                problems.append((f"[mixed unit-ness] invert({label}) = {got} {unit or ''} but the user-supplied inverse maps {lam_um} um to pixel {x}",
                                 dict(rec, world=label)))
        ctx.case(key=("mixed", a, b, x), nontrivial=True, kind="mixed-unitness", sample=rec)


def mixed_shapes(ctx, problems):
    """separable, analytically invertible WCSs: the world coordinates of one call have different (broadcastable) shapes per axis"""
    import astropy.units as u
    from astropy.modeling import models
    from astropy.time import Time
    from gwcs import wcs, coordinate_frames as cf
    rng = ctx.rng
    for k in range(8 if ctx.quick else 80):
        n = rng.choice([2, 3])
        sh, sc = [rng.uniform(-5, 5) for _ in range(n)], [rng.choice([0.5, 2.0, -1.5]) for _ in range(n)]
        t1, t2 = models.Shift(sh[0]), models.Scale(sc[0])
        for i in range(1, n):
            t1, t2 = t1 & models.Shift(sh[i]), t2 & models.Scale(sc[i])
        det = cf.CoordinateFrame(n, ("PIXEL",) * n, tuple(range(n)), unit=(u.pix,) * n, name="detector")
        subs = [cf.SpectralFrame(axes_order=(0,), unit=(u.um,), name="wave"),
                cf.TemporalFrame(Time("2020-01-01T00:00:00"), axes_order=(1,), unit=(u.s,), name="time")]
        if n == 3:
            subs.append(cf.CoordinateFrame(1, ("SPATIAL",), (2,), unit=(u.m,), name="gen", axes_names=("g",)))
        mid = cf.CoordinateFrame(n, ("SPATIAL",) * n, tuple(range(n)), unit=(u.one,) * n, name="mid")
        w = wcs.WCS([(det, t1), (mid, t2), (cf.CompositeFrame(subs, name="world"), None)])
        shapes = rng.choice([[(), (4,)], [(4,), ()], [(2, 1), (3,)], [(1,), (5,)], [(3, 1), (1, 4)]])
        shapes = list(shapes) + [()] * (n - 2)
        rng.shuffle(shapes)
        pix = [np.array(rng.uniform(0, 50)) if s_ == () else np.array([rng.uniform(0, 50) for _ in range(int(np.prod(s_)))]).reshape(s_)
               for s_ in shapes]
        rec = dict(shifts=sh, scales=sc, shapes=[list(s_) for s_ in shapes], pixel=[p.tolist() for p in pix])
        ctx.case(key=("shapes", str(rec)), nontrivial=True, kind=f"mixed-shapes/{n}", sample=rec)
        try:
            world = w(*pix)
            back = w.invert(*world)
        except Exception as e:  # noqa
            problems.append((f"[mixed shapes] invert of world coordinates with per-axis shapes {rec['shapes']} raised {type(e).__name__}: "
                             f"{str(e)[:100]} (analytic, separable inverse)", rec))
            continue
        want = np.broadcast_arrays(*pix)
        for i in range(n):
            b = np.asarray(back[i], dtype=float)
            if not (np.allclose(np.broadcast_to(b, want[i].shape), want[i], rtol=0, atol=1e-9)):
                problems.append((f"[mixed shapes] invert(forward(pixel)) axis {i} = {b.tolist()} for pixel {rec['pixel']}", rec))
                break


def run(ctx):
    from lib import pins
    from py2coq import gen_pipeline as G, t2
    from lib.common import REPO
    from gwcs import wcs
    ctx.trusted += ["tools/py2coq translator; hand model m_backward_transform (Backward.v)", "tools/checks/C02.py generators and oracle"]
    ctx.gate()
    pins.check(ctx, PINS)
    try:
        gen_src = G.gen(REPO)
        ctx.oblige("translate: gwcs/wcs.py pipeline methods within the py2coq subset", True)
    except (t2.Unsupported, SyntaxError, AssertionError) as e:
        gen_src = None
        ctx.oblige("translate: gwcs/wcs.py pipeline methods within the py2coq subset", False, str(e))
    if gen_src is not None:
        res = ctx.dyn_build("WC01", {"Gen_pipeline": gen_src}, ["C01", "C02"], ["Gen_pipeline", "Sem", "Proofs", "Backward"])
        ctx.dyn_theorems("WC01", "Backward", res, THEOREMS)
    rng = ctx.rng
    problems, terms, meta = [], [], []
    npipes = 150 if ctx.quick else 2500
    for pi in range(npipes):
        n = rng.randint(1, 4)
        k = rng.randint(2, 6)
        leaves = []
        for i in range(k - 1):
            lf = pipes.random_leaf(rng, i, n, p_noinv=0.06)
            r = rng.random()
            if lf.invertible and r < 0.12:
                lf.custom = pipes.random_leaf(rng, -1, n, p_noinv=0.0)    # user-supplied inverse, deliberately not the true one
                lf.custom_true = False
            elif lf.invertible and r < 0.3:
                # the true inverse, supplied by the user as a model that has no inverse of its own
                inv = [lf.perm.index(j) for j in range(n)]
                lf.custom = pipes.Leaf(-1, inv, [lf.signs[k] for k in inv], [-lf.signs[k] * lf.offs[k] for k in inv],
                                       invertible=False)
                lf.custom_true = True
            leaves.append(lf)
        as_obj = [rng.random() < 0.5 for _ in range(k)]
        w, frames = C01.build(n, leaves, as_obj)
        pt = [rng.randint(-20, 20) for _ in range(n)]
        for phase in ("fresh", "after-edit"):
            if phase == "after-edit":
                # use the backward transform once, then replace a step in place and ask again
                i = rng.randrange(k - 1)
                new = pipes.random_leaf(rng, i, n, p_noinv=0.0)
                leaves = list(leaves)
                leaves[i] = new
                if rng.random() < 0.5:
                    w.pipeline[i].transform = new.model()
                else:
                    w.set_transform(frames[i], frames[i + 1], new.model())
            cw, ctab = C01.coq_wcs(n, leaves, as_obj)
            exp = C01.expected_of(lambda: w.backward_transform)
            ints = None
            allinv = all(l.invertible for l in leaves)
            if exp[0] == "val":
                b = exp[1]
                ints = pipes.to_ints(b(*pt))
                if ints is None:
                    problems.append(("backward transform of an integer-exact pipeline gave non-integers", dict(point=pt)))
                    continue
                # oracle: step inverses in reverse order, honouring user-supplied ones
                x = list(pt)
                for lf in reversed(leaves):
                    inv = lf.custom.model() if lf.custom is not None else lf.model().inverse
                    x = list(np.atleast_1d(inv(*x)))
                if [int(v) for v in x] != ints:
                    problems.append((f"[{phase}] backward_transform({pt}) = {ints} but reversed step inverses give {x}",
                                     dict(dim=n, leaves=[(l.perm, l.signs, l.offs, bool(l.custom)) for l in leaves], point=pt)))
                # its inverse is the forward transform (when every supplied inverse really is an inverse)
                try:
                    if any(l.custom is not None and not getattr(l, "custom_true", False) for l in leaves):
                        raise StopIteration
                    f1 = pipes.to_ints(b.inverse(*pt))
                    f2 = pipes.to_ints(w.forward_transform(*pt))
                    if f1 != f2:
                        problems.append((f"[{phase}] backward_transform.inverse differs from forward_transform at {pt}", dict(point=pt)))
                except StopIteration:
                    pass
                except Exception as e:  # noqa
                    problems.append((f"[{phase}] backward_transform.inverse raised {type(e).__name__}", dict(point=pt)))
                # invert() takes the analytic path
                inv_ints = pipes.to_ints(w.invert(*pt))
                if inv_ints != ints:
                    problems.append((f"[{phase}] invert({pt}) = {inv_ints} differs from backward_transform {ints}", dict(point=pt)))
                # ... also when keyword arguments meant for the iterative solver are passed along (they are documented as ignored then)
                kw = rng.choice([dict(quiet=True), dict(tolerance=1e-7), dict(maxiter=30, adaptive=False), dict(detect_divergence=True, quiet=False)])
                try:
                    inv_kw = pipes.to_ints(w.invert(*pt, **kw))
                except Exception as e:  # noqa
                    inv_kw = f"raised {type(e).__name__}"
                if inv_kw != ints:
                    problems.append((f"[{phase}] invert({pt}, **{kw}) = {inv_kw} although the exact backward transform gives {ints} "
                                     f"(dim {n}, user inverse: {any(l.custom is not None for l in leaves)})", dict(point=pt, kwargs=str(kw), dim=n)))
                # round trip where every leaf inverse is a true inverse
                if all(l.custom is None or getattr(l, 'custom_true', False) for l in leaves):
                    world = pipes.to_ints(w(*pt))
                    back = pipes.to_ints(w.invert(*world))
                    if back != pt:
                        problems.append((f"[{phase}] pixel {pt} -> world {world} -> pixel {back}", dict(point=pt)))
            elif allinv:
                problems.append((f"[{phase}] backward_transform raised {exp[1]} although every step has an inverse", dict(dim=n)))
            ctx.case(key=(cw, phase, tuple(pt)), nontrivial=(exp[0] == "val"), kind=phase + "/" + exp[0],
                     sample={"dim": n, "steps": k, "phase": phase, "point": pt, "backward": ints if ints else exp[0]})
            terms.append(f"({cw}, {ctab}, {gzl(pt)}, {C01.coq_expected(exp, ints)})")
            meta.append((phase, n, k, pt))
    numeric_family(ctx, problems)
    mixed_unitness(ctx, problems)
    mixed_shapes(ctx, problems)
    checker = "(fun c => match c with (w, tab, x, e) => agrees tab (m_backward_transform w) x e end)"
    failing = ctx.coq_failing("cases", HEADER, terms, checker, label="WC01") if gen_src is not None else None
    ctx.oblige("correspondence: model backward transform (vm_compute) = implementation, fresh and after in-place edits",
               failing == [], "" if failing == [] else f"failing: {[meta[i] for i in (failing or [])[:5]]}")
    for what, rep in problems[:6]:
        ctx.violation("C02 fails on the implementation: " + what, rep)
    if failing and not problems:
        ctx.violation("model and implementation backward transforms disagree; oracle found no violated clause",
                      {"correspondence": "C02", "first": [str(meta[i]) for i in failing[:3]]}, found_input=False)
    ctx.extra["partial"] = "floating-point round trips of astropy leaves are sampled (tested), not proved"
