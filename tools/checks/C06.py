"""C06 — every conversion is a pointwise map: shape-preserving and batch-independent.

Proof:  coq/theories/C06/IR.v — array IR of `evaluate` bodies; theorem elementwise_is_pointwise (an expression without an
        element-0 indexing evaluates on a batch as the map of its scalar evaluation), split_concat_commutes; the IR of every
        model in geometry.py / spectroscopy.py is REGENERATED each run by tools/py2coq/t1 and Coq computes
        `forallb elementwise ir_<Model> = true` for each (the theorem's premise), so the theorem applies to each model.
        Masked evaluation is pointwise by C03.batch_pointwise; pipelines compose pointwise maps.
Tie:    translator (+ its self-check in C19) and a batch-vs-element oracle on the implementation: every entry point and
        every package model, input shapes 0-d / (1,) / (n,) / (n,m) / (2,1,3), permutations and partitions of the batch.
"""
import itertools

import numpy as np

from lib import families

LEVEL = "proof"
RULE = ("targets: package models (direction cosines, spherical/cartesian x2 wraps, gratings, Snell, Sellmeier x2, LabelMapperArray/"
        "Dict/Range, LabelMapper, RegionsSelector) and WCS entry points (forward, invert analytic+iterative, in_image, 4 values "
        "methods) over the WCS families; shapes (), (1,), (5,), (2,3), (2,1,3); a random permutation and a 2-way partition per batch; "
        "batches containing NaN for the iterative inverse. non-trivial = n-d or permuted/partitioned batch; distinct = (target, shape)")
ASSUMPTIONS = [
    "astropy evaluates `|` / `&` compounds by applying the leaves to whole arrays (composition of pointwise maps is pointwise)",
    "iterative inverse: only shape preservation and agreement with element-wise evaluation within the solver tolerance are claimed",
]
SHAPES = [(), (1,), (5,), (2, 3), (2, 1, 3)]


def model_targets(rng):
    """(name, callable taking k arrays, k, point generator, exact?)"""
    from astropy.modeling import models
    from gwcs import geometry as g, spectroscopy as sp, selector
    from checks.C19 import models_under_test, rand_inputs
    T = []
    for name, (m, _) in models_under_test().items():
        k = m.n_inputs
        T.append((name, m, k, (lambda n, name=name: rand_inputs(rng, name, n)), True))
    mask = np.zeros((10, 12), dtype=int)
    mask[2:5, 1:6] = 1
    mask[6:9, 3:11] = 2
    mask[0, 0] = 3
    lma = selector.LabelMapperArray(mask)
    T.append(("LabelMapperArray", lma, 2, lambda n: [np.array([rng.uniform(-0.4, 11.4) for _ in range(n)]),
                                                      np.array([rng.uniform(-0.4, 9.4) for _ in range(n)])], True))
    lmd = selector.LabelMapperDict(("x", "y"), {1.0: models.Const2D(10), 2.5: models.Const2D(20), 7.0: models.Const2D(30)},
                                   inputs_mapping=models.Mapping((0,), n_inputs=2), atol=1e-6)
    T.append(("LabelMapperDict", lmd, 2, lambda n: [np.array([rng.choice([1.0, 2.5, 7.0, 3.3, 1.0000001]) for _ in range(n)]),
                                                     np.array([rng.uniform(0, 5) for _ in range(n)])], True))
    lmr = selector.LabelMapperRange(("x", "y"), {(0.0, 2.0): models.Const2D(1), (2.0, 5.0): models.Const2D(2), (6.0, 9.0): models.Const2D(3)},
                                    inputs_mapping=models.Mapping((0,), n_inputs=2))
    T.append(("LabelMapperRange", lmr, 2, lambda n: [np.array([rng.choice([1.0, 2.0, 3.5, 5.5, 8.0, 9.0, 12.0, np.nan]) for _ in range(n)]),
                                                      np.array([rng.uniform(0, 5) for _ in range(n)])], True))
    lm = selector.LabelMapper(("x", "y"), models.Polynomial1D(1, c0=1, c1=2), inputs_mapping=(1,), no_label=np.nan)
    T.append(("LabelMapper", lm, 2, lambda n: [np.array([rng.uniform(0, 5) for _ in range(n)]), np.array([rng.uniform(0, 5) for _ in range(n)])], True))
    sel = {1: models.Shift(1) & models.Scale(2), 2: models.Scale(3) & models.Shift(-1)}
    rs = selector.RegionsSelector(("x", "y"), ("a", "b"), sel, lma, undefined_transform_value=np.nan)
    T.append(("RegionsSelector", rs, 2, lambda n: [np.array([rng.uniform(-0.4, 11.4) for _ in range(n)]),
                                                    np.array([rng.uniform(-0.4, 9.4) for _ in range(n)])], True))
    return T


def as_tuple(r):
    return tuple(r) if isinstance(r, (tuple, list)) else (r,)


def check_target(ctx, name, f, k, gen, tol, problems, shapes=SHAPES, nan_ok=True):
    rng = ctx.rng
    for shape in shapes:
        n = int(np.prod(shape)) if shape else 1
        flat = gen(n)
        args = [np.asarray(a, dtype=float).reshape(shape) if shape else float(np.asarray(a).ravel()[0]) for a in flat]
        try:
            with np.errstate(all="ignore"):
                out = as_tuple(f(*args))
        except Exception as e:  # noqa
            problems.append((f"{name}: raised {type(e).__name__}: {str(e)[:120]} for input shape {shape}", {"target": name, "shape": shape}, None))
            continue
        ctx.case(key=(name, shape, tuple(np.asarray(a, dtype=float).ravel()[:3].tolist() for a in flat)), nontrivial=len(shape) >= 2, kind=f"{name.split('/')[0]}", sample={"target": name, "shape": list(shape)})
        # shape preservation
        bad_shape = [np.shape(o) for o in out if np.shape(o) != tuple(shape)]
        if bad_shape:
            problems.append((f"{name}: input shape {shape} -> output shapes {[np.shape(o) for o in out]}", {"target": name, "shape": shape},
                             None))
            continue
        if not shape:
            continue
        # element by element
        outs = [np.asarray(o, dtype=float).ravel() for o in out]
        flat_args = [np.asarray(a, dtype=float).ravel() for a in args]
        for i in range(n):
            try:
                with np.errstate(all="ignore"):
                    one = as_tuple(f(*[float(a[i]) for a in flat_args]))
            except Exception as e:  # noqa
                one = None
                if not all(np.isnan(o[i]) for o in outs):
                    problems.append((f"{name}: element {i} alone raises {type(e).__name__} but the batch returns a value", {"target": name}, None))
                continue
            for o, s in zip(outs, one):
                s = float(np.asarray(s, dtype=float))
                if not ((np.isnan(o[i]) and np.isnan(s)) or abs(o[i] - s) <= tol * max(1.0, abs(s))):
                    problems.append((f"{name}: batch element {i} of shape {shape} is {o[i]} but evaluating it alone gives {s} "
                                     f"(inputs {[float(a[i]) for a in flat_args]})", {"target": name, "shape": shape,
                                                                                        "inputs": [a.tolist() for a in flat_args]}, None))
                    break
        # memory layout must not matter: Fortran-ordered copies of the same n-d inputs
        if len(shape) >= 2:
            try:
                with np.errstate(all="ignore"):
                    fout = as_tuple(f(*[np.asfortranarray(a) for a in args]))
                if not all(np.allclose(np.asarray(a, dtype=float), np.asarray(b, dtype=float), rtol=tol, atol=tol, equal_nan=True)
                           for a, b in zip(fout, out)):
                    problems.append((f"{name}: Fortran-ordered inputs of shape {shape} give a different result than C-ordered ones",
                                     {"target": name, "shape": shape}, None))
            except Exception as e:  # noqa
                problems.append((f"{name}: Fortran-ordered inputs raised {type(e).__name__}", {"target": name}, None))
        # permutation and partition
        if n >= 2:
            perm = list(range(n))
            rng.shuffle(perm)
            with np.errstate(all="ignore"):
                try:
                    pout = as_tuple(f(*[a[perm] for a in flat_args]))
                    cut = n // 2
                    o1 = as_tuple(f(*[a[:cut] for a in flat_args]))
                    o2 = as_tuple(f(*[a[cut:] for a in flat_args]))
                except Exception as e:  # noqa
                    problems.append((f"{name}: permuted / split batch raised {type(e).__name__}: {str(e)[:100]}", {"target": name}, None))
                    continue
            for o, po, a1, a2 in zip(outs, pout, o1, o2):
                po = np.asarray(po, dtype=float).ravel()
                cat = np.concatenate([np.asarray(a1, dtype=float).ravel(), np.asarray(a2, dtype=float).ravel()])
                if not np.allclose(po, o[perm], rtol=tol, atol=tol, equal_nan=True):
                    problems.append((f"{name}: permuting the batch does not permute the result", {"target": name, "perm": perm}, None))
                    break
                if not np.allclose(cat, o, rtol=tol, atol=tol, equal_nan=True):
                    problems.append((f"{name}: splitting the batch and concatenating the results differs from the whole batch",
                                     {"target": name}, None))
                    break


def rotated_probe(ctx):
    from astropy import coordinates as coord
    from astropy.modeling import models
    from gwcs import wcs, coordinate_frames as cf
    p = models.Polynomial2D(2, c0_0=0, c1_0=1, c0_1=0, c2_0=2.8774600354701104e-07, c1_1=6.437744352545901e-07)
    q = models.Polynomial2D(2, c0_0=0, c1_0=0, c0_1=1, c0_2=-9.003112380715611e-07, c1_1=4.1468910500613845e-07)
    tr = ((models.Mapping((0, 1, 0, 1)) | p & q) | models.Shift(-501.5620393327179) & models.Shift(-852.4932606173497) |
          models.Rotation2D(110.74492506939058) | models.Scale(2.3875505740946942e-05) & models.Scale(2.3875505740946942e-05) |
          models.Pix2Sky_TAN() | models.RotateNative2Celestial(166.60308052580567, 18.275148884667317, 180))
    w = wcs.WCS([(cf.Frame2D(name="detector"), tr), (cf.CelestialFrame(reference_frame=coord.ICRS(), name="sky"), None)])
    w.bounding_box = ((-0.5, 1023.5), (-0.5, 767.5))
    x, y = np.array([886.5041968117813, 545.2427318512015]), np.array([135.71318595872708, 58.37540583085726])
    ra, dec = w(x, y)
    with np.errstate(all="ignore"):
        both = w.numerical_inverse(ra, dec)
        alone = w.numerical_inverse(float(ra[1]), float(dec[1]))
    ctx.case(key="rotated-probe", nontrivial=True, kind="iterative/rotated", sample={"pixel": [float(x[1]), float(y[1])], "rotation_deg": 110.74})
    if np.isfinite(both[0][1]) != np.isfinite(alone[0]):
        return [(f"iterative inverse of a WCS rotated by 110.7 deg: pixel (545.24, 58.38) inverts to {float(both[0][1]):.4f},{float(both[1][1]):.4f} inside a "
                 f"2-point batch but to {alone} alone (adaptive iteration diverges for the single point)",
                 {"how": "checks/C06.py::rotated_probe", "pixel": [545.2427318512015, 58.37540583085726]}, "C06/iterative-rotated-batch-dependent")]
    return []


def run(ctx):
    from py2coq import gen_models as G, t1
    from lib.common import REPO
    ctx.trusted += ["tools/py2coq/t1.py translator (self-checked bit-exactly in C19)", "tools/checks/C06.py batch-vs-element oracle"]
    ctx.gate()
    ctx.coq_theorems("C06/IR", ["elementwise_is_pointwise", "split_concat_commutes", "eval_arr_length", "index0_refuted"])
    ctx.coq_theorems("C03/BBox", ["batch_pointwise"])
    try:
        src, closures, info = G.gen(REPO)
        ctx.oblige("translate: evaluate bodies of geometry.py / spectroscopy.py within the T1 subset", True)
    except (t1.Unsupported, SyntaxError, StopIteration) as e:
        src, info = None, []
        ctx.oblige("translate: evaluate bodies of geometry.py / spectroscopy.py within the T1 subset", False, str(e))
    not_elementwise = []
    if src is not None:
        res = ctx.dyn_build("WC19", {"Gen_models": src}, [], ["Gen_models"])
        ctx.oblige("regenerated Gen_models.v type-checks", res["Gen_models"][0], res["Gen_models"][1][-500:])
        for name, cls, tag, inputs, nout, pars in info:
            ob = ("From Coq Require Import List Bool. Import ListNotations.\nFrom GW Require Import C06.IR.\nFrom WC19 Require Import Gen_models.\n"
                  f"Theorem C06_elementwise_{name} : forallb elementwise ir_{name} = true.\nProof. vm_compute. reflexivity. Qed.\n"
                  f"Print Assumptions C06_elementwise_{name}.\n")
            r = ctx.dyn_build("WC19", {"E_" + name: ob}, [], ["E_" + name])["E_" + name]
            ctx.oblige(f"C06_elementwise_{name}: the regenerated IR has no element-0 indexing (premise of elementwise_is_pointwise)", r[0],
                       r[1][-300:])
            if r[0]:
                ctx._parse_assumptions([f"C06_elementwise_{name}"], r[1])
            else:
                not_elementwise.append(name)
    # ---- batch-vs-element oracle -------------------------------------------------------------
    rng = ctx.rng
    problems = []
    for rep_ in range(1 if ctx.quick else 6):        # thorough: six independent draws of models, families and batches
        for name, m, k, gen, exact in model_targets(rng):
            check_target(ctx, "model/" + name, m, k, gen, 1e-13, problems)
        fams = families.all_families(rng)
        for fam in fams:
            if fam.name.startswith("cube3d_fixed"):
                continue
            w = fam.w

            def gen_pix(n, fam=fam):
                pts = [families.random_point(rng, fam) for _ in range(n)]
                return [np.array([p[i] for p in pts]) for i in range(fam.n_in)]
            fwd = w.pixel_to_world_values if fam.units else (lambda *a, w=w: w(*a))
            check_target(ctx, f"forward/{fam.name}", fwd, fam.n_in, gen_pix, 1e-12, problems)
            check_target(ctx, f"pixel_to_world_values/{fam.name}", w.pixel_to_world_values, fam.n_in, gen_pix, 1e-12, problems,
                         shapes=[(), (4,), (2, 2)])
            check_target(ctx, f"array_index_to_world_values/{fam.name}", w.array_index_to_world_values, fam.n_in, gen_pix, 1e-12, problems,
                         shapes=[(), (2, 2)])
            if not fam.analytic_inverse:
                continue

            def gen_world(n, fam=fam, w=w):
                cols = gen_pix(n)
                out = as_tuple(w.pixel_to_world_values(*cols))
                return [np.asarray(o, dtype=float) for o in out]
            inv = w.world_to_pixel_values
            check_target(ctx, f"world_to_pixel_values/{fam.name}", inv, fam.n_out, gen_world, 1e-9, problems, shapes=[(), (1,), (5,), (2, 3)])
            check_target(ctx, f"world_to_array_index_values/{fam.name}", w.world_to_array_index_values, fam.n_out, gen_world, 1e-9, problems,
                         shapes=[(), (2, 2)])
            if not fam.units and not isinstance(w.pipeline[0].frame, str):
                check_target(ctx, f"invert/{fam.name}", (lambda *a, w=w: w.invert(*a)), fam.n_out, gen_world, 1e-9, problems,
                             shapes=[(), (5,), (2, 1, 3)])
                check_target(ctx, f"in_image/{fam.name}", (lambda *a, w=w: w.in_image(*a)), fam.n_out, gen_world, 0, problems,
                             shapes=[(), (5,), (2, 3)])
        # iterative inverse, incl. a NaN in the batch
        f = families.imaging(rng, distortion=True, box=True)
        w = f.w

        calls = [0]

        def gen_world_it(n):
            pts = [families.random_point(rng, f) for _ in range(n)]
            calls[0] += 1
            for j, p in enumerate(pts):       # some points just inside an edge of the box (closer than the error of the solver's starting value);
                forced = (j == 0 and calls[0] % 2 == 0)                       # every second call has its first point there for certain
                if forced or rng.random() < 0.35:
                    k = (calls[0] // 2) % 2 if forced else rng.randrange(2)
                    lo, hi = f.box[k]
                    eps = [0.02, 0.05, 0.1, 0.2, 0.4][(calls[0] // 4) % 5] if forced else rng.uniform(0.02, 0.6)
                    p[k] = (hi - eps) if ((calls[0] // 8) % 2 == 0 if forced else rng.random() < 0.5) else (lo + eps)
            ra, dec = w(np.array([p[0] for p in pts]), np.array([p[1] for p in pts]))
            ra, dec = np.atleast_1d(ra).astype(float), np.atleast_1d(dec).astype(float)
            if n >= 3:
                ra[1] = np.nan
            return [ra, dec]
        check_target(ctx, "numerical_inverse/imaging_dist", (lambda *a: w.numerical_inverse(*a)), 2, gen_world_it, 3e-5, problems,
                     shapes=[(), (1,), (5,), (2, 3)])
        # every iteration mode (the default is plain + divergence detection), with a tight solver tolerance so that an element that stopped
        # early because of ANOTHER element of the batch (e.g. a NaN one) shows against its stand-alone solution
        for ad_, dd_ in ((True, True), (True, False), (False, True), (False, False)):
            check_target(ctx, f"numerical_inverse(adaptive={ad_},detect_divergence={dd_},tolerance=1e-9)/imaging_dist",
                         (lambda *a, ad_=ad_, dd_=dd_: w.numerical_inverse(*a, adaptive=ad_, detect_divergence=dd_, quiet=True, tolerance=1e-9)), 2,
                         gen_world_it, 1e-6, problems, shapes=[(), (5,), (2, 3)])
        check_target(ctx, "invert(iterative)/imaging_dist", (lambda *a: w.invert(*a)), 2, gen_world_it, 3e-5, problems, shapes=[(), (6,), (2, 2)])
        check_target(ctx, "in_image(iterative)/imaging_dist", (lambda *a: w.in_image(*a)), 2, gen_world_it, 0, problems, shapes=[(), (6,)])
    # a rotated (not sky-aligned) WCS: the adaptive iteration couples the points of a batch — known finding
    problems += rotated_probe(ctx)
    # broadcastable mix on the forward direction (known finding for separable transforms)
    fa = families.affine_nd(rng, 2)
    X = np.arange(6.0).reshape(3, 2)
    mix = as_tuple(fa.w(X, 1.0))
    ctx.case(key="broadcast-mix", nontrivial=True, kind="broadcast", sample={"x_shape": [3, 2], "y": 1.0})
    if any(np.shape(o) != (3, 2) for o in mix):
        problems.append((f"forward evaluation of a separable 2-D WCS with x of shape (3,2) and scalar y returns shapes {[np.shape(o) for o in mix]}, "
                         "not the broadcast shape", {"how": "w = WCS(Mapping|Scale&Scale|Shift&Shift); w(np.arange(6.).reshape(3,2), 1.0)"},
                         "C06/separable-broadcast-shape"))
    ctx.oblige("batch-vs-element oracle: shapes preserved, every element equals its stand-alone evaluation, permutation/partition commute",
               not [p for p in problems if p[2] is None], problems[0][0] if problems else "")
    seen = set()
    for what, rep, key in problems:
        kk = key or what.split(":")[0]
        if kk in seen:
            continue
        seen.add(kk)
        ctx.violation("C06 fails on the implementation: " + what, rep, key=key)
    if not_elementwise and not [p for p in problems if p[2] is None]:
        ctx.violation("IR of " + ", ".join(not_elementwise) + " is not elementwise; the oracle found no differing batch",
                      {"theorems": ["C06_elementwise_" + n for n in not_elementwise]}, found_input=False)
