"""C07 — any sequence of pipeline edits leaves the WCS equal to the edited reference.

Proof:  coq/dyn/C07/{Edits,PropertiesC07}.v over Gen_pipeline.v REGENERATED from gwcs/wcs.py each run
        (set_transform, insert_transform, insert_frame translated by tools/py2coq into a state-carrying
        monad: every raise returns the object state at that moment) + hand model of the bounding_box setter.
Tie:    translator + op-sequence correspondence: the same edit sequences (valid and invalid) are run on the
        implementation and on the regenerated Gallina code inside Coq; after EVERY op the status (error kind),
        frame list, registered frame objects, bounding box and exact integer evaluation are compared.
Search: reference-list oracle on the implementation (independent of the model).
"""
import numpy as np

from lib.common import gz, gzl, glist, gbool
from lib import pipes

LEVEL = "proof"
RULE = ("edit sequences of length 1..12 over a pool of frames/transforms from a start pipeline of 2..5 steps "
        "(about 70% valid ops; invalid: unknown frame, duplicate, non-adjacent, reversed order, both/neither new, bare-name new frame, "
        "wrong box arity); after every op: status, frames, objects, box, exact evaluation. non-trivial = sequence with >= 1 accepted "
        "and >= 1 rejected op; distinct = distinct op sequences")
ASSUMPTIONS = [
    "astropy `|` builds a new compound model without a bounding box; ModelBoundingBox.validate rejects a box of the wrong arity "
    "(Section variable `valid`); exercised by the correspondence",
    "transform objects are values: aliasing of a user-held model object with a pipeline step is not modelled",
]
THEOREMS = ["C07_set_transform_ok", "C07_insert_transform_before", "C07_insert_transform_after",
            "C07_insert_frame_new_input", "C07_insert_frame_new_output", "C07_set_transform_rejected",
            "C07_insert_transform_rejected", "C07_insert_frame_rejected", "C07_bbox_rejected_unchanged",
            "C07_bbox_wrong_shape_rejected", "C07_bbox_roundtrip", "C07_bbox_kept_by_later_edits",
            "C07_names_kept_by_transform_edits", "C07_nonvacuous"]
HEADER = ("From Coq Require Import ZArith List Bool. Import ListNotations. Open Scope Z_scope.\n"
          "From GW Require Import Base.Py.\nFrom WC01 Require Import Gen_pipeline Sem Proofs Edits.\n")


class Ref:
    """reference list for the oracle: [(name, leaf-list-or-None)], frame objects by name, box"""

    def __init__(self, names, chains, objs):
        self.names, self.chains, self.objs = list(names), list(chains), dict(objs)
        self.box = None

    def forward(self, pt):
        x = list(pt)
        for ch in self.chains[:-1]:
            for lf in ch:
                x = lf.apply(x)
        return x


def bbox_of(w):
    try:
        bb = w.bounding_box
    except Exception as e:  # noqa   a corrupted pipeline can make the getter itself fail: that is an observation, not a harness error
        return f"<bounding_box raised {type(e).__name__}>"
    if bb is None:
        return None
    n = w.forward_transform.n_inputs if len(w.pipeline) > 1 else 1
    t = bb.bounding_box(order="F")
    if n == 1:
        t = (t,)
    return [(int(a), int(b)) for a, b in t]


def run_sequence(ctx, rng, n, k0, nops):
    """returns (coq term, ok-flag list, oracle problems)"""
    from gwcs import wcs
    lid = [0]
    leaves_all = []

    def new_leaf(invertible=True):
        lf = pipes.random_leaf(rng, lid[0], n, p_noinv=0.0)
        lid[0] += 1
        leaves_all.append(lf)
        return lf

    as_obj = [rng.random() < 0.6 for _ in range(k0)]
    frames = {}
    names = [f"f{i}" for i in range(k0)]
    code = {nm: i for i, nm in enumerate(names)}
    pl = []
    init_leaves = []
    for i, nm in enumerate(names):
        fr = pipes.make_frame(n, nm, as_obj[i])
        frames[nm] = fr
        lf = new_leaf() if i < k0 - 1 else None
        init_leaves.append(lf)
        pl.append((fr, lf.model() if lf else None))
    w = wcs.WCS(pl)
    ref = Ref(names, [[lf] if lf else None for lf in init_leaves], {nm: frames[nm] for i, nm in enumerate(names) if as_obj[i]})
    steps0 = [f"mk_step {pipes.coq_fref(code[nm], as_obj[i])} {init_leaves[i].coq_model() if init_leaves[i] else 'None'}"
              for i, nm in enumerate(names)]
    attrs0 = glist([f"({gz(code[nm])}, {('Some ' + pipes.coq_fref(code[nm], True)) if as_obj[i] else 'None'})"
                    for i, nm in reversed(list(enumerate(names)))])
    cw = "(mk_wcs " + glist(steps0) + " " + attrs0 + ")"
    pt = [rng.randint(-20, 20) for _ in range(n)]
    next_new = [k0]
    problems, ops_terms, flags, desc = [], [], [], []

    lookalike, ident_of, keep = [0], {}, []

    def fref_arg(nm, force_name=None):
        """(python arg, coq term) for an existing frame, by object when available (random)"""
        if nm in ref.objs and (force_name is None):
            v = rng.random()
            if v < 0.4:
                return ref.objs[nm], pipes.coq_fref(code[nm], True)
            if v < 0.55:
                # a different frame object that merely carries the same name: frames are found by name, and the object registered
                # under that name must stay the pipeline's own
                alike = pipes.make_frame(n, nm, True)
                lookalike[0] += 1
                ident_of[id(alike)] = 900 + lookalike[0]
                keep.append(alike)
                return alike, pipes.coq_fref(code[nm], True, ident=900 + lookalike[0])
        return nm, pipes.coq_fref(code[nm], False)

    for _ in range(nops):
        r = rng.random()
        cur = list(ref.names)
        kind = None
        if r < 0.22:                       # set_transform
            lf = new_leaf()
            v = rng.random()
            if v < 0.7 and len(cur) >= 2:
                i = rng.randrange(len(cur) - 1)
                a, b = cur[i], cur[i + 1]
            elif v < 0.8 and len(cur) >= 2:  # reversed order
                i = rng.randrange(len(cur) - 1)
                a, b = cur[i + 1], cur[i]
            elif v < 0.9 and len(cur) >= 3:  # non adjacent
                i = rng.randrange(len(cur) - 2)
                a, b = cur[i], cur[i + 2]
            else:                            # unknown
                a, b = cur[0], "nosuch"
            pa, ca = fref_arg(a) if a in code else (a, "(FStr 999)")
            pb, cb = fref_arg(b) if b in code else (b, "(FStr 999)")
            call = lambda: w.set_transform(pa, pb, lf.model())
            cop = f"OSet {ca} {cb} {lf.coq_model()}"
            valid = a in cur and b in cur and cur.index(a) + 1 == cur.index(b)
            if valid:
                def apply_ref(i=cur.index(a)):
                    ref.chains[i] = [lf]
                    if i == 0:
                        ref.box = None
            kind = "set_transform"
        elif r < 0.44:                     # insert_transform
            lf = new_leaf()
            after = rng.random() < 0.5
            v = rng.random()
            a = rng.choice(cur) if v < 0.9 else "nosuch"
            pa, ca = fref_arg(a) if a in code else (a, "(FStr 999)")
            call = lambda: w.insert_transform(pa, lf.model(), after=after)
            cop = f"OInsT {ca} {lf.coq_model()} {gbool(after)}"
            valid = a in cur and ((after and cur.index(a) < len(cur) - 1) or ((not after) and cur.index(a) > 0))
            if valid:
                def apply_ref(i=cur.index(a) if a in cur else 0):
                    if after:
                        ref.chains[i] = [lf] + ref.chains[i]
                        j = i
                    else:
                        ref.chains[i - 1] = ref.chains[i - 1] + [lf]
                        j = i - 1
                    if j == 0:
                        ref.box = None
            kind = "insert_transform"
        elif r < 0.72:                     # insert_frame
            lf = new_leaf()
            v = rng.random()
            newname = f"f{next_new[0]}"
            newobj_is_obj = v < 0.85
            side_input = rng.random() < 0.5
            exist = rng.choice(cur)
            if v >= 0.93:                  # both exist
                other = rng.choice(cur)
                pa, ca = fref_arg(exist)
                pb, cb = fref_arg(other)
                valid = False
                newname = None
            elif v >= 0.85:                # new frame given as bare name -> ValueError
                code.setdefault(newname, next_new[0])
                pnew, cnew = newname, pipes.coq_fref(next_new[0], False)
                pe, ce = fref_arg(exist)
                pa, ca, pb, cb = (pnew, cnew, pe, ce) if side_input else (pe, ce, pnew, cnew)
                valid = False
                newname = None
            else:
                code[newname] = next_new[0]
                fr = pipes.make_frame(n, newname, True)
                pnew, cnew = fr, pipes.coq_fref(next_new[0], True)
                pe, ce = fref_arg(exist)
                pa, ca, pb, cb = (pnew, cnew, pe, ce) if side_input else (pe, ce, pnew, cnew)
                valid = True
                next_new[0] += 1
            call = lambda: w.insert_frame(pa, lf.model(), pb)
            cop = f"OInsF {ca} {lf.coq_model()} {cb}"
            if valid:
                def apply_ref(i=cur.index(exist), nm=newname, fr=fr, side_input=side_input):
                    if side_input:        # new frame in front of `exist`
                        ref.names.insert(i, nm)
                        ref.chains.insert(i, [lf])
                        if i == 0:
                            ref.box = None
                    else:                 # split step i
                        old = ref.chains[i]
                        ref.names.insert(i + 1, nm)
                        ref.chains[i] = [lf]
                        ref.chains.insert(i + 1, old)
                        if i == 0:
                            ref.box = None
                    ref.objs[nm] = fr
            kind = "insert_frame"
        else:                              # bounding box
            v = rng.random()
            if v < 0.15:
                val, valid_box = None, True
            elif v < 0.8:
                val, valid_box = [(rng.randint(-5, 0), rng.randint(1, 30)) for _ in range(n)], True
            else:
                m = n + rng.choice([-1, 1]) if n > 1 else n + 1
                val, valid_box = [(0, 5)] * m, False
            pyval = None if val is None else (tuple(val[0]) if len(val) == 1 else tuple(tuple(x) for x in val))
            call = lambda: setattr(w, "bounding_box", pyval)
            cop = "OBox " + ("None" if val is None else "(Some " + glist([f"({gz(a)}, {gz(b)})" for a, b in val]) + ")")
            valid = valid_box and len(cur) >= 2
            if valid:
                def apply_ref(val=val):
                    ref.box = val
            kind = "bounding_box"
        # ---- run on the implementation
        before = (w.available_frames, bbox_of(w), pipes.to_ints(w(*pt, with_bounding_box=False)))
        try:
            call()
            status = None
        except Exception as e:  # noqa
            status = pipes.errkind(e)
        after_obs = (w.available_frames, bbox_of(w))
        try:
            fwd = ("val", pipes.to_ints(w(*pt, with_bounding_box=False)))
        except Exception as e:  # noqa
            fwd = ("err", pipes.errkind(e))
        # ---- oracle: reference list
        if status is None:
            if not valid:
                # the property does not require rejection of everything we call invalid; keep reference in sync if possible
                problems.append((f"{kind}: an edit expected to be rejected was accepted", desc + [cop]))
            else:
                apply_ref()
        else:
            if valid:
                problems.append((f"{kind}: a valid edit was rejected with {status}", desc + [cop]))
            if (after_obs[0], after_obs[1], fwd[1] if fwd[0] == "val" else None) != before:
                problems.append((f"{kind}: rejected edit ({status}) changed the WCS", desc + [cop]))
        if not problems:
            if list(w.available_frames) != ref.names:
                problems.append((f"{kind}: frames {w.available_frames} != reference {ref.names}", desc + [cop]))
            elif fwd[0] == "val" and fwd[1] != ref.forward(pt):
                problems.append((f"{kind}: evaluation {fwd[1]} != reference composition {ref.forward(pt)}", desc + [cop]))
            elif any(getattr(w, nm, None) is not fr for nm, fr in ref.objs.items()):
                problems.append((f"{kind}: a frame object is not exposed under its name", desc + [cop]))
            elif bbox_of(w) != ref.box:
                problems.append((f"{kind}: bounding box {bbox_of(w)} != reference {ref.box}", desc + [cop]))
        if isinstance(after_obs[1], str) or isinstance(bbox_of(w), str):
            problems.append((f"{kind}: after the edit ({status or 'accepted'}) the WCS is corrupt: {bbox_of(w)}, frames {w.available_frames}", desc + [cop]))
            break
        # ---- observation for Coq
        nm_codes = [code[x] for x in w.available_frames]
        def ident(x):
            o = getattr(w, x, None)
            if o is None or isinstance(o, str):
                return "None"
            return f"Some {gz(ident_of.get(id(o), 100 + code[x]))}"
        attrs = glist([f"({gz(code[x])}, {ident(x)})" for x in w.available_frames])
        bb = bbox_of(w)
        cbox = "(Some None)" if bb is None else "(Some (Some " + glist([f"({gz(a)}, {gz(b)})" for a, b in bb]) + "))"
        cfwd = f"(RVal {gzl(fwd[1])})" if fwd[0] == "val" else f"(RErr {fwd[1]})"
        cst = "None" if status is None else f"(Some {status})"
        ops_terms.append(f"({cop}, {{| o_status := {cst}; o_names := {gzl(nm_codes)}; o_fwd := {cfwd}; o_box := {cbox}; o_attrs := {attrs} |}})")
        flags.append(status is None)
        desc.append(cop + " -> " + (status or "ok"))
    tab = glist([l.coq_def() for l in leaves_all])
    term = f"({cw}, {tab}, {n}%nat, {gzl(pt)}, {glist(ops_terms)})"
    return term, flags, problems, desc


def own_box_probe(ctx, rng, problems):
    """insert_transform with a transform that carries a bounding box of its own, next to identity / shift / scale steps: the WCS must
    evaluate (with its default box handling) as the reference list composes and keep exactly the box it had"""
    import numpy as np
    from astropy.modeling import models
    from gwcs import wcs, coordinate_frames as cf

    def mk(kind):
        if kind == "identity":
            return models.Identity(2), (lambda p: list(p))
        if kind == "shift":
            a, b = rng.randint(-9, 9), rng.randint(-9, 9)
            return models.Shift(a) & models.Shift(b), (lambda p, a=a, b=b: [p[0] + a, p[1] + b])
        a, b = rng.choice([2, -3, 4]), rng.choice([2, 5, -1])
        return models.Scale(a) & models.Scale(b), (lambda p, a=a, b=b: [p[0] * a, p[1] * b])
    for k in range(12 if ctx.quick else 120):
        kinds = [rng.choice(["identity", "identity", "shift", "scale"]) for _ in range(2)]
        (m0, f0), (m1, f1) = mk(kinds[0]), mk(kinds[1])
        frames = [cf.Frame2D(name="detector"), cf.Frame2D(name="focal"), cf.Frame2D(name="sky")]
        w = wcs.WCS([(frames[0], m0), (frames[1], m1), (frames[2], None)])
        own = rng.random() < 0.5
        if own:
            w.bounding_box = ((0, 1000), (0, 1000))
        a, b = rng.randint(1, 9), rng.randint(1, 9)
        t = models.Shift(a) & models.Shift(b)
        t.bounding_box = ((0, 10), (0, 20))
        ft = lambda p: [p[0] + a, p[1] + b]
        where, after = rng.choice([("detector", True), ("focal", False), ("focal", True), ("sky", False)])
        arg = where if rng.random() < 0.5 else frames[["detector", "focal", "sky"].index(where)]
        step = {("detector", True): 0, ("focal", False): 0, ("focal", True): 1, ("sky", False): 1}[(where, after)]
        chain = [[f0], [f1]]
        chain[step] = ([ft] + chain[step]) if after else (chain[step] + [ft])
        pt = [50.0, 60.0]
        want = list(pt)
        for ch in chain:
            for f in ch:
                want = f(want)
        rec = dict(steps=kinds, own_box=own, insert=f"insert_transform({where}, Shift({a})&Shift({b}) with bounding_box ((0,10),(0,20)), after={after})",
                   point=pt)
        ctx.case(key=("ownbox", str(rec)), nontrivial=True, kind="insert-with-own-box", sample=rec)
        try:
            w.insert_transform(arg, t, after=after)
            got = [float(v) for v in w(*pt)]
            box = bbox_of(w)
            mid = [float(v) for v in w.get_transform("focal", "sky")(*w.get_transform("detector", "focal")(*pt))]
        except Exception as e:  # noqa
            problems.append((f"insert_transform of a transform with its own box raised {type(e).__name__}: {str(e)[:100]}", [str(rec)]))
            continue
        want_box = [(0, 1000), (0, 1000)] if (own and step != 0) else None
        if got != want or mid != want:
            problems.append((f"insert_transform (transform with its own bounding box): evaluation {got} / step by step {mid} != reference "
                             f"composition {want} at {pt}", [str(rec)]))
        elif box != want_box:
            problems.append((f"insert_transform (transform with its own bounding box): bounding box {box} != reference {want_box}", [str(rec)]))


def rejected_transform_probe(ctx, rng, problems):
    """an edit given something that is not a transform (or a transform with the wrong number of inputs) is rejected and leaves frames,
    frame attributes, evaluation and bounding box exactly as they were — for every edit method and position"""
    from astropy.modeling import models
    from gwcs import wcs, coordinate_frames as cf
    bads = [("a string", "not a model"), ("a number", 3.0), ("a 1-input model", models.Shift(1.0))]
    for name, bad in bads:
        for which in ("set_transform", "insert_transform-before", "insert_transform-after", "insert_frame-after-existing", "insert_frame-before-existing"):
            frames = [cf.Frame2D(name="detector"), cf.Frame2D(name="focal"), cf.Frame2D(name="sky")]
            w = wcs.WCS([(frames[0], models.Shift(1) & models.Shift(2)), (frames[1], models.Scale(2) & models.Scale(5)), (frames[2], None)])
            w.bounding_box = ((0, 100), (0, 50))
            new = cf.Frame2D(name="new")
            before = (list(w.available_frames), bbox_of(w), [float(v) for v in w(3.0, 4.0)], [getattr(w, f.name, None) is f for f in frames])
            rec = dict(edit=which, transform=name)
            ctx.case(key=("reject", which, name), nontrivial=True, kind="rejected-transform", sample=rec)
            try:
                if which == "set_transform":
                    w.set_transform("focal", "sky", bad)
                elif which.startswith("insert_transform"):
                    w.insert_transform("focal", bad, after=which.endswith("after"))
                elif which == "insert_frame-after-existing":
                    w.insert_frame("focal", bad, new)
                else:
                    w.insert_frame(new, bad, "focal")
                accepted = True
            except Exception:  # noqa
                accepted = False
            try:
                after = (list(w.available_frames), bbox_of(w), [float(v) for v in w(3.0, 4.0)], [getattr(w, f.name, None) is f for f in frames])
            except Exception as e:  # noqa
                after = ("evaluation raised " + type(e).__name__,)
            if accepted and name != "a 1-input model":
                problems.append((f"{which} accepted {name} as a transform", [str(rec)]))
            elif not accepted and after != before:
                problems.append((f"{which} rejected {name} but changed the WCS: frames / box / w(3, 4) / attributes {before} -> {after}", [str(rec)]))
            elif not accepted and getattr(w, "new", None) is not None:
                problems.append((f"{which} rejected {name} but registered the new frame as an attribute", [str(rec)]))


def run(ctx):
    from py2coq import gen_pipeline as G, t2
    from lib.common import REPO
    ctx.trusted += ["tools/py2coq translator and GW.Base.Py primitives", "hand model of WCS.bounding_box (Edits.v m_bbox_set/get)",
                    "tools/checks/C07.py op generator, reference-list oracle, differ"]
    ctx.gate()
    try:
        gen_src = G.gen(REPO)
        ctx.oblige("translate: gwcs/wcs.py edit methods within the py2coq subset", True)
    except (t2.Unsupported, SyntaxError, AssertionError) as e:
        gen_src = None
        ctx.oblige("translate: gwcs/wcs.py edit methods within the py2coq subset", False, str(e))
    if gen_src is not None:
        res = ctx.dyn_build("WC01", {"Gen_pipeline": gen_src}, ["C01", "C07"],
                            ["Gen_pipeline", "Sem", "Proofs", "Edits", "PropertiesC07"])
        ctx.oblige("regenerated Gen_pipeline.v type-checks", res.get("Gen_pipeline", (False, ""))[0],
                   res.get("Gen_pipeline", (False, ""))[1][-800:])
        ctx.dyn_theorems("WC01", "PropertiesC07", res, THEOREMS)
    rng = ctx.rng
    nseq = 150 if ctx.quick else 4000
    terms, descs, allprob = [], [], []
    for s in range(nseq):
        n = rng.randint(1, 3)
        term, flags, problems, desc = run_sequence(ctx, rng, n, rng.randint(2, 5), rng.randint(1, 12))
        terms.append(term)
        descs.append(desc)
        ctx.case(key=term, nontrivial=(any(flags) and not all(flags)), kind=f"len{len(flags)}",
                 sample={"dim": n, "ops": desc[:6]})
        allprob += problems[:1]
    own_box_probe(ctx, rng, allprob)
    rejected_transform_probe(ctx, rng, allprob)
    checker = "(fun c => match c with (w, tab, n, x, ops) => match run_check tab n w x ops 0 with None => true | Some _ => false end end)"
    failing = ctx.coq_failing("cases", HEADER, terms, checker, shard=60, label="WC01") if gen_src is not None else None
    ctx.oblige("correspondence: regenerated edit methods (vm_compute) reproduce status/frames/objects/box/evaluation after every op",
               failing == [], "" if failing == [] else f"first failing sequences: {[descs[i] for i in (failing or [])[:2]]}")
    for what, d in allprob[:6]:
        ctx.violation("C07 fails on the implementation: " + what, {"op_sequence": d})
    if failing and not allprob:
        ctx.violation("model and implementation disagree after some op; the reference-list oracle found no violated clause",
                      {"correspondence": "C07 op sequences", "first": descs[failing[0]]}, found_input=False)
