"""C14 — polygon masks cover, hug and clip.

Proof:  coq/theories/C14/{Model,Proofs,Properties}.v  (hand-written executable model of
        region.Polygon / from_vertices + theorems for every polygon / canvas / label list).
Tie:    correspondence — the implementation's masks are compared cell by cell with the model
        evaluated inside Coq (vm_compute) on an exhaustive lattice family plus random polygons.
Search: on any broken obligation / disagreement the property oracle below (exact rational
        even-odd geometry, independent of the model) looks for a concrete failing polygon.
"""
import itertools
from fractions import Fraction as F

import numpy as np

from lib.common import gz, gzl, glist

LEVEL = "proof"
RULE = ("cases = (image shape, ordered list of labelled polygons with vertices in 1/8 pixel units); "
        "exhaustive closed triangles/quadrilaterals on a small lattice x offsets x shapes, plus seeded random "
        "star-shaped/concave polygons (integer, .5 and other fractional, negative coordinates) and labelled "
        "sets; non-trivial = the implementation marks at least one pixel; distinct = distinct (shape, polygons)")
ASSUMPTIONS = [
    "vertex coordinates are multiples of 1/8 with |coordinate| < 2^20 (so float shift/rounding in the code is exact)",
    "numpy evaluates c/D*u+s in IEEE binary64 round-to-nearest-even, as Coq's primitive floats do",
    "Jordan curve theorem (even-odd parity = topological interior for simple polygons) is cited, not formalised",
]
HEADER = ("From Coq Require Import ZArith List. Import ListNotations. Open Scope Z_scope.\n"
          "From GW Require Import C14.Model.\n")


# --------------------------------------------------------------------------
# implementation driver
# --------------------------------------------------------------------------
def impl_mask(shape, polys):
    """polys: list of (label:int, [(x8,y8),...]) -> mask as list of rows, or ('ERR', kind)"""
    from gwcs import selector
    regions = {}
    for lab, vs in polys:
        regions[lab] = [(x / 8.0, y / 8.0) for x, y in vs]
    try:
        m = selector.LabelMapperArray.from_vertices(shape, regions)
    except Exception as e:  # noqa
        return ("ERR", type(e).__name__)
    return [[int(v) for v in row] for row in np.asarray(m.mapper)]


def impl_single(shape, vs, rid=1):
    from gwcs import region
    data = np.zeros(shape, dtype=int)
    pol = region.Polygon(rid, [(x / 8.0, y / 8.0) for x, y in vs])
    return np.asarray(pol.scan(data))


# --------------------------------------------------------------------------
# property oracle (independent of the Coq model): exact geometry on the
# vertices rounded to the nearest pixel centre (ties up, as utils._toindex)
# --------------------------------------------------------------------------
def rnd(n8):
    return (n8 + 4) // 8


def row_set(vr, y):
    """closed polygon ∩ horizontal line y, as list of closed intervals [a,b] (Fractions);
    even-odd interior spans plus boundary pieces."""
    ivs = []
    cr = []
    n = len(vr) - 1
    for k in range(n):
        (x0, y0), (x1, y1) = vr[k], vr[k + 1]
        if y0 == y1:
            if y0 == y:
                ivs.append((F(min(x0, x1)), F(max(x0, x1))))
            continue
        lo, hi = min(y0, y1), max(y0, y1)
        if lo <= y <= hi:
            xc = F(x0) + F(x1 - x0) * F(y - y0, y1 - y0)
            ivs.append((xc, xc))           # boundary point
            if lo <= y < hi:               # half-open rule for parity
                cr.append(xc)
    cr.sort()
    for a, b in zip(cr[::2], cr[1::2]):
        ivs.append((a, b))
    return ivs


def strictly_inside(vr, x, y):
    """even-odd test for the integer point (x,y): odd number of half-open crossings strictly to the
    left and not on the boundary."""
    n = len(vr) - 1
    cnt = 0
    for k in range(n):
        (x0, y0), (x1, y1) = vr[k], vr[k + 1]
        if y0 == y1:
            if y0 == y and min(x0, x1) <= x <= max(x0, x1):
                return False
            continue
        lo, hi = min(y0, y1), max(y0, y1)
        if lo <= y <= hi:
            xc = F(x0) + F(x1 - x0) * F(y - y0, y1 - y0)
            if xc == x:
                return False
            if lo <= y < hi and xc < x:
                cnt += 1
    return cnt % 2 == 1


def is_simple(vr):
    """simple closed polygon test on integer vertices (no repeated vertices, no edge crossings)."""
    n = len(vr) - 1
    if n < 3 or len(set(vr[:-1])) != n:
        return False

    def orient(a, b, c):
        v = (b[0] - a[0]) * (c[1] - a[1]) - (b[1] - a[1]) * (c[0] - a[0])
        return (v > 0) - (v < 0)

    def onseg(a, b, c):
        return min(a[0], b[0]) <= c[0] <= max(a[0], b[0]) and min(a[1], b[1]) <= c[1] <= max(a[1], b[1])

    def inter(a, b, c, d):
        o1, o2, o3, o4 = orient(a, b, c), orient(a, b, d), orient(c, d, a), orient(c, d, b)
        if o1 != o2 and o3 != o4:
            return True
        return ((o1 == 0 and onseg(a, b, c)) or (o2 == 0 and onseg(a, b, d)) or
                (o3 == 0 and onseg(c, d, a)) or (o4 == 0 and onseg(c, d, b)))
    E = [(vr[k], vr[k + 1]) for k in range(n)]
    for i in range(n):
        for j in range(i + 1, n):
            adj = (j == i + 1) or (i == 0 and j == n - 1)
            if adj:
                # adjacent edges may only share the common vertex
                a, b = E[i]
                c, d = E[j]
                shared = b if j == i + 1 else a
                other_i = a if j == i + 1 else b
                other_j = d if j == i + 1 else c
                if orient(other_i, shared, other_j) == 0 and (
                        (other_i[0] - shared[0]) * (other_j[0] - shared[0]) +
                        (other_i[1] - shared[1]) * (other_j[1] - shared[1]) > 0):
                    return False     # folds back on itself
                continue
            if inter(*E[i], *E[j]):
                return False
    return True


def oracle_single(shape, vs, simple_only=True):
    """Return list of (clause, detail) violated by the implementation for one polygon."""
    ny, nx = shape
    out = []
    vr = [(rnd(x), rnd(y)) for x, y in vs]
    m = impl_single(shape, vs)
    # (crop) equals the crop of the fill on a larger canvas
    big = impl_single((ny + 7, nx + 9), vs)
    if not np.array_equal(m, big[:ny, :nx]):
        out.append(("crop", "mask differs from crop of (ny+7,nx+9) canvas"))
    # (translate) shifting polygon and origin by whole pixels shifts the mask
    for tx, ty in ((1, 0), (0, 1), (-2, -1), (3, 2)):
        vs2 = [(x + 8 * tx, y + 8 * ty) for x, y in vs]
        m2 = impl_single(shape, vs2)
        ys0, ys1 = max(0, -ty), min(ny, ny - ty)
        xs0, xs1 = max(0, -tx), min(nx, nx - tx)
        if ys0 < ys1 and xs0 < xs1:
            if not np.array_equal(m[ys0:ys1, xs0:xs1], m2[ys0 + ty:ys1 + ty, xs0 + tx:xs1 + tx]):
                out.append(("translate", f"shift by ({tx},{ty}) does not shift the mask"))
                break
    xs_ = [p[0] for p in vr]
    ys_ = [p[1] for p in vr]
    if max(xs_) == min(xs_):
        if m.any():
            out.append(("zero-width", "zero-width polygon marks pixels"))
        return out
    simple = is_simple(vr)
    for y in range(ny):
        row = m[y]
        marked = np.nonzero(row)[0]
        if y < min(ys_) or y > max(ys_):
            if len(marked):
                out.append(("rows", f"row {y} not reached by polygon but marked"))
            continue
        if simple:
            ivs = row_set(vr, y)
            for x in marked:
                if not any(a <= x and x - 1 <= b for a, b in ivs if True):
                    # need a polygon point px with x-1 <= px <= x
                    out.append(("hug", f"pixel ({x},{y}) is farther than one pixel right of / left of the polygon"))
                    break
                if not any((max(a, F(x - 1)) <= min(b, F(x))) for a, b in ivs):
                    out.append(("hug", f"pixel ({x},{y}) not within one pixel to the right of the closed polygon"))
                    break
            for x in range(nx):
                if not row[x] and strictly_inside(vr, x, y):
                    out.append(("inside", f"pixel centre ({x},{y}) strictly inside but not marked"))
                    break
    return out


def oracle_labels(shape, polys):
    m = impl_mask(shape, polys)
    if isinstance(m, tuple):
        return [("labels", f"from_vertices raised {m[1]}")]
    ref = np.zeros(shape, dtype=int)
    for lab, vs in polys:
        s = impl_single(shape, vs, rid=1)
        ref[s != 0] = lab
    if not np.array_equal(np.asarray(m), ref):
        return [("last-label", "multi-polygon mask is not the overlay in drawing order")]
    # the same regions under string labels of different lengths (shortest first): every pixel carries the whole label of the last
    # polygon covering it, the background stays empty
    from gwcs import selector
    pool = ["A", "B12", "slit_3", "S1600A1", "x", "region-ten"]
    names = {lab: pool[i % len(pool)] + ("" if i < len(pool) else str(i)) for i, (lab, _) in enumerate(polys)}
    if len(set(names.values())) == len(polys):
        try:
            ms = selector.LabelMapperArray.from_vertices(shape, {names[lab]: [(x / 8.0, y / 8.0) for x, y in vs] for lab, vs in polys})
            got = np.asarray(ms.mapper)
            want = np.full(shape, "", dtype=object)
            for lab, vs in polys:
                want[impl_single(shape, vs, rid=1) != 0] = names[lab]
            if got.shape != tuple(shape) or not all(str(got[i, j]) == want[i, j] for i in range(shape[0]) for j in range(shape[1])):
                bad_px = next(((i, j) for i in range(shape[0]) for j in range(shape[1]) if str(got[i, j]) != want[i, j]), None)
                return [("last-label", f"with string labels {list(names.values())} pixel {bad_px} carries {got[bad_px]!r}, not {want[bad_px]!r} "
                                       f"(mask dtype {got.dtype})")]
        except Exception as e:  # noqa
            return [("labels", f"from_vertices with string labels {list(names.values())} raised {type(e).__name__}")]
    return []


# --------------------------------------------------------------------------
# generators
# --------------------------------------------------------------------------
def lattice_polys(npts, L):
    pts = [(x, y) for x in range(L) for y in range(L)]
    for combo in itertools.permutations(pts, npts):
        if combo[0] != min(combo):      # rotation canonical form (keep both orientations)
            continue
        yield list(combo) + [combo[0]]


def random_star(rng, nv, cx, cy, rmax, frac):
    import math
    angs = sorted(rng.uniform(0, 2 * math.pi) for _ in range(nv))
    vs = []
    for a in angs:
        r = rng.uniform(0.3, 1.0) * rmax
        x, y = cx + r * math.cos(a), cy + r * math.sin(a)
        if frac == "int":
            vs.append((8 * round(x), 8 * round(y)))
        elif frac == "half":
            vs.append((8 * int(x) + 4, 8 * int(y) + 4))
        else:
            vs.append((round(8 * x), round(8 * y)))
    vs.append(vs[0])
    return vs


def gen_cases(ctx):
    rng = ctx.rng
    cases = []          # (shape, polys, kind)
    # exhaustive lattice families
    if ctx.quick:
        tri_L, quad_L, offs, shapes = 4, 3, [(0, 0), (-2, -1), (3, 2)], [(5, 6)]
    else:
        tri_L, quad_L, offs, shapes = 5, 4, [(0, 0), (-2, -1), (3, 2), (-3, 0), (0, -2), (4, 4)], [(5, 6), (7, 4), (9, 9)]
    for shape in shapes:
        for ox, oy in offs:
            for vs in lattice_polys(3, tri_L):
                cases.append((shape, [(1, [(8 * (x + ox), 8 * (y + oy)) for x, y in vs])], "tri"))
            for vs in lattice_polys(4, quad_L):
                cases.append((shape, [(1, [(8 * (x + ox), 8 * (y + oy)) for x, y in vs])], "quad"))
    nrand = 600 if ctx.quick else 12000
    for _ in range(nrand):
        shape = (rng.randint(3, 14), rng.randint(3, 14))
        nv = rng.randint(3, 12)
        frac = rng.choice(["int", "half", "eighth", "eighth"])
        cx, cy = rng.uniform(-6, shape[1] + 6), rng.uniform(-6, shape[0] + 6)
        vs = random_star(rng, nv, cx, cy, rng.uniform(1.5, 9), frac)
        cases.append((shape, [(1, vs)], "star-" + frac))
    nlab = 150 if ctx.quick else 2500
    for _ in range(nlab):
        shape = (rng.randint(4, 12), rng.randint(4, 12))
        k = rng.randint(2, 4)
        labs = rng.sample(range(1, 9), k)
        polys = []
        for lab in labs:
            frac = rng.choice(["int", "half", "eighth"])
            vs = random_star(rng, rng.randint(3, 7), rng.uniform(-2, shape[1] + 2), rng.uniform(-2, shape[0] + 2),
                             rng.uniform(1.5, 6), frac)
            polys.append((lab, vs))
        cases.append((shape, polys, "labelled"))
    # hand-picked edge cases (also the historical findings)
    cases += [
        ((8, 8), [(1, [(-48, 8), (-24, 8), (-24, 32), (-48, 32), (-48, 8)])], "corpus-left-of-image"),
        ((6, 8), [(1, [(-3, 0), (2, 32), (32, 32), (32, 0), (-3, 0)])], "corpus-shift-before-round"),
        ((8, 8), [(1, [(4, 4), (36, 4), (36, 36), (4, 36), (4, 4)])], "corpus-half"),
        ((8, 8), [(1, [(12, 12), (44, 12), (44, 44), (12, 44), (12, 12)])], "corpus-half"),
        ((5, 5), [(1, [(8, 0), (8, 24), (8, 40), (8, 0)])], "corpus-zero-width"),
        ((10, 10), [(1, [(-24, 8), (56, 8), (56, 32), (-24, 32), (-24, 8)])], "corpus-wide"),
        ((4, 4), [(1, [(-24, -16), (80, -16), (80, 64), (-24, 64), (-24, -16)])], "corpus-cover-all"),
    ]
    return cases


def coq_case(shape, polys, mask):
    ps = glist([f"({gz(l)}, ({gzl([v[0] for v in vs])}, {gzl([v[1] for v in vs])}))" for l, vs in polys])
    rows = glist([gzl(r) for r in mask])
    return f"({gz(shape[0])}, {gz(shape[1])}, {ps}, {rows})"


THEOREMS = ["C14_scan_pixel", "C14_crop_commutes", "C14_rows_not_reached", "C14_zero_width",
            "C14_marked_between_crossings", "C14_inside_marked", "C14_contract_side", "C14_aet_half_open",
            "C14_crossings_even", "C14_last_label_wins", "C14_round_nearest", "C14_round_translate",
            "C14_float_contract_sweep_12_20", "C14_nonvacuous"]


def run(ctx):
    ctx.trusted += [
        "hand-written model coq/theories/C14/Model.v tied to gwcs/region.py + selector.from_vertices by the "
        "mask-for-mask correspondence run below (differential testing, not proof)",
        "tools/checks/C14.py generators, exact-rational oracle, differ",
    ]
    ctx.gate()
    ctx.coq_theorems("C14/Properties", THEOREMS)
    okr, _ = ctx.coq_build(["theories/Refuted/C14.vo"])
    ctx.notes.append("Refuted/C14.v (witnesses of repaired / known defects) builds: %s" % okr)
    if not ctx.quick:
        ok, out = ctx.coq_file("sweep", "From GW Require Import C14.Model C14.Geometry.\n"
                               "Lemma sweep_24_30 : sweep_ok 24 30 = true. Proof. vm_compute. reflexivity. Qed.\n",
                               timeout=1800)
        ctx.oblige("thorough: binary64 intersection contract sweep |ux|,|uy|<=24, sx<=30 (vm_compute)", ok, out[-500:])
    # ---- correspondence ---------------------------------------------------
    cases = gen_cases(ctx)
    terms, kept = [], []
    for shape, polys, kind in cases:
        m = impl_mask(shape, polys)
        if isinstance(m, tuple):
            ctx.case(key=(shape, str(polys)), nontrivial=False, kind=kind + "/error")
            ctx.violation(f"from_vertices raised {m[1]} on a valid polygon", {"shape": shape, "polys": polys},
                          key=None)
            continue
        nz = any(any(r) for r in m)
        ctx.case(key=(shape, str(polys)), nontrivial=nz, kind=kind,
                 sample={"shape": shape, "polys_in_eighths": polys, "marked": sum(map(lambda r: sum(1 for v in r if v), m))})
        terms.append(coq_case(shape, polys, m))
        kept.append((shape, polys, kind))
    failing = ctx.coq_failing("cases", HEADER, terms, "check_case false")
    ctx.extra["exhaustive"] = False
    ctx.extra["exhaustive_families"] = "all closed lattice triangles and quadrilaterals (see rule) were enumerated completely"
    ok = ctx.oblige("correspondence: model (vm_compute) = implementation mask, every case", failing == [],
                    "" if failing == [] else f"failing case indices {failing[:10] if failing else failing}")
    # ---- search for concrete property violations ---------------------------
    # Always run the oracle on a slice of cases (cheap); on disagreement run it on everything disagreeing.
    todo = set(failing or []) if failing else set()
    step = 1 if not ctx.quick else 7
    todo |= set(range(0, len(kept), step))
    todo |= {i for i, c in enumerate(kept) if c[2].startswith("corpus")}
    nviol = 0
    for i in sorted(todo):
        shape, polys, kind = kept[i]
        bad = []
        for lab, vs in polys:
            bad += [(c, d, vs) for c, d in oracle_single(shape, vs)]
        if len(polys) > 1:
            bad += [(c, d, None) for c, d in oracle_labels(shape, polys)]
        for clause, detail, vs in bad[:2]:
            nviol += 1
            if nviol <= 40:
                ctx.violation(f"C14 clause '{clause}' fails on the implementation: {detail}",
                              {"shape": shape, "polys_in_eighths": polys, "polygon": vs, "clause": clause,
                               "how": "gwcs.selector.LabelMapperArray.from_vertices(shape, {label: [(x/8,y/8)...]})"},
                              key=classify(clause, shape, vs))
    if failing and not nviol:
        i = failing[0]
        ctx.violation("model/implementation masks disagree but the oracle found no property violation on those cases",
                      {"correspondence": "C14 cases", "first_disagreeing_case": kept[i][:2]}, found_input=False)
    ctx.extra["oracle_cases"] = len(todo)
    # ---- known finding probe: binary64 ceil is not translation covariant (boundary pixel) -------------
    vs = [(1600, 0), (160, 80), (1600, 80), (1600, 0)]
    a = impl_single((12, 1300), vs)
    b = impl_single((12, 1300), [(x + 8000, y) for x, y in vs])
    if not np.array_equal(a[:, :300], b[:, 1000:1300]):
        ctx.violation("C14 clause 'translate' fails on the implementation for an exactly integral crossing "
                      "(binary64 ceil anomaly)", {"shape": (12, 1300), "polygon_in_eighths": vs, "shift_px": (1000, 0),
                                                  "differs_at": np.argwhere(a[:, :300] != b[:, 1000:1300]).tolist()},
                      key="C14/float-ceil-translate")


def classify(clause, shape, vs):
    return None
