"""C17 — no call leaves process-wide numeric/warning/print settings changed, even on failure.

Proof:  coq/theories/C17/Eff.v — effect-skeleton language, adversarial-oracle semantics (every branch, loop count and
        raising call chosen by the oracle), theorem ok_sound: a skeleton whose global writes are all protected by a
        context manager of the same kind restores every global on every exit.  Per run, tools/py2coq/t3 REGENERATES the
        skeleton of every function of gwcs/wcs.py and gwcs/wcstools.py (intra-package calls inlined) and Coq computes
        `ok [] skeleton = true` for every public entry point; ok_sound is then instantiated on each.
Tie:    translator + fault enumeration on the implementation: a counting transform raises at its k-th evaluation, for
        every entry point and every k up to the call's evaluation count; numpy error state, warnings filters and print
        options are compared before/after (also for normal, NoConvergence and invalid-argument exits).
"""
import warnings

import numpy as np

LEVEL = "proof"
RULE = ("entry points (__call__, invert, numerical_inverse in 4 modes x quiet, in_image, footprint, transform, to_fits_sip, "
        "to_fits_tab, to_fits) x crash index k = 1..N (N = evaluations of the user transform in the normal run; all k when N <= 60, "
        "else 60 spread incl. first/last) x 2 caller settings, plus normal / NoConvergence / invalid-argument exits. "
        "non-trivial = the call raised from inside the user transform; distinct = (entry, mode, k, settings)")
ASSUMPTIONS = [
    "opaque library calls (astropy, numpy, scipy) restore the global settings they change (Call nodes); probed by the same fault enumeration",
    "np.errstate / warnings.catch_warnings / np.printoptions restore on every exit (With nodes)",
    "the skeleton abstracts data: any branch / iteration count / raising call is possible (sound over-approximation)",
]


class Boom(RuntimeError):
    pass


def make_counter():
    from astropy.modeling import Model

    class Counter(Model):
        n_inputs = 2
        n_outputs = 2
        _separable = False
        count = 0
        fail_at = None
        nan_from = None          # second fault kind: from this evaluation on the transform is undefined (NaN) outside a small radius

        def evaluate(self, x, y):
            type(self).count += 1
            if type(self).fail_at is not None and type(self).count == type(self).fail_at:
                raise Boom(f"user transform failed at evaluation {type(self).count}")
            if type(self).nan_from is not None and type(self).count >= type(self).nan_from:
                import numpy as _np
                bad = _np.hypot(_np.asarray(x, dtype=float) - 500.0, _np.asarray(y, dtype=float) - 400.0) > 300.0
                return _np.where(bad, _np.nan, x * 1.0), _np.where(bad, _np.nan, y * 1.0)
            return x * 1.0, y * 1.0
    return Counter


def build(Counter):
    import astropy.units as u
    from astropy import coordinates as coord
    from astropy.modeling import models
    from gwcs import wcs, coordinate_frames as cf
    tr = (models.Shift(-500) & models.Shift(-400) | models.Scale(1e-4) & models.Scale(1e-4) |
          models.Pix2Sky_TAN() | models.RotateNative2Celestial(30, 40, 180))
    det = cf.Frame2D(name="detector")
    mid = cf.Frame2D(name="mid")
    sky = cf.CelestialFrame(reference_frame=coord.ICRS(), name="sky")
    w = wcs.WCS([(det, Counter()), (mid, tr), (sky, None)])
    w.bounding_box = ((-0.5, 999.5), (-0.5, 799.5))
    # a twin with a cubic distortion of a few pixels: low-degree SIP fits cannot reach a tight accuracy (the warning paths of the exporters)
    px = models.Polynomial2D(3, c1_0=1.0, c2_0=2e-6, c1_1=-1e-6, c3_0=3e-9, c0_3=1e-9)
    py = models.Polynomial2D(3, c0_1=1.0, c0_2=1.5e-6, c1_1=2e-6, c1_2=-2e-9, c3_0=1e-9)
    dist = models.Mapping((0, 1, 0, 1)) | px & py
    w.distorted = wcs.WCS([(cf.Frame2D(name="detector"), Counter()), (cf.Frame2D(name="mid"), dist | tr), (sky, None)])
    w.distorted.bounding_box = ((-0.5, 999.5), (-0.5, 799.5))
    return w


def snapshot():
    return (dict(np.geterr()), [tuple(map(str, f)) for f in warnings.filters], dict(np.get_printoptions()))


def entry_points(w):
    ra, dec = w(np.array([100., 300., 600.]), np.array([200., 50., 700.]))
    far_ra, far_dec = ra + 60, dec * 0 - 40
    E = {}
    E["__call__"] = lambda: w(np.array([1., 2.]), np.array([3., 4.]))
    E["transform"] = lambda: w.transform("detector", "sky", 5., 6.)
    E["footprint"] = lambda: w.footprint()
    E["footprint(center)"] = lambda: w.footprint(center=True, axis_type="spatial")
    E["invert"] = lambda: w.invert(ra, dec)
    E["in_image"] = lambda: w.in_image(ra, dec)
    for adaptive in (True, False):
        for dd in (True, False):
            E[f"numerical_inverse(adaptive={adaptive},detect_divergence={dd})"] = (
                lambda a=adaptive, d=dd: w.numerical_inverse(ra, dec, adaptive=a, detect_divergence=d, quiet=True))
    E["numerical_inverse(noconv,quiet=False)"] = lambda: w.numerical_inverse(ra, dec, maxiter=2, tolerance=1e-13, quiet=False)
    E["numerical_inverse(noconv,nonadaptive)"] = lambda: w.numerical_inverse(ra, dec, maxiter=2, tolerance=1e-13, quiet=False,
                                                                             adaptive=False)
    E["numerical_inverse(far,quiet=False)"] = lambda: w.numerical_inverse(far_ra, far_dec, maxiter=5, quiet=False)
    E["numerical_inverse(scalar)"] = lambda: w.numerical_inverse(float(ra[0]), float(dec[0]))
    # scalar world points for which the approximate inverse gives no finite starting value (antipode of the pointing, NaN): the call
    # returns NaN through an early exit
    E["numerical_inverse(scalar,antipode)"] = lambda: w.numerical_inverse(210.0, -40.0)
    E["numerical_inverse(scalar,nan)"] = lambda: w.numerical_inverse(float("nan"), 10.0)
    E["invert(scalar,antipode)"] = lambda: w.invert(210.0, -40.0)
    E["in_image(scalar,antipode)"] = lambda: w.in_image(210.0, -40.0)
    E["numerical_inverse(bad-args)"] = lambda: w.numerical_inverse(ra)
    E["to_fits_sip"] = lambda: w.to_fits_sip(degree=2, npoints=8)
    E["to_fits_sip(no-degree)"] = lambda: w.to_fits_sip(max_pix_error=1e-3, npoints=6)
    E["to_fits_tab"] = lambda: w.to_fits_tab(sampling=200)
    E["to_fits"] = lambda: w.to_fits(degree=2, npoints=8)
    E["to_fits_sip(bad-box)"] = lambda: w.to_fits_sip(bounding_box=((0, 1),))
    wd = w.distorted
    E["to_fits_sip(accuracy unmet,degree=1)"] = lambda: wd.to_fits_sip(degree=1, max_pix_error=1e-4, npoints=8)
    E["to_fits_sip(accuracy unmet,degree list)"] = lambda: wd.to_fits_sip(degree=[1, 2], max_pix_error=1e-5, max_inv_pix_error=1e-5, npoints=8)
    E["to_fits(accuracy unmet)"] = lambda: wd.to_fits(degree=2, max_pix_error=1e-5, npoints=8)
    return E


SETTINGS = [dict(divide="warn", over="warn", under="ignore", invalid="warn"),
            dict(divide="ignore", over="raise", under="warn", invalid="warn")]


def trial(Counter, fn, k, setting, nan=False):
    """run fn with the counter failing (or, with nan=True, turning NaN outside a radius) at evaluation k under caller settings;
    return (how it ended, leaked?)"""
    Counter.count, Counter.fail_at, Counter.nan_from = 0, (None if nan else k), (k if nan else None)
    with warnings.catch_warnings():
        warnings.simplefilter("ignore")
        warnings.filterwarnings("default", category=ResourceWarning)      # a recognisable caller filter
        with np.errstate(**setting):
            po = np.get_printoptions()
            np.set_printoptions(precision=5)
            before = snapshot()
            try:
                import contextlib, io
                with contextlib.redirect_stdout(io.StringIO()):
                    fn()
                how = "normal"
            except Boom:
                how = "boom"
            except Exception as e:  # noqa
                how = type(e).__name__
            after = snapshot()
            np.set_printoptions(**po)
    Counter.fail_at = None
    Counter.nan_from = None
    diffs = []
    for name, a, b in zip(("numpy error state", "warnings filters", "print options"), before, after):
        if a != b:
            diffs.append(f"{name}: {a if name != 'warnings filters' else len(a)} -> {b if name != 'warnings filters' else len(b)}")
    return how, diffs, Counter.count


def run(ctx):
    from py2coq import gen_effects as G, t3
    from lib.common import REPO
    ctx.trusted += ["tools/py2coq/t3.py effect-skeleton translator (fail-closed); semantics of Eff.v",
                    "tools/checks/C17.py counting transform and global-state snapshots"]
    ctx.gate()
    ctx.coq_theorems("C17/Eff", ["ok_preserves", "ok_sound", "legacy_leak", "with_is_ok"])
    try:
        gen_src, ents = G.gen(REPO)
        ctx.oblige("translate: effect skeletons of gwcs/wcs.py and gwcs/wcstools.py", True)
    except (t3.Unsupported, SyntaxError) as e:
        gen_src, ents = None, []
        ctx.oblige("translate: effect skeletons of gwcs/wcs.py and gwcs/wcstools.py", False, str(e))
    unbalanced = []
    if gen_src is not None:
        props = ["From Coq Require Import List. Import ListNotations.", "From GW Require Import C17.Eff.",
                 "From WC17 Require Import Gen_effects."]
        for e in ents:
            props.append(f"Theorem C17_{e} : forall (o : oracle) (s : st) (k : kind), g (snd (run o {e} s)) k = g s k.\n"
                         f"Proof. apply ok_sound. vm_compute. reflexivity. Qed.")
        res = ctx.dyn_build("WC17", {"Gen_effects": gen_src}, [], ["Gen_effects"])
        ctx.oblige("regenerated Gen_effects.v type-checks", res["Gen_effects"][0], res["Gen_effects"][1][-600:])
        for e in ents:      # one file per entry point so that one failure does not hide the others
            src = "\n".join(props[:3]) + "\n" + [p for p in props[3:] if f"C17_{e} " in p][0] + f"\nPrint Assumptions C17_{e}.\n"
            r = ctx.dyn_build("WC17", {"P_" + e: src}, [], ["P_" + e])["P_" + e]
            ctx.oblige(f"C17_{e}: skeleton balanced => globals restored for every oracle (ok_sound instance)", r[0], r[1][-400:])
            if r[0]:
                ctx._parse_assumptions([f"C17_{e}"], r[1])
            else:
                unbalanced.append(e)
    # ---- fault enumeration on the implementation -----------------------------------------
    Counter = make_counter()
    w = build(Counter)
    E = entry_points(w)
    problems = []
    total_k = 0
    for name, fn in E.items():
        how0, diffs0, n = trial(Counter, fn, None, SETTINGS[0])
        ctx.case(key=(name, None, 0), nontrivial=False, kind="exit/" + how0,
                 sample={"entry": name, "crash_index": None, "ended": how0, "evaluations": n})
        if diffs0:
            problems.append((f"{name}: {how0} exit leaves " + "; ".join(diffs0), {"entry": name, "crash_index": None}))
        ks = list(range(1, n + 1))
        cap = 60 if ctx.quick else 400
        if len(ks) > cap:
            step = len(ks) / cap
            ks = sorted(set([1, n] + [int(1 + i * step) for i in range(cap)]))
        for si, setting in enumerate(SETTINGS if not ctx.quick else SETTINGS[:2]):
            for k in ks:
                how, diffs, _ = trial(Counter, fn, k, setting)
                total_k += 1
                ctx.case(key=(name, k, si), nontrivial=(how == "boom"), kind=f"{name.split('(')[0]}/{how}",
                         sample={"entry": name, "crash_index": k, "of": n, "ended": how})
                if diffs:
                    problems.append((f"{name}: failure of the user transform at its evaluation {k} of {n} ({how}) leaves " + "; ".join(diffs),
                                     {"entry": name, "crash_index": k, "evaluations": n, "caller_settings": setting}))
        # second fault kind: the user transform becomes undefined (NaN) over part of the field from evaluation k on, which makes
        # library calls inside gwcs (LU solves, root finders) fail on their own error paths
        if name.startswith(("to_fits", "invert", "numerical_inverse(adaptive=True,detect_divergence=True)", "in_image", "footprint")):
            for k in sorted(set([1, 2, 3, max(1, n // 2), n])):
                how, diffs, _ = trial(Counter, fn, k, SETTINGS[0], nan=True)
                total_k += 1
                ctx.case(key=(name, "nan", k), nontrivial=(how != "normal"), kind=f"{name.split('(')[0]}/nan:{how}",
                         sample={"entry": name, "nan_from_evaluation": k, "of": n, "ended": how})
                if diffs:
                    problems.append((f"{name}: with the user transform undefined (NaN) outside a 300 px radius from its evaluation {k} on, the "
                                     f"call ends with {how} and leaves " + "; ".join(diffs),
                                     {"entry": name, "nan_from_evaluation": k, "evaluations": n}))
    ctx.extra["crash_points"] = total_k
    ctx.extra["exhaustive"] = bool(not ctx.quick)
    ctx.oblige("fault enumeration: globals identical before/after at every explored crash index and exit kind", not problems,
               problems[0][0] if problems else "")
    seen = set()
    for what, rep in problems:
        key = what.split(":")[0]
        if key in seen:
            continue
        seen.add(key)
        ctx.violation("C17 fails on the implementation: " + what, rep)
    if unbalanced and not problems:
        ctx.violation("skeleton no longer balanced for " + ", ".join(unbalanced) + "; fault enumeration found no leaking crash point",
                      {"theorems": ["C17_" + e for e in unbalanced]}, found_input=False)
