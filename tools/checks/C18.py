"""C18 — footprint and pixel grids are the box's corners and pixels, in documented order.

Proof:  coq/theories/C18/Grid.v (exact arithmetic in a common unit): grid_first_last (starts at the lower limit, advances by the
        step, stops at the FIRST node reaching the upper limit, for every box and positive step), lo/hi_pixel_spec and
        centred_grid_is_overlapping_pixels (unit step + centring = exactly the pixels overlapping the box, x.5 going to the pixel
        inside), product_corner / product_length (full product of per-axis limits), clockwise_from_lower_left,
        footprint_axis_range (per-type min/max).
Tie:    AST pins + exact correspondence: grids with dyadic boxes/steps (unit 1/64) and the corner lists actually used by
        footprint (observed through identity WCSs) are compared with the model evaluated in Coq.
Search: property oracle on non-identity WCSs (footprint = unmasked forward image of the corners; refusal without a box).
"""
import itertools
import math

import numpy as np

from lib.common import gz, gzl, glist, gbool
from lib import pins, families

LEVEL = "proof"
RULE = ("grids: 1-D..3-D boxes with dyadic limits (integer, fractional, x.5, offset, negative), positive scalar or per-axis dyadic steps, "
        "both centring options; footprints: identity and generated WCSs of 1..4 pixel axes with spatial/spectral/temporal outputs, own "
        "or passed box, both centring options, every axis_type. non-trivial = fractional / x.5 limit or non-unit step; distinct by content")
ASSUMPTIONS = ["numpy.mgrid with slice(a, b, s) yields ceil((b-a)/s) nodes a + k*s (measured by the correspondence)",
               "the forward transform itself is C01/C03's subject; here only which points are fed to it and how the result is reduced"]
PINS = ["gwcs/wcstools.py::grid_from_bounding_box", "gwcs/wcs.py::WCS.footprint", "gwcs/utils.py::_toindex"]
HEADER = ("From Coq Require Import ZArith List Bool. Import ListNotations. Open Scope Z_scope.\n"
          "From GW Require Import C18.Grid.\n")
D = 64


def identity_wcs(n, types, preattached_box=None):
    import astropy.units as u
    from astropy.modeling import models
    from gwcs import wcs, coordinate_frames as cf
    tr = models.Identity(n)
    if preattached_box is not None:      # set on the transform before the WCS exists: astropy keeps it in its native 'C' order
        tr.bounding_box = preattached_box[0] if n == 1 else tuple(preattached_box[::-1])
    det = cf.CoordinateFrame(naxes=n, axes_type=("PIXEL",) * n, axes_order=tuple(range(n)), name="detector", unit=(u.pix,) * n)
    out = cf.CoordinateFrame(naxes=n, axes_type=tuple(types), axes_order=tuple(range(n)), name="world", unit=(u.pix,) * n)
    return wcs.WCS([(det, tr), (out, None)])


def run(ctx):
    from gwcs import wcstools
    ctx.trusted += ["hand model coq/theories/C18/Grid.v; tools/checks/C18.py generators and oracle"]
    ctx.gate()
    ctx.coq_theorems("C18/Grid", ["grid_first_last", "lo_pixel_spec", "hi_pixel_spec", "centred_grid_is_overlapping_pixels",
                                  "product_length", "product_corner", "clockwise_from_lower_left", "footprint_axis_range"])
    pins.check(ctx, PINS)
    rng = ctx.rng
    problems = []
    # ---------- grids -------------------------------------------------------------------------------
    terms_g, meta_g = [], []
    for gi in range(60 if ctx.quick else 1500):
        nd = rng.randint(1, 3)
        box, steps = [], []
        for _ in range(nd):
            kind = rng.choice(["int", "frac", "half", "offset", "neg"])
            lo = {"int": rng.randint(0, 5) * D, "frac": rng.randint(0, 5 * D), "half": rng.randint(0, 5) * D + D // 2,
                  "offset": 100 * D + rng.randint(0, 2 * D), "neg": -rng.randint(1, 4 * D)}[kind]
            hi = lo + rng.choice([rng.randint(1, 6) * D, rng.randint(1, 6 * D), rng.randint(0, 5) * D + D // 2])
            box.append((lo, hi))
            steps.append(rng.choice([D, D, D // 2, D // 4, 2 * D, 3 * D // 2, D + D // 8]))
        scalar_step = rng.random() < 0.4
        if scalar_step:
            steps = [steps[0]] * nd
        center = rng.random() < 0.5
        bb = tuple((lo / D, hi / D) for lo, hi in box)
        try:
            g = wcstools.grid_from_bounding_box(bb[0] if nd == 1 else bb, step=(steps[0] / D if scalar_step else tuple(s / D for s in steps)),
                                                center=center)
        except Exception as e:  # noqa
            problems.append((f"grid_from_bounding_box raised {type(e).__name__}: {e}", {"box": bb}, None))
            continue
        g = np.asarray(g, dtype=float)
        axes = [g] if nd == 1 else [g[k] for k in range(nd)]
        for k in range(nd):
            # axis k (x first) varies along array dimension nd-1-k
            arr = axes[k]
            sl = [0] * arr.ndim
            sl[arr.ndim - 1 - k] = slice(None)
            line = arr[tuple(sl)] if nd > 1 else arr
            nodes = [int(round(v * D)) for v in line]
            if any(abs(v * D - round(v * D)) > 1e-9 for v in line):
                problems.append(("grid node is not a dyadic number", {"box": bb}, None))
            # constant along the other dimensions?
            if nd > 1 and not np.array_equal(arr, np.broadcast_to(line.reshape([-1 if d == arr.ndim - 1 - k else 1 for d in range(arr.ndim)]), arr.shape)):
                problems.append((f"grid axis {k} is not constant along the other dimensions (axis order broken)", {"box": bb}, None))
            lo, hi = box[k]
            terms_g.append(f"({gbool(center)}, {gz(lo)}, {gz(hi)}, {gz(steps[k])}, {gzl(nodes)})")
            meta_g.append((center, lo / D, hi / D, steps[k] / D, [v / D for v in nodes]))
            ctx.case(key=("grid", center, lo, hi, steps[k]), nontrivial=(lo % D != 0 or hi % D != 0 or steps[k] != D),
                     kind=f"grid{nd}d/{'centre' if center else 'edge'}", sample={"axis_box": [lo / D, hi / D], "step": steps[k] / D, "center": center,
                                                                             "nodes": [v / D for v in nodes][:8]})
            # oracle: the property statement
            lo_e = math.floor(lo / D + 0.5) if center else lo / D
            hi_e = math.ceil(hi / D - 0.5) if center else hi / D
            s = steps[k] / D
            ln = [v / D for v in nodes]
            okk = (len(ln) >= 1 and ln[0] == lo_e and all(abs(ln[i + 1] - ln[i] - s) < 1e-12 for i in range(len(ln) - 1))
                   and ln[-1] >= hi_e and (len(ln) < 2 or ln[-2] < hi_e))
            if hi_e >= lo_e and not okk:
                problems.append((f"grid for axis box ({lo / D}, {hi / D}), step {s}, center={center} is {ln}: it must start at {lo_e}, advance by {s} "
                                 f"and stop at the first node >= {hi_e}", {"box": [lo / D, hi / D], "step": s, "center": center}, None))
    # step arity is checked
    try:
        wcstools.grid_from_bounding_box(((0, 3), (0, 4)), step=(1, 1, 1))
        problems.append(("a step tuple of the wrong length was accepted", {}, None))
    except ValueError:
        pass
    fg = ctx.coq_failing("grid", HEADER, terms_g,
                         f"(fun c => match c with (ce, lo, hi, s, got) => check_grid_axis {D} ce lo hi s got end)")
    ctx.oblige("correspondence: grid model (exact, in Coq) = grid_from_bounding_box node for node", fg == [],
               "" if fg == [] else str([meta_g[i] for i in (fg or [])[:3]]))
    # ---------- footprint corners through identity WCSs ------------------------------------------------
    terms_f, meta_f = [], []
    for fi in range(40 if ctx.quick else 800):
        n = rng.randint(1, 4)
        spatial2 = (n == 2 and rng.random() < 0.6)
        types = ["SPATIAL"] * n if spatial2 or rng.random() < 0.3 else [rng.choice(["SPATIAL", "SPECTRAL", "TIME"]) for _ in range(n)]
        if n == 2 and all(t == "SPATIAL" for t in types):
            spatial2 = True
        w = identity_wcs(n, types)
        all_spatial = all(t == "SPATIAL" for t in types)
        box = []
        for _ in range(n):
            # half-integer limits with even and odd integer part (round-half-even vs half-up differ on the even ones)
            lo = rng.choice([0, -D // 2, rng.randint(0, 3 * D), 5 * D + D // 2, D // 2, 2 * D + D // 2, -D - D // 2])
            box.append((lo, lo + rng.choice([D, 4 * D, rng.randint(1, 5 * D), 3 * D + D // 2, 2 * D, 2 * D + D // 2, 5 * D])))
        bb = tuple((lo / D, hi / D) for lo, hi in box)
        mode = rng.choice(["own", "own-preattached", "arg", "both"])      # both: the WCS has a different box of its own, the one passed in must be used
        own = mode in ("own", "own-preattached")
        center = rng.random() < 0.5
        if mode == "own-preattached":
            w = identity_wcs(n, types, preattached_box=bb)
        elif own:
            w.bounding_box = bb[0] if n == 1 else bb
        elif mode == "both":
            decoy = tuple((40.0 + i, 47.0 + 2 * i) for i in range(n))
            w.bounding_box = decoy[0] if n == 1 else decoy
        if all_spatial and n != 2:
            # _order_clockwise only makes sense for 2 axes; the code applies it to any all-spatial frame
            continue
        try:
            fp = np.asarray(w.footprint(bounding_box=None if own else (bb[0] if n == 1 and False else bb), center=center), dtype=float)
        except Exception as e:  # noqa
            problems.append((f"footprint raised {type(e).__name__}: {e}", {"n": n, "types": types, "box": bb}, None))
            continue
        pts = np.atleast_2d(fp)
        if pts.shape[-1] != n:
            pts = pts.T
        got = [[int(round(v * D)) for v in row] for row in pts]
        # the statement read directly: the corners are the product of the per-axis limits, moved to pixel centres (half up, like every
        # other pixel rounding in gwcs) when centring is requested
        lim = [((math.floor(a + 0.5), math.floor(b + 0.5)) if center else (a, b)) for a, b in bb]
        want_set = sorted(set(itertools.product(*[(float(a), float(b)) for a, b in lim])))
        got_set = sorted(set(tuple(float(v) / D for v in row) for row in got))
        if got_set != want_set:
            problems.append((f"footprint(center={center}) of the identity WCS with box {bb} uses corners {got_set}, the box corners"
                             f"{' moved to pixel centres' if center else ''} are {want_set}", {"n": n, "types": types, "box": bb, "center": center, "box_given": mode}, None))
        terms_f.append(f"({gbool(all_spatial and n == 2)}, {gbool(center)}, " + glist([f"({gz(a)}, {gz(b)})" for a, b in box]) + ", " +
                       glist([gzl(r) for r in got]) + ")")
        meta_f.append((n, types, bb, center, [[v / D for v in r] for r in got]))
        ctx.case(key=("fp", n, tuple(types), tuple(box), center, mode), nontrivial=any(a % D or b % D for a, b in box) or center,
                 kind=f"footprint{n}d/{'spatial' if all_spatial else 'mixed'}",
                 sample={"axes": n, "types": types, "box": bb, "center": center, "box_given": mode, "corners": [[v / D for v in r] for r in got][:4]})
    ff = ctx.coq_failing("fp", HEADER, terms_f,
                         f"(fun c => match c with (sp2, ce, bb, got) => check_corners sp2 ce {D} bb got end)")
    ctx.oblige("correspondence: corner list model (order, centring) = the points footprint feeds to the transform", ff == [],
               "" if ff == [] else str([meta_f[i] for i in (ff or [])[:3]]))
    # ---------- footprint on real WCSs: unmasked forward image, reductions, refusal ---------------------
    for fam in families.all_families(rng):
        if fam.units or fam.name.startswith("cube3d_fixed") or isinstance(fam.w.pipeline[0].frame, str):
            continue
        w = fam.w
        n = fam.n_in
        types = [t.upper() for t in w.output_frame.axes_type]
        all_spatial = all(t == "SPATIAL" for t in types)
        if all_spatial and n != 2:
            continue
        if fam.box is None:
            try:
                w.footprint()
                problems.append((f"{fam.name}: footprint without any bounding box did not refuse", {}, None))
            except TypeError:
                pass
            bb = tuple((0.0, 7.0 + k) for k in range(n))
            kw = {"bounding_box": bb}
        else:
            bb, kw = tuple(fam.box), {}
        for center in (False, True):
            try:
                fp = np.asarray(w.footprint(center=center, **kw), dtype=float)
            except Exception as e:  # noqa
                problems.append((f"{fam.name}: footprint raised {type(e).__name__}: {e}", {}, None))
                continue
            if all_spatial:
                cs = [(bb[0][0], bb[1][0]), (bb[0][0], bb[1][1]), (bb[0][1], bb[1][1]), (bb[0][1], bb[1][0])]
            else:
                cs = list(itertools.product(*bb))
            if center:
                cs = [tuple(math.floor(v + 0.5) for v in c) for c in cs]
            want = np.array([np.atleast_1d(np.asarray(w(*c, with_bounding_box=False), dtype=float)) for c in cs])
            ctx.case(key=("fpw", fam.name, center), nontrivial=True, kind="footprint/family", sample={"family": fam.name, "center": center})
            if n == 1 and fp.ndim == 1:
                fp = fp.reshape(-1, 1)
            if fp.shape != want.shape or not np.allclose(fp, want, rtol=0, atol=1e-12, equal_nan=True):
                problems.append((f"{fam.name}: footprint(center={center}) is not the unmasked forward image of the box corners in documented order",
                                 {"family": fam.name, "box": bb, "center": center}, None))
            # per-type range
            for at in sorted(set(types)):
                try:
                    r = np.asarray(w.footprint(center=center, axis_type=at.lower(), **kw), dtype=float)
                except Exception as e:  # noqa
                    key = "C18/footprint-axis-type-1d" if (n == 1 and isinstance(e, IndexError)) else None
                    problems.append((f"{fam.name}: footprint(axis_type={at.lower()}) raised {type(e).__name__}: {e}",
                                     {"how": "1-D spectral WCS with bounding_box (2, 7): w.footprint(axis_type='spectral')"}, key))
                    continue
                if at == "SPATIAL" and all_spatial:
                    continue
                idx = [i for i, t in enumerate(types) if t == at]
                mm = np.array([(want[:, i].min(), want[:, i].max()) for i in idx])
                flat = np.sort(np.ravel(r))
                if at != "SPATIAL" and not np.allclose(flat, np.sort(np.ravel(mm)), rtol=0, atol=1e-12):
                    problems.append((f"{fam.name}: footprint(axis_type={at.lower()}) = {r.tolist()} is not the min/max range {mm.tolist()}",
                                     {"family": fam.name}, None))
            try:
                w.footprint(axis_type="nosuchtype", **kw)
                problems.append((f"{fam.name}: footprint with an absent axis type did not refuse", {}, None))
            except ValueError:
                pass
    # a spectral axis coupled to both pixel axes with opposite signs: its extremes are NOT at the all-lower / all-upper corners
    import astropy.units as u
    from astropy import coordinates as coord
    from astropy.modeling import models
    from gwcs import wcs as gw, coordinate_frames as cf
    for _ in range(3 if ctx.quick else 40):
        cx, cy = rng.choice([2.0, 1.0, -1.5]), rng.choice([-3.0, -0.5, 4.0])
        sky = (models.Shift(-10) & models.Shift(-12) | models.Scale(1e-3) & models.Scale(1e-3) | models.Pix2Sky_TAN() |
               models.RotateNative2Celestial(30, 40, 180))
        tr = models.Mapping((0, 1, 0, 1)) | sky & models.Polynomial2D(1, c0_0=100.0, c1_0=cx, c0_1=cy)
        det = cf.Frame2D(name="detector")
        out = cf.CompositeFrame([cf.CelestialFrame(reference_frame=coord.ICRS(), axes_order=(0, 1), name="sky"),
                                 cf.SpectralFrame(axes_order=(2,), unit=(u.um,), name="wave")], name="world")
        w3 = gw.WCS([(det, tr), (out, None)])
        bb = ((1.0, 5.0 + rng.randint(0, 4)), (1.0, 3.0 + rng.randint(0, 4)))
        w3.bounding_box = bb
        corners = [(x, y) for x in bb[0] for y in bb[1]]
        lam = [100.0 + cx * x + cy * y for x, y in corners]
        try:
            r = np.sort(np.ravel(np.asarray(w3.footprint(axis_type="spectral"), dtype=float)))
            ctx.case(key=("fp-coupled", cx, cy, bb), nontrivial=True, kind="footprint/coupled-spectral",
                     sample={"lam": f"100 + {cx} x + {cy} y", "box": bb, "range": r.tolist()})
            if not np.allclose(r, [min(lam), max(lam)], rtol=0, atol=1e-9):
                problems.append((f"footprint(axis_type='spectral') of lam = 100 + {cx} x + {cy} y over box {bb} is {r.tolist()}, the range over "
                                 f"the corners is [{min(lam)}, {max(lam)}]", {"cx": cx, "cy": cy, "box": bb}, None))
        except Exception as e:  # noqa
            problems.append((f"footprint(axis_type='spectral') raised {type(e).__name__}: {e}", {"box": bb}, None))
    seen = set()
    for what, rep, key in problems:
        kk = key or what[:40]
        if kk in seen:
            continue
        seen.add(kk)
        ctx.violation("C18 fails on the implementation: " + what, rep, key=key)
    if (fg or ff) and not problems:
        ctx.violation("model and implementation disagree; the oracle found no violated clause", {"grid": fg, "corners": ff}, found_input=False)
