"""C11 — FITS -TAB (and mixed SIP+TAB) export tabulates the WCS exactly at its nodes.

Proof:  coq/theories/C11/Tab.v (rationals): node_exact (the FITS reader's index at the pixel of node k is exactly k+1: the
        tabulated value, no interpolation, for every box and sampling), table_spans_box, index_affine (linear interpolation between
        nodes), degenerate_cdelt, naxis_covers.
Tie:    AST pins + correspondence: NAXISi / CRPIX / CDELT / PVi_3 / table length of every exported header are compared with the
        model evaluated in Coq on dyadic boxes and samplings.
Search: the exported (header, table) is loaded into astropy.wcs.WCS (wcslib) and evaluated at EVERY node and at random
        in-box points against the gwcs WCS; rejection of missing box / bad sampling / more pixel than world axes.
"""
import math
import warnings
from fractions import Fraction as F

import numpy as np

from lib.common import gz, glist
from lib import pins

LEVEL = "proof"
RULE = ("WCSs of 1..3 pixel axes mixing spectral / temporal / generic / celestial axes in several output permutations and separability "
        "patterns; dyadic boxes (integer, offset, fractional) and scalar or per-axis samplings incl. ones that do not divide the box; "
        "every node of every table (exhaustive per case) + random in-box points through wcslib. non-trivial = fractional / offset box "
        "or sampling not dividing the width; distinct = (wcs, box, sampling)")
ASSUMPTIONS = ["wcslib (astropy.wcs) implements the -TAB index formula of Paper III — measured by the node-by-node comparison",
               "PARTIAL: between nodes only agreement within the linear-interpolation error of the sampled function is claimed (tested on "
               "linear / mildly curved axes)"]
PINS = ["gwcs/coordinate_frames.py::_ucd1_to_ctype_name_mapping", "gwcs/coordinate_frames.py::get_ctype_from_ucd", "gwcs/wcs.py::WCS._to_fits_tab", "gwcs/wcs.py::WCS.to_fits_tab", "gwcs/wcs.py::WCS.to_fits", "gwcs/wcs.py::WCS._separable_groups",
        "gwcs/wcs.py::_fix_transform_inputs"]
HEADER = ("From Coq Require Import ZArith QArith List Bool. Import ListNotations. Open Scope Z_scope.\nFrom GW Require Import C11.Tab.\n")
D = 64


def build(rng, kind):
    import astropy.units as u
    from astropy import coordinates as coord
    from astropy.modeling import models
    from astropy.time import Time
    from gwcs import wcs, coordinate_frames as cf
    if kind == "spec1":
        tr = models.Scale(rng.choice([0.5, 2.0, 0.125])) | models.Shift(rng.uniform(1, 5))
        det = cf.CoordinateFrame(1, ("PIXEL",), (0,), unit=(u.pix,), name="detector")
        out = cf.SpectralFrame(axes_order=(0,), unit=(u.um,), name="wave", axes_names=("lambda",))
        return wcs.WCS([(det, tr), (out, None)]), 1, [0]
    if kind == "spec1-curved":
        tr = models.Polynomial1D(2, c0=1.0, c1=0.5, c2=0.001)
        det = cf.CoordinateFrame(1, ("PIXEL",), (0,), unit=(u.pix,), name="detector")
        out = cf.SpectralFrame(axes_order=(0,), unit=(u.um,), name="wave", axes_names=("lambda",))
        return wcs.WCS([(det, tr), (out, None)]), 1, [0]
    if kind == "spec-time":
        tr = (models.Scale(0.5) | models.Shift(2.0)) & (models.Scale(10.0) | models.Shift(100.0))
        det = cf.CoordinateFrame(2, ("PIXEL",) * 2, (0, 1), unit=(u.pix,) * 2, name="detector")
        spec = cf.SpectralFrame(axes_order=(0,), unit=(u.um,), name="wave", axes_names=("lambda",))
        tm = cf.TemporalFrame(Time("2020-01-01T00:00:00"), unit=(u.s,), axes_order=(1,), name="time", axes_names=("t",))
        return wcs.WCS([(det, tr), (cf.CompositeFrame([spec, tm], name="world"), None)]), 2, [0, 1]
    if kind == "coupled2":
        tr = models.Mapping((0, 1, 0, 1)) | models.Polynomial2D(1, c0_0=1, c1_0=0.5, c0_1=0.25) & models.Polynomial2D(1, c0_0=5, c1_0=0.1, c0_1=2.0)
        det = cf.CoordinateFrame(2, ("PIXEL",) * 2, (0, 1), unit=(u.pix,) * 2, name="detector")
        out = cf.CoordinateFrame(2, ("SPECTRAL", "TIME"), (0, 1), unit=(u.um, u.s), name="world", axes_names=("a", "b"),
                                 axis_physical_types=("em.wl", "time"))
        return wcs.WCS([(det, tr), (out, None)]), 2, [0, 1]
    if kind == "degenerate":
        # more world than pixel axes: pixel 0 -> wavelength and frequency, pixel 1 -> time (FITS gets a degenerate third image axis)
        tr = models.Mapping((0, 0, 1)) | ((models.Scale(0.5) | models.Shift(2.0)) & (models.Scale(-3.0) | models.Shift(900.0)) &
                                          (models.Scale(10.0) | models.Shift(100.0)))
        det = cf.CoordinateFrame(2, ("PIXEL",) * 2, (0, 1), unit=(u.pix,) * 2, name="detector")
        spec = cf.SpectralFrame(axes_order=(0,), unit=(u.um,), name="wave", axes_names=("lambda",))
        freq = cf.SpectralFrame(axes_order=(1,), unit=(u.Hz,), name="freq", axes_names=("nu",))
        tm = cf.TemporalFrame(Time("2020-01-01T00:00:00"), unit=(u.s,), axes_order=(2,), name="time", axes_names=("t",))
        return wcs.WCS([(det, tr), (cf.CompositeFrame([spec, freq, tm], name="world"), None)]), 2, [0, 1]
    if kind == "coupled2+spec":
        # two tabulated groups, the first with two coupled world axes: table versions must still be 1, 2
        tr = (models.AffineTransformation2D(matrix=[[0.5, 0.25], [0.1, 2.0]], translation=[1.0, 5.0])
              & (models.Scale(0.5) | models.Shift(2.0)))
        det = cf.CoordinateFrame(3, ("PIXEL",) * 3, (0, 1, 2), unit=(u.pix,) * 3, name="detector")
        gen = cf.CoordinateFrame(2, ("SPATIAL", "SPATIAL"), (0, 1), unit=(u.m, u.m), name="plane", axes_names=("a", "b"),
                                 axis_physical_types=("custom:a", "custom:b"))
        spec = cf.SpectralFrame(axes_order=(2,), unit=(u.um,), name="wave", axes_names=("lambda",))
        return wcs.WCS([(det, tr), (cf.CompositeFrame([gen, spec], name="world"), None)]), 3, [0, 1, 2]
    if kind == "degenerate2":
        # one pixel axis drives three world axes: two degenerate table axes in one group
        tr = models.Mapping((0, 0, 0)) | ((models.Scale(0.5) | models.Shift(2.0)) & (models.Scale(-3.0) | models.Shift(900.0)) &
                                          (models.Scale(10.0) | models.Shift(100.0)))
        det = cf.CoordinateFrame(1, ("PIXEL",), (0,), unit=(u.pix,), name="detector")
        spec = cf.SpectralFrame(axes_order=(0,), unit=(u.um,), name="wave", axes_names=("lambda",))
        freq = cf.SpectralFrame(axes_order=(1,), unit=(u.Hz,), name="freq", axes_names=("nu",))
        tm = cf.TemporalFrame(Time("2020-01-01T00:00:00"), unit=(u.s,), axes_order=(2,), name="time", axes_names=("t",))
        return wcs.WCS([(det, tr), (cf.CompositeFrame([spec, freq, tm], name="world"), None)]), 1, [0]
    # cube: celestial pair (carried by the linear/SIP part in to_fits) + spectral axis
    sky = (models.Shift(-10) & models.Shift(-12) | models.Scale(1e-3) & models.Scale(1e-3) | models.Pix2Sky_TAN() |
           models.RotateNative2Celestial(30, 40, 180))
    tr = sky & (models.Scale(0.5) | models.Shift(2.0))
    det = cf.CoordinateFrame(3, ("PIXEL",) * 3, (0, 1, 2), unit=(u.pix,) * 3, name="detector")
    cel = cf.CelestialFrame(reference_frame=coord.ICRS(), axes_order=(0, 1), name="sky")
    spec = cf.SpectralFrame(axes_order=(2,), unit=(u.um,), name="wave", axes_names=("lambda",))
    return wcs.WCS([(det, tr), (cf.CompositeFrame([cel, spec], name="world"), None)]), 3, [2]


def ctype_correspondence(ctx, rng, problems):
    """_ucd1_to_ctype_name_mapping on astropy's own table and on random tables = Ctype.inv_map (vm_compute), the premises of
    `ctype_maps_back` computed in Coq for the real tables, and the clause on the implementation: the name get_ctype_from_ucd gives
    for a physical type is one astropy maps back to that physical type; unknown types get ''."""
    import logging
    from gwcs import coordinate_frames as cf
    from astropy.wcs.wcsapi.fitswcs import CTYPE_TO_UCD1
    ids = {}

    def I(x):
        return ids.setdefault(x, len(ids) + 1)

    def gd(items):
        return glist([f"({gz(I(k))}, {gz(I(v))})" for k, v in items])
    logging.disable(logging.WARNING)
    try:
        real = cf._ucd1_to_ctype_name_mapping(CTYPE_TO_UCD1, cf._ALLOWED_UCD_DUPLICATES)
        terms = [f"({gd(CTYPE_TO_UCD1.items())}, {gd(cf._ALLOWED_UCD_DUPLICATES.items())}, {gd(real.items())})"]
        meta = [{"table": "astropy CTYPE_TO_UCD1", "entries": len(CTYPE_TO_UCD1), "allowed": dict(cf._ALLOWED_UCD_DUPLICATES)}]
        ctx.case(key="ctype-real", nontrivial=True, kind="ctype-table/astropy", sample={"entries": len(CTYPE_TO_UCD1), "inverted": len(real)})
        if dict(cf.UCD1_TO_CTYPE) != dict(real):
            problems.append(("UCD1_TO_CTYPE is not the inversion of astropy's CTYPE_TO_UCD1 with the allowed duplicates", {}, None))
        for ci in range(60 if ctx.quick else 1500):
            nk, nu = rng.randint(0, 9), rng.randint(1, 5)
            t = {f"K{i}": f"u{rng.randrange(nu)}" for i in rng.sample(range(12), nk)}
            a = {}
            for uu in rng.sample(range(nu + 1), rng.randint(0, 2)):
                cands = [k for k, v in t.items() if v == f"u{uu}"]
                a[f"u{uu}"] = rng.choice(cands) if cands and rng.random() < 0.8 else f"K{rng.randrange(14)}"
            got = cf._ucd1_to_ctype_name_mapping(dict(t), dict(a))
            terms.append(f"({gd(t.items())}, {gd(a.items())}, {gd(got.items())})")
            meta.append({"table": t, "allowed": a, "got": got})
            ctx.case(key=("ctype", tuple(t.items()), tuple(a.items())), nontrivial=len(set(t.values())) < len(t) or bool(a),
                     kind="ctype-table/random", sample={"table": t, "allowed": a, "inverted": got})
    finally:
        logging.disable(logging.NOTSET)
    hdr = "From Coq Require Import ZArith List Bool. Import ListNotations. Open Scope Z_scope.\nFrom GW Require Import C11.Ctype.\n"
    fc = ctx.coq_failing("ctype", hdr, terms, "check_inv")
    ctx.oblige("correspondence: Ctype.inv_map (vm_compute) = _ucd1_to_ctype_name_mapping on astropy's table and on random tables, entry by entry in order",
               fc == [], "" if fc == [] else str([meta[i] for i in (fc or [])[:3]]))
    fp = ctx.coq_failing("ctype_prem", hdr, terms[:1], "(fun c => match c with (t, a, _) => keys_unique t && allowed_consistent t a end)")
    ctx.oblige("premises of ctype_maps_back computed in Coq for astropy's CTYPE_TO_UCD1 and gwcs's allowed duplicates (keys unique, side table consistent)",
               fp == [], "" if fp == [] else "the allowed-duplicates table names a CTYPE that astropy does not map to that physical type")
    # the clause on the implementation, for every physical type astropy knows and for unknown ones
    for ucd in sorted(set(CTYPE_TO_UCD1.values())):
        ct = cf.get_ctype_from_ucd(ucd)
        ctx.case(key=("ctype-back", ucd), nontrivial=True, kind="ctype-maps-back")
        if CTYPE_TO_UCD1.get(ct) != ucd:
            problems.append((f"get_ctype_from_ucd({ucd!r}) = {ct!r}, which astropy maps to {CTYPE_TO_UCD1.get(ct)!r}, not back to {ucd!r}",
                             {"physical_type": ucd, "how": "gwcs.coordinate_frames.get_ctype_from_ucd"}, None))
    for ucd in ("custom:a", "no.such.type", ""):
        if cf.get_ctype_from_ucd(ucd) != "":
            problems.append((f"get_ctype_from_ucd({ucd!r}) = {cf.get_ctype_from_ucd(ucd)!r} for a physical type astropy does not list", {"physical_type": ucd}, None))
    return fc, meta


def run(ctx):
    from astropy import wcs as awcs
    from astropy.io import fits
    ctx.trusted += ["hand model coq/theories/C11/Tab.v; tools/checks/C11.py generators; astropy.wcs/wcslib as the standard reader"]
    ctx.gate()
    ctx.coq_theorems("C11/Tab", ["node_exact", "table_spans_box", "index_affine", "degenerate_cdelt", "naxis_covers", "npix_ge_2"])
    ctx.coq_theorems("C11/TabAxes", ["pc_row_selects_axis", "diagonal_left_in_place_refuted"])
    ctx.coq_theorems("C11/Ctype", ["inv_total", "ctype_maps_back", "unknown_type_gets_empty_name", "ctype_is_designated_or_first",
                                   "one_name_per_type", "ex_table", "ex_premises"])
    pins.check(ctx, PINS)
    rng = ctx.rng
    problems, terms, meta = [], [], []
    terms_pc, meta_pc = [], []
    kinds = ["spec1", "spec1-curved", "spec-time", "coupled2", "cube", "degenerate", "degenerate2", "coupled2+spec"]
    for ci in range(32 if ctx.quick else 400):
        kind = kinds[ci % len(kinds)]
        w, n, tab_axes = build(rng, kind)
        box = []
        for _ in range(n):
            style = rng.choice(["int", "offset", "frac"])
            lo = {"int": 0, "offset": rng.randint(1, 6) * D, "frac": rng.randint(0, 3 * D)}[style]
            hi = lo + rng.choice([rng.randint(3, 12) * D, rng.randint(2 * D, 10 * D)])
            box.append((lo, hi))
        bb = tuple((lo / D, hi / D) for lo, hi in box)
        samp = [rng.choice([D, D, 2 * D, 3 * D, D // 2, D + D // 4]) for _ in range(n)]
        scalar = rng.random() < 0.5
        if scalar:
            samp = [samp[0]] * n
        # the box is either the WCS's own or passed to the exporter (the WCS then has none, or a different one that must be ignored)
        box_as_arg = rng.random() < 0.5
        kwbox = {}
        if box_as_arg:
            kwbox = {"bounding_box": bb[0] if n == 1 else bb}
            if rng.random() < 0.5:
                w.bounding_box = (0.0, 2.0) if n == 1 else tuple((0.0, 2.0 + i) for i in range(n))
        else:
            w.bounding_box = bb[0] if n == 1 else bb
        via_to_fits = kind in ("cube", "degenerate", "coupled2+spec") or rng.random() < 0.4
        try:
            with warnings.catch_warnings():
                warnings.simplefilter("ignore")
                if via_to_fits:
                    hdr, hdus = w.to_fits(sampling=(samp[0] / D if scalar else tuple(s / D for s in samp)), degree=1, **kwbox)
                    hdus = list(hdus)
                else:
                    hdr, hdu = w.to_fits_tab(sampling=(samp[0] / D if scalar else tuple(s / D for s in samp)), **kwbox)
                    hdus = [hdu]
        except Exception as e:  # noqa
            problems.append((f"{kind}: export raised {type(e).__name__}: {str(e)[:150]}", {"kind": kind, "box": bb, "sampling": samp}, None))
            continue
        nontriv = any(lo % D or hi % D for lo, hi in box) or any((hi - lo) % s for (lo, hi), s in zip(box, samp))
        ctx.case(key=(kind, tuple(box), tuple(samp)), nontrivial=nontriv, kind=kind,
                 sample={"wcs": kind, "box": bb, "sampling": [s / D for s in samp], "keywords": {k: hdr[k] for k in list(hdr.keys())[:12]}})
        # ---- table extensions: consecutive versions 1..k, and every -TAB axis points at one of them ----------------------
        vers = [h.header.get("EXTVER") for h in hdus]
        if via_to_fits and sorted(v for v in vers if v is not None) != list(range(1, len(hdus) + 1)):
            problems.append((f"{kind}: the {len(hdus)} table extensions carry versions {vers}, not 1..{len(hdus)}", {"kind": kind, "box": bb}, None))
        for k_ in [int(k[5:]) for k in hdr if k.startswith("CTYPE") and k[5:].isdigit() and str(hdr[k]).endswith("-TAB")]:
            # the axis name is the CTYPE of the declared physical type (astropy's own table maps it back), '' for types astropy does not list
            from astropy.wcs.wcsapi.fitswcs import CTYPE_TO_UCD1
            pt = w.world_axis_physical_types[k_ - 1] if k_ - 1 < len(w.world_axis_physical_types) else None
            name = str(hdr[f"CTYPE{k_}"])[:4].rstrip("-")
            if pt in set(CTYPE_TO_UCD1.values()):
                if CTYPE_TO_UCD1.get(name) != pt:
                    problems.append((f"{kind}: CTYPE{k_} = {hdr[f'CTYPE{k_}']!r} for a world axis of physical type {pt!r} (astropy maps {name!r} to "
                                     f"{CTYPE_TO_UCD1.get(name)!r})", {"kind": kind, "box": bb}, None))
            elif name != "":
                problems.append((f"{kind}: CTYPE{k_} = {hdr[f'CTYPE{k_}']!r} for a world axis of physical type {pt!r}, which astropy does not list",
                                 {"kind": kind, "box": bb}, None))
            pv1 = hdr.get(f"PV{k_}_1")
            if via_to_fits and (pv1 is None or int(pv1) not in [v for v in vers if v is not None]):
                problems.append((f"{kind}: PV{k_}_1 = {pv1} names no table extension (versions {vers})", {"kind": kind, "box": bb}, None))
        # ---- header bookkeeping vs the model (tabulated axes) ------------------------------------------
        for iax in (range(n) if kind != "cube" else [2]):
            lo, hi = box[iax]
            s = samp[iax]
            key_naxis = f"NAXIS{iax + 1}"
            naxis = hdr.get(key_naxis)
            crpix = hdr.get(f"CRPIX{iax + 1}")
            if naxis is None or crpix is None:
                problems.append((f"{kind}: header lacks {key_naxis}/CRPIX{iax + 1}", {"box": bb}, None))
                continue
            # world axis tabulated along this pixel axis (separable cases): same number here
            k1 = iax + 1
            cdelt = hdr.get(f"CDELT{k1}")
            # number of nodes from the table extension
            npts = None
            for h in hdus:
                shp = h.data["coordinates"].shape if "coordinates" in h.data.names else None
                if shp is not None:
                    npts = shp
            want_np = max(2, 1 + math.ceil(abs((hi - lo) / s)))
            terms.append(f"({gz(lo)}, {gz(hi)}, {gz(s)}, {gz(int(naxis))}, {gz(int(round(crpix * D)))}, {gz(want_np)})")
            meta.append((kind, iax, bb, samp, naxis, crpix))
            if cdelt is not None and kind in ("spec1", "spec1-curved", "spec-time"):
                want = float(F(want_np - 1) / F(hi - lo, D))
                if abs(cdelt - want) > 1e-12 * abs(want):
                    problems.append((f"{kind}: CDELT{k1} = {cdelt}, expected (npix-1)/(hi-lo) = {want} for box {bb[iax]}, sampling {s / D}",
                                     {"box": bb, "sampling": [x / D for x in samp]}, None))
            if int(naxis) != int(max(bb[iax])) + 1:
                problems.append((f"{kind}: NAXIS{iax + 1} = {naxis} does not match the bounding box {bb} (expected {int(max(bb[iax])) + 1})",
                                 {"box": bb, "how": "w.to_fits_tab()[0]"}, "C11/tab-naxis-index" if int(naxis) == int(max(bb[0])) + 1 else None))
        # ---- PC row of every tabulated world axis vs TabAxes.v ---------------------------------------------------
        expect_axes = {"spec1": [(1, 1)], "spec1-curved": [(1, 1)], "spec-time": [(1, 1), (2, 2)], "coupled2": [(1, 1), (2, 2)],
                       "cube": [(3, 3)], "degenerate": [(1, 1), (2, 3), (3, 2)],
                       "degenerate2": [(1, 1), (2, 2), (3, 3)], "coupled2+spec": [(3, 3)]}[kind]       # (FITS world axis k1, image axis m1 it is read along)
        if not any(k.startswith("CD") and "_" in k for k in hdr):
            nfits = max([int(k[5:]) for k in hdr if k.startswith("CTYPE") and k[5:].isdigit()] + [m for _, m in expect_axes])
            for k1, m1 in expect_axes:
                row = [hdr.get(f"PC{k1}_{j}", 1.0 if j == k1 else 0.0) for j in range(1, nfits + 1)]
                terms_pc.append(f"({gz(nfits)}, {gz(k1)}, {gz(m1)}, {glist([gz(int(v)) for v in row])}, {'true' if all(float(v) == int(v) for v in row) else 'false'})")
                meta_pc.append((kind, k1, m1, row))
                if not str(hdr.get(f"CTYPE{k1}", "")).endswith("-TAB"):
                    problems.append((f"{kind}: CTYPE{k1} = {hdr.get(f'CTYPE{k1}')!r} is not a -TAB axis", {"kind": kind, "box": bb}, None))
        # ---- the standard reader reproduces the WCS at every node and in between -----------------------------
        try:
            hl = fits.HDUList([fits.PrimaryHDU(header=hdr)] + list(hdus))
            with warnings.catch_warnings():
                warnings.simplefilter("ignore")
                fw = awcs.WCS(hdr, hl)
        except Exception as e:  # noqa
            problems.append((f"{kind}: astropy.wcs could not load the exported header/table: {type(e).__name__}: {str(e)[:120]}", {"box": bb}, None))
            continue
        grids = []
        for (lo, hi), s in zip(box, samp):
            npix = max(2, 1 + math.ceil(abs((hi - lo) / s)))
            grids.append(np.linspace(lo / D, hi / D, npix))
        if kind == "cube":
            pts = [(15.0, 14.0, g) for g in grids[2]] + [(rng.uniform(*bb[0]), rng.uniform(*bb[1]), rng.uniform(*bb[2])) for _ in range(5)]
        else:
            mesh = np.meshgrid(*grids, indexing="ij")
            pts = list(zip(*[m.ravel() for m in mesh]))
            if len(pts) > 400:
                pts = rng.sample(pts, 400)
            nnode = len(pts)
            pts += [tuple(rng.uniform(*b) for b in bb) for _ in range(10)]
        worst = 0.0
        for pi, p in enumerate(pts):
            try:
                with warnings.catch_warnings():
                    warnings.simplefilter("ignore")
                    pp = list(p) + [0.0] * (fw.wcs.naxis - len(p))        # degenerate image axes sit at their only pixel
                    got = np.atleast_1d(np.asarray(fw.all_pix2world(*[[v] for v in pp], 0), dtype=float)).ravel()
                want = np.atleast_1d(np.asarray(w(*p, with_bounding_box=False), dtype=float)).ravel()
            except Exception as e:  # noqa
                problems.append((f"{kind}: evaluating the exported FITS WCS raised {type(e).__name__}: {str(e)[:100]}", {"box": bb}, None))
                break
            is_node = kind != "cube" and pi < nnode or (kind == "cube" and pi < len(grids[2]))
            axes = range(len(want)) if kind != "cube" else [2]
            for i in axes:
                scale = max(1.0, abs(want[i]))
                if is_node or kind != "spec1-curved":
                    tol = 1e-9 * scale
                else:       # linear-interpolation error bound h^2/8 * max|f''| of the sampled function (f'' = 0.002)
                    lo_c, hi_c = bb[0]
                    h_c = (hi_c - lo_c) / (max(2, 1 + math.ceil(abs((hi_c - lo_c) / (samp[0] / D)))) - 1)
                    tol = h_c * h_c / 8 * 0.002 * (1 + 1e-6) + 1e-9
                err = abs(got[i] - want[i])
                worst = max(worst, err / scale)
                if not err <= tol:
                    problems.append((f"{kind}: the FITS reader gives {got[i]} for world axis {i} at pixel {tuple(round(v, 4) for v in p)} "
                                     f"({'a tabulated node' if is_node else 'between nodes'}), the WCS gives {want[i]} (box {bb}, sampling {[x / D for x in samp]})",
                                     {"kind": kind, "box": bb, "sampling": [x / D for x in samp], "pixel": list(p)}, None))
                    break
            else:
                continue
            break
    fctype, meta_ctype = ctype_correspondence(ctx, rng, problems)
    # rejections
    import astropy.units as u
    w, n, _ = build(rng, "spec-time")
    for what, fn in (("missing bounding box", lambda: w.to_fits_tab()),):
        try:
            fn()
            problems.append((f"to_fits_tab accepted a {what}", {}, None))
        except (ValueError, RuntimeError, TypeError):
            pass
    w.bounding_box = ((0, 5), (0, 6))
    try:
        w.to_fits_tab(sampling=(1, 2, 3))
        problems.append(("to_fits_tab accepted a sampling tuple of the wrong length", {}, None))
    except ValueError:
        pass
    fail = ctx.coq_failing("hdr", HEADER + f"Definition D := {D}%Z.\n", terms,
                           "(fun c => match c with (lo, hi, s, naxis, crpix, np) => "
                           "(Tab.naxis (lo # 64) (hi # 64) =? naxis) && (crpix =? lo + D) && "
                           "(Tab.npix (lo # 64) (hi # 64) (s # 64) =? np) end)")
    ctx.oblige("correspondence: NAXISi / CRPIXi / number of nodes of every exported header = model (exact rationals, in Coq)", fail == [],
               "" if fail == [] else str([meta[i] for i in (fail or [])[:3]]))
    failpc = ctx.coq_failing("pcrow", "From Coq Require Import ZArith List Bool. Import ListNotations. Open Scope Z_scope.\nFrom GW Require Import C11.TabAxes.\n",
                             terms_pc, "(fun c => let '(n, k1, m1, row, ints) := c in ints && "
                             "(fix eq (a b : list Z) := match a, b with [], [] => true | x :: r, y :: s => (x =? y) && eq r s | _, _ => false end) "
                             "(pc_row_list n k1 m1) row)")
    ctx.oblige("correspondence: PC row of every tabulated world axis = unit vector of its image axis (TabAxes.v)", failpc == [],
               "" if failpc == [] else str([meta_pc[i] for i in (failpc or [])[:3]]))
    seen = set()
    for what, rep, key in problems:
        kk = key or what[:50]
        if kk in seen:
            continue
        seen.add(kk)
        ctx.violation("C11 fails on the implementation: " + what, rep, key=key)
    if fctype and not problems:
        ctx.violation("correspondence Ctype.inv_map = _ucd1_to_ctype_name_mapping no longer checks (theorems ctype_maps_back, one_name_per_type are about "
                      "the old inversion); every physical type astropy lists still gets a CTYPE that maps back to it on the implementation",
                      {"correspondence": "C11/Ctype.check_inv", "first": str(meta_ctype[fctype[0]])[:400]}, found_input=False)
    if fail and not problems:
        ctx.violation("model and exported header disagree; the reader-based oracle found no violated clause", {"first": [str(meta[i]) for i in fail[:3]]},
                      found_input=False)
    ctx.extra["exhaustive_per_case"] = "every node of every exported table is evaluated through wcslib"
