"""C13 — the APE-14 low-level interface is a faithful, self-consistent view of the WCS.

Proof:  coq/dyn/C13/ApiProofs.v over Gen_api.v REGENERATED each run from gwcs/api.py (array_index_to_world_values,
        world_to_array_index_values, world_to_array_index, array_shape / pixel_shape getters and setters), plus
        coq/theories/C13/Toindex.v (utils._toindex: nearest pixel centre, ties up; binary64 instance swept).
Tie:    translator + correspondence (the regenerated code is run inside Coq on the same shape-assignment histories
        and on the same exact (1/8-pixel) points as the implementation).
Search: direct property oracle on the generated WCS families.
"""
import numpy as np

from lib.common import gz, gzl, glist, gbool
from lib import pipes, families

LEVEL = "proof"
RULE = ("(a) histories of pixel_shape/array_shape assignments (valid, wrong length, None) on 1..4-D WCSs; (b) exact points in 1/8 px "
        "through integer-affine WCSs of 1..4 axes: index variants and rounding; (c) oracle over generated families (composite frames, "
        "unit transforms, boxes, fix_inputs-derived): values = call/invert, reversal, dims, bounds, separability probing. "
        "non-trivial = history with an accepted and a rejected assignment / point with a fractional part; distinct by content")
ASSUMPTIONS = [
    "astropy.modeling.separable.separability_matrix is external (axis_correlation_matrix forwards it): modelled by hand in C13/Separable.v (proved sound there), tied by entry-by-entry correspondence on random compound transforms and probed dynamically",
    "pixel_to_world_values / world_to_pixel_values / invert are Section variables of the regenerated wrappers (their own unit handling: C16)",
]
THEOREMS = ["C13_array_index_to_world_is_rev", "C13_world_to_array_index_values_spec", "C13_world_to_array_index_spec",
            "C13_array_shape_after_any_history", "C13_last_array_shape_wins", "C13_pixel_shape_wrong_len_rejected",
            "C13_array_shape_wrong_len_rejected", "C13_shape_ok_after_any_history",
            "C13_set_pixel_shape_spec", "C13_nonvacuous"]
HEADER = ("From Coq Require Import ZArith List Bool. Import ListNotations. Open Scope Z_scope.\n"
          "From GW Require Import Base.Py Base.Api.\nFrom WC13 Require Import Gen_api ApiProofs Sem ApiCases.\n")

CASES_V = r"""
From Coq Require Import ZArith List Bool. Import ListNotations. Open Scope Z_scope.
From GW Require Import Base.Py Base.Api.
From WC13 Require Import Gen_api ApiProofs Sem.

Definition olist_eqb (a b : option (list Z)) : bool :=
  match a, b with None, None => true | Some x, Some y => list_eqb x y | _, _ => false end.
Definition oerr_eqb (a b : option err) : bool :=
  match a, b with None, None => true | Some x, Some y => err_eqb x y | _, _ => false end.
Definition get_ok {A} (r : res (option A)) : option A := match r with Ok x => x | Err _ => None end.

(* shape histories: after every assignment compare status, pixel_shape, array_shape *)
Fixpoint check_hist (a : api) (ops : list (sop * (option err * option (list Z) * option (list Z)))) : bool :=
  match ops with
  | [] => true
  | (o, (st, ps, ash)) :: r =>
      let res := step_sop a o in
      let a' := st_of res in
      oerr_eqb (match res with MOk _ => None | MErr _ e => Some e end) st &&
      olist_eqb (get_ok (a_pixel_shape a')) ps && olist_eqb (get_ok (a_array_shape a')) ash &&
      check_hist a' r
  end.

(* index variants on an integer-affine WCS, coordinates in 1/8 pixel *)
Definition toindex8 (v : Z) : Z := (v + 4) / 8.
Definition res_eqb (r : res (list Z)) (e : list Z) : bool := match r with Ok l => list_eqb l e | Err _ => false end.
Definition check_index (n : Z) (d : leafdef) (idx world : list Z) (e_fwd e_idx_values e_idx : list Z) : bool :=
  let a := {| pixel_shape_ := None; naxes_in := n |} in
  let p2w := fun (_ : api) x => Ok (apply_leaf d x) in
  let w2p := fun (_ : api) y => Ok (apply_leaf_inv d y) in
  res_eqb (a_array_index_to_world_values Z p2w a idx) e_fwd &&
  res_eqb (a_world_to_array_index_values Z w2p toindex8 a world) e_idx_values &&
  res_eqb (a_world_to_array_index Z w2p toindex8 a world) e_idx.
"""


def shape_history(rng, w, n):
    """run a random assignment history on the implementation; returns (coq ops term, flags, problems)"""
    ops, flags, problems = [], [], []
    for _ in range(rng.randint(1, 8)):
        r = rng.random()
        which = rng.choice(["pixel_shape", "array_shape"])
        if r < 0.15:
            val = None
        elif r < 0.75:
            val = tuple(rng.randint(1, 50) for _ in range(n))
        elif r < 0.82:
            val = rng.choice([(), []])          # an empty shape is a wrong length too, not a way of clearing the shape
        else:
            val = tuple(rng.randint(1, 50) for _ in range(n + rng.choice([-1, 1]) if n > 1 else n + 1))
        before = (w.pixel_shape, w.array_shape)
        try:
            setattr(w, which, val)
            st = None
        except Exception as e:  # noqa
            st = pipes.errkind(e)
        ps, ash = w.pixel_shape, w.array_shape
        # oracle
        if (ps is None) != (ash is None) or (ps is not None and tuple(ash) != tuple(ps)[::-1]):
            problems.append(f"array_shape {ash} is not pixel_shape {ps} reversed after {which} = {val}")
        if st is not None and (ps, ash) != before:
            problems.append(f"rejected {which} = {val} changed the shapes")
        if val is not None and len(val) != n and st is None:
            problems.append(f"{which} of wrong length {val!r} accepted for {n} pixel axes (shapes now {ps} / {ash})")
        if st is None and val is not None and which == "array_shape" and tuple(ash) != tuple(val):
            problems.append("array_shape does not read back what was assigned")
        cval = "None" if val is None else f"(Some {gzl(val)})"
        cop = f"{'SetPix' if which == 'pixel_shape' else 'SetArr'} {cval}"
        cst = "None" if st is None else f"(Some {st})"
        cps = "None" if ps is None else f"(Some {gzl(ps)})"
        cas = "None" if ash is None else f"(Some {gzl(ash)})"
        ops.append(f"({cop}, ({cst}, {cps}, {cas}))")
        flags.append(st is None)
    return glist(ops), flags, problems


def oracle_family(ctx, fam, rng, problems):
    w = fam.w
    n_in, n_out = fam.n_in, fam.n_out
    name = fam.name
    ft = w.forward_transform
    if w.pixel_n_dim != ft.n_inputs or w.world_n_dim != ft.n_outputs:
        key = "C13/fix-inputs-pixel-n-dim" if (name.startswith("cube3d_fixed") and w.pixel_n_dim == ft.n_inputs + 1
                                               and w.world_n_dim == ft.n_outputs) else None
        problems.append((f"{name}: pixel_n_dim/world_n_dim {w.pixel_n_dim}/{w.world_n_dim} != transform {ft.n_inputs}/{ft.n_outputs}",
                         {"how": "w = cube.fix_inputs({2: 5.0}); w.pixel_n_dim vs w.forward_transform.n_inputs"}, key))
    # pixel_bounds is the bounding box
    pb = w.pixel_bounds
    if fam.box is None:
        if pb is not None and w.bounding_box is None:
            problems.append((f"{name}: pixel_bounds {pb} without a bounding box", {}))
        # ... also when the image size is known: pixel_bounds is the bounding box, not the data extent
        if w.bounding_box is None and not isinstance(w.pipeline[0].frame, str) and not name.startswith("cube3d_fixed"):
            old_shape = w.pixel_shape
            try:
                w.pixel_shape = tuple(7 + k for k in range(w.pixel_n_dim))
                pb2 = w.pixel_bounds
                if pb2 is not None:
                    problems.append((f"{name}: pixel_bounds is {pb2} although no bounding box is set (pixel_shape {w.pixel_shape})",
                                     {"pixel_shape": list(w.pixel_shape)}))
            finally:
                w.pixel_shape = old_shape
    else:
        if pb is None or [tuple(map(float, b)) for b in pb] != [tuple(map(float, b)) for b in fam.box]:
            problems.append((f"{name}: pixel_bounds {pb} != bounding box {fam.box}", {}))
    for probe in range(5):
        pt = families.random_point(rng, fam)
        pt = [p + rng.choice([0.0, 0.25, 0.5, -0.375]) for p in pt] if not fam.exact else pt
        if probe == 4:
            if not fam.box:
                continue
            # a point outside the box on one axis: the values interface must mask it exactly like plain evaluation
            k = rng.randrange(len(pt))
            pt[k] = float(fam.box[k][1]) + rng.choice([1.0, 7.5, 1000.0]) if rng.random() < 0.5 else float(fam.box[k][0]) - rng.choice([1.0, 7.5])
        arr = rng.random() < 0.4 and not name.startswith("cube3d_fixed")   # astropy fix_inputs returns mixed shapes
        args = [np.array([p, p + 1.0, p - 2.0]) for p in pt] if arr else pt
        try:
            v = np.atleast_1d(np.asarray(w.pixel_to_world_values(*args), dtype=float))
            if fam.units:
                import astropy.units as u
                qargs = [u.Quantity(a, un) for a, un in zip(args, w.input_frame.unit)]
                direct = w(*qargs)
                direct = direct if isinstance(direct, tuple) else (direct,)
                direct = np.atleast_1d(np.asarray([d.to_value(un) for d, un in zip(direct, w.output_frame.unit)], dtype=float))
            else:
                direct = np.atleast_1d(np.asarray(w(*args), dtype=float))
            if not np.array_equal(v.reshape(direct.shape), direct, equal_nan=True):
                problems.append((f"{name}: pixel_to_world_values differs from plain evaluation at {pt}", {"point": pt}))
            rv = np.atleast_1d(np.asarray(w.array_index_to_world_values(*args[::-1]), dtype=float))
            if not np.array_equal(rv, v, equal_nan=True):
                problems.append((f"{name}: array_index_to_world_values(reversed) differs from pixel_to_world_values at {pt}", {"point": pt}))
        except Exception as e:  # noqa
            problems.append((f"{name}: forward values interface raised {type(e).__name__}: {e}", {"point": pt}))
            continue
        ctx.case(key=(name, tuple(pt), arr), nontrivial=True, kind="family/" + name,
                 sample={"family": name, "pixel": pt, "array_input": arr})
        if probe == 4 or not fam.analytic_inverse or name.startswith("cube3d_fixed"):
            continue
        try:
            world = list(v) if n_out > 1 else [v if arr else v[0]]
            if n_out > 1 and not arr:
                world = [float(x) for x in v]
            elif n_out > 1:
                world = [v[k] for k in range(n_out)]
            p = w.world_to_pixel_values(*world)
            pl = list(p) if n_in > 1 else [p]
            if fam.units:
                import astropy.units as u
                inv = w.invert(*[u.Quantity(x, un) for x, un in zip(world, w.output_frame.unit)])
                inv = inv if isinstance(inv, tuple) else (inv,)
                invl = [np.asarray(getattr(q, "value", q), dtype=float) for q in inv]
            else:
                inv = w.invert(*world)
                invl = list(inv) if n_in > 1 else [inv]
            if not all(np.array_equal(np.asarray(a, dtype=float), np.asarray(b, dtype=float), equal_nan=True) for a, b in zip(pl, invl)):
                problems.append((f"{name}: world_to_pixel_values differs from plain inversion at world {world}", {"world": str(world)}))
            ai = w.world_to_array_index_values(*world)
            ail = list(ai) if n_in > 1 else [ai]
            want = [np.asarray(np.floor(np.asarray(x, dtype=float) + 0.5), dtype=int) for x in (pl[::-1] if n_in > 1 else pl)]
            ok = all(np.issubdtype(np.asarray(a).dtype, np.integer) and np.array_equal(np.asarray(a), b) for a, b in zip(ail, want)
                     if np.all(np.isfinite(np.asarray(pl[0], dtype=float))))
            if not ok:
                problems.append((f"{name}: world_to_array_index_values {ail} is not the reversed, rounded (half up) integer pixel {pl}",
                                 {"world": str(world)}))
        except Exception as e:  # noqa
            problems.append((f"{name}: inverse values interface raised {type(e).__name__}: {e}", {"point": pt}))
    # separability probing
    try:
        M = np.asarray(w.axis_correlation_matrix)
        pt = families.random_point(rng, fam)
        base = np.atleast_1d(np.asarray(w.pixel_to_world_values(*pt), dtype=float))
        for j in range(n_in):
            q = list(pt)
            q[j] += 1.0 if fam.box is None else (0.5 if q[j] + 0.5 <= fam.box[j][1] else -0.5)
            out = np.atleast_1d(np.asarray(w.pixel_to_world_values(*q), dtype=float))
            for i in range(n_out):
                if not M[i][j] and out[i] != base[i] and not (np.isnan(out[i]) and np.isnan(base[i])):
                    problems.append((f"{name}: correlation matrix says world {i} is independent of pixel {j} but it changed", {"point": pt}))
    except Exception as e:  # noqa
        if name.startswith("cube3d_fixed") and isinstance(e, AttributeError):
            ctx.notes.append("astropy separability_matrix raises AttributeError on fix_inputs compounds (astropy defect; premise of the clause never met)")
        else:
            problems.append((f"{name}: axis_correlation_matrix probing raised {type(e).__name__}: {e}", {}))


def separability_after_edits(ctx, rng, problems):
    """the correlation matrix must be sound for the WCS as it is NOW: it is read, the pipeline is edited so that axes become coupled
    (or uncoupled), and the matrix read again must still never claim an independence that evaluation contradicts"""
    import astropy.units as u
    from astropy.modeling import models
    from gwcs import wcs, coordinate_frames as cf
    for k in range(6 if ctx.quick else 40):
        n = 2 if k % 3 else 3
        sh, sc = models.Shift(1.0), models.Scale(2.0)
        for i in range(1, n):
            sh, sc = sh & models.Shift(float(i + 1)), sc & models.Scale(0.5 * (i + 2))
        det = cf.CoordinateFrame(n, ("PIXEL",) * n, tuple(range(n)), unit=(u.pix,) * n, name="detector")
        mid = cf.CoordinateFrame(n, ("SPATIAL",) * n, tuple(range(n)), unit=(u.mm,) * n, name="focal")
        out = cf.CoordinateFrame(n, ("SPATIAL",) * n, tuple(range(n)), unit=(u.m,) * n, name="world")
        w = wcs.WCS([(det, sh), (mid, sc), (out, None)])
        hist = []
        for step in range(rng.randint(1, 3)):
            M0 = np.asarray(w.axis_correlation_matrix)               # read before the edit
            e = rng.choice(["rotate-before", "rotate-after", "swap", "set-coupled"])
            rot = (models.Rotation2D(rng.choice([30.0, 60.0])) if n == 2 else
                   models.Rotation2D(rng.choice([30.0, 60.0])) & models.Identity(1))
            if e == "rotate-before":
                w.insert_transform("focal", rot, after=False)
            elif e == "rotate-after":
                w.insert_transform("focal", rot, after=True)
            elif e == "swap":
                w.insert_transform("world", models.Mapping(tuple(range(n))[::-1]), after=False)
            else:
                w.set_transform("detector", "focal", rot | sh)
            hist.append(e)
            M = np.asarray(w.axis_correlation_matrix)
            pt = [rng.uniform(1, 9) for _ in range(n)]
            base = np.atleast_1d(np.asarray(w.pixel_to_world_values(*pt), dtype=float))
            ctx.case(key=("sep-edit", k, tuple(hist)), nontrivial=True, kind="separability-after-edit", sample={"axes": n, "edits": list(hist)})
            for j in range(n):
                q = list(pt)
                q[j] += 1.0
                o = np.atleast_1d(np.asarray(w.pixel_to_world_values(*q), dtype=float))
                for i in range(n):
                    if not M[i][j] and o[i] != base[i]:
                        problems.append((f"after {hist} (matrix read before each edit) axis_correlation_matrix {M.tolist()} says world {i} is independent "
                                         f"of pixel {j}, but moving pixel {j} from {pt} by 1 changes world {i} from {base[i]} to {o[i]}",
                                         {"axes": n, "edits": list(hist), "point": pt}))
                        return


SEP_HEADER = ("From Coq Require Import ZArith List Bool. Import ListNotations.\n"
              "From GW Require Import C13.Separable.\n")


def _sep_gen(rng, nin, depth):
    """random compound transform with `nin` inputs: (astropy model, Gallina term, n_outputs, exact, leaves).
    exact = every leaf is integer-valued, so that Coq's `eval` can be compared with the implementation's evaluation."""
    from astropy.modeling import models as M
    from gwcs import geometry as G

    def leaf(n):
        if n == 1:
            c = rng.random()
            k = rng.randint(-4, 4)
            if c < 0.35:
                return M.Shift(k), f"(shift ({k})%Z)", 1, True, 1
            if c < 0.65:
                return M.Scale(k), f"(scale ({k})%Z)", 1, True, 1
            if c < 0.85:
                m = [0] * rng.randint(1, 3)
                return M.Mapping(tuple(m), n_inputs=1), "(Map 1 [" + "; ".join("0" for _ in m) + "]%nat)", len(m), True, 1
            return M.Polynomial1D(2, c0=1.5, c1=0.25, c2=0.125), "(sepn 1)", 1, False, 1
        if n == 2:
            c = rng.random()
            if c < 0.3:
                a, b, cc, d, e, f = (rng.randint(-3, 3) for _ in range(6))
                return (M.AffineTransformation2D(matrix=[[a, b], [cc, d]], translation=[e, f]),
                        f"(aff2 ({a})%Z ({b})%Z ({cc})%Z ({d})%Z ({e})%Z ({f})%Z)", 2, True, 1)
            if c < 0.5:
                a, b, cc = (rng.randint(-3, 3) for _ in range(3))
                return M.Polynomial2D(1, c0_0=a, c1_0=b, c0_1=cc), f"(poly21 ({a})%Z ({b})%Z ({cc})%Z)", 1, True, 1
            if c < 0.6:
                return M.Rotation2D(33.0), "(mixn 2 2)", 2, False, 1
            if c < 0.7:
                return M.Pix2Sky_TAN(), "(mixn 2 2)", 2, False, 1
            if c < 0.8:
                return G.SphericalToCartesian(), "(mixn 2 3)", 3, False, 1
        if n == 3 and rng.random() < 0.3:
            return G.CartesianToSpherical(), "(mixn 3 2)", 2, False, 1
        if n == 3 and rng.random() < 0.15:
            return M.RotationSequence3D([10.0, 20.0], "zx"), "(mixn 3 3)", 3, False, 1
        if rng.random() < 0.15:
            return M.Identity(n), f"(Map {n} [" + "; ".join(str(i) for i in range(n)) + "]%nat)", n, True, 1
        m = [rng.randrange(n) for _ in range(rng.randint(1, 4))]
        return M.Mapping(tuple(m), n_inputs=n), f"(Map {n} [" + "; ".join(map(str, m)) + "]%nat)", len(m), True, 1

    if depth <= 0:
        if nin >= 2 and rng.random() < 0.6:
            k = rng.randint(1, nin - 1)
            a, b = _sep_gen(rng, k, 0), _sep_gen(rng, nin - k, 0)
            return a[0] & b[0], f"(Par {a[1]} {b[1]})", a[2] + b[2], a[3] and b[3], a[4] + b[4]
        return leaf(nin)
    c = rng.random()
    if c < 0.45:
        a = _sep_gen(rng, nin, depth - 1)
        b = _sep_gen(rng, a[2], depth - 1)
        return a[0] | b[0], f"(Comp {a[1]} {b[1]})", b[2], a[3] and b[3], a[4] + b[4]
    if c < 0.8 and nin >= 2:
        k = rng.randint(1, nin - 1)
        a, b = _sep_gen(rng, k, depth - 1), _sep_gen(rng, nin - k, depth - 1)
        return a[0] & b[0], f"(Par {a[1]} {b[1]})", a[2] + b[2], a[3] and b[3], a[4] + b[4]
    if c < 0.9:
        a = _sep_gen(rng, nin, depth - 1)
        if a[3]:
            op = rng.choice(["add", "sub", "mul"])
            b = _sep_gen(rng, nin, depth - 1)
            if b[2] == a[2] and b[3]:
                mod = {"add": a[0] + b[0], "sub": a[0] - b[0], "mul": a[0] * b[0]}[op]
                return mod, f"(Arith Z.{op} {a[1]} {b[1]})", a[2], True, a[4] + b[4]
        return a
    return _sep_gen(rng, nin, depth - 1)


def separability_correspondence(ctx, rng):
    """axis_correlation_matrix of WCSs over random compound transforms = `depmat` of the Coq model (entry by entry);
    for integer-valued transforms also `eval` = the implementation's forward evaluation, and the dynamic clause itself:
    moving a pixel coordinate marked False leaves the world coordinate unchanged."""
    import warnings
    from gwcs import wcs as gw
    terms, meta, problems = [], [], []
    n_cases = 120 if ctx.quick else 2500
    tries = 0
    while len(terms) < n_cases and tries < 20 * n_cases:
        tries += 1
        nin = rng.choice([1, 2, 2, 3, 3, 4])
        try:
            model, term, nout, exact, nleaf = _sep_gen(rng, nin, rng.randint(0, 3))
        except Exception:   # noqa  (astropy refuses the combination at construction: not a case)
            continue
        if nout > 6 or nleaf > 12:
            continue
        split = getattr(model, "op", None) == "|" and rng.random() < 0.5
        try:
            if split:
                w = gw.WCS([("detector", model.left), ("mid", model.right), ("world", None)])
            else:
                w = gw.WCS(forward_transform=model, input_frame="detector", output_frame="world")
            with warnings.catch_warnings():
                warnings.simplefilter("ignore")
                Mx = np.asarray(w.axis_correlation_matrix)
        except Exception as e:  # noqa
            problems.append((f"axis_correlation_matrix raised {type(e).__name__}: {e} for {term}", {"transform": term}))
            continue
        if Mx.shape != (nout, nin) or Mx.dtype != np.bool_:
            problems.append((f"axis_correlation_matrix has shape {Mx.shape} / dtype {Mx.dtype}, expected bool ({nout}, {nin}) for {term}",
                             {"transform": term}))
            continue
        pts = []
        for _ in range(3):
            x = [rng.randint(-5, 5) for _ in range(nin)]
            with warnings.catch_warnings():
                warnings.simplefilter("ignore")
                try:
                    y = np.atleast_1d(np.asarray(w(*map(float, x), with_bounding_box=False), dtype=float)).ravel()
                except Exception as e:  # noqa
                    problems.append((f"forward evaluation raised {type(e).__name__}: {e} for {term}", {"transform": term, "point": x}))
                    break
                # the clause on the implementation: a False entry means moving that pixel coordinate changes nothing
                for j in range(nin):
                    q = list(map(float, x))
                    q[j] += rng.choice([1.0, -2.0, 0.5])
                    y2 = np.atleast_1d(np.asarray(w(*q, with_bounding_box=False), dtype=float)).ravel()
                    for i in range(nout):
                        if not Mx[i][j] and y2[i] != y[i] and not (np.isnan(y2[i]) and np.isnan(y[i])):
                            problems.append((f"axis_correlation_matrix {Mx.tolist()} of {term} says world {i} is independent of pixel {j}, but moving "
                                             f"pixel {j} from {x} to {q[j]} changes world {i} from {y[i]} to {y2[i]}",
                                             {"transform": term, "point": x, "pixel_axis": j, "world_axis": i}))
            if exact and np.all(np.isfinite(y)) and np.all(y == np.round(y)) and np.all(np.abs(y) < 2 ** 50):
                pts.append((x, [int(v) for v in y]))
        gm = glist([glist([gbool(bool(v)) for v in row]) for row in Mx])
        gp = glist([f"({gzl(x)}, {gzl(y)})" for x, y in pts])
        terms.append(f"({term}, {gm}, {gp})")
        meta.append({"transform": term, "matrix": Mx.astype(int).tolist(), "points": pts[:1], "pipeline_steps": 2 if split else 1})
        ctx.case(key=("sepmat", term), nontrivial=(not Mx.all()) or nleaf >= 3,
                 kind=f"correlation-matrix/{nin}in/{'exact' if exact else 'shape-only'}",
                 sample={"transform": term, "matrix": Mx.astype(int).tolist(), "eval_points": len(pts)})
    fs = ctx.coq_failing("sepmat", SEP_HEADER, terms, "check_case", label="WC13")
    ctx.oblige("correspondence: Separable.depmat / eval (vm_compute) = axis_correlation_matrix / forward evaluation on random compound transforms",
               fs == [], "" if fs == [] else f"failing: {[meta[i] for i in (fs or [])[:3]]}")
    return fs, meta, problems



PINS = ["gwcs/api.py::GWCSAPIMixin.pixel_n_dim",
        "gwcs/api.py::GWCSAPIMixin.world_n_dim",
        "gwcs/api.py::GWCSAPIMixin.array_index_to_world",
        "gwcs/api.py::GWCSAPIMixin.axis_correlation_matrix",
        "gwcs/api.py::GWCSAPIMixin.pixel_axis_names",
        "gwcs/api.py::GWCSAPIMixin.world_axis_names",
        "gwcs/api.py::GWCSAPIMixin.low_level_wcs",
        "gwcs/api.py::GWCSAPIMixin.serialized_classes",
        "gwcs/utils.py::_toindex"]


def run(ctx):
    from py2coq import gen_api as G, t2
    from lib.common import REPO
    ctx.trusted += ["tools/py2coq translator, GW.Base.{Py,Api}", "tools/checks/C13.py generators, oracle, differ; tools/lib/families.py"]
    ctx.gate()
    from lib import pins as _pins
    _pins.check(ctx, PINS)      # wrappers and properties outside the T2-translated set
    ctx.coq_theorems("C13/Toindex", ["toindex_nearest_halfup", "toindex_translate", "toindex_fl_eighths", "toindex_half_minus_ulp_refuted"])
    ctx.coq_theorems("C13/Separable", ["dep_sound", "correlation_matrix_sound", "correlation_row_sound", "depmat_shape",
                                       "ex_cube_matrix", "ex_cube_independent"])
    try:
        gen_src = G.gen(REPO)
        ctx.oblige("translate: gwcs/api.py index/shape wrappers within the py2coq subset", True)
    except (t2.Unsupported, SyntaxError, AssertionError) as e:
        gen_src = None
        ctx.oblige("translate: gwcs/api.py index/shape wrappers within the py2coq subset", False, str(e))
    if gen_src is not None:
        res = ctx.dyn_build("WC13", {"Gen_api": gen_src, "ApiCases": CASES_V}, ["C13"], ["Gen_api", "ApiProofs"])
        ctx.oblige("regenerated Gen_api.v type-checks", res.get("Gen_api", (False, ""))[0], res.get("Gen_api", (False, ""))[1][-800:])
        ctx.dyn_theorems("WC13", "ApiProofs", res, THEOREMS)
        import shutil, os
        from lib.common import COQ
        shutil.copy(os.path.join(COQ, "dyn", "C01", "Sem.v"), ctx.work)
        res2 = ctx.dyn_build("WC13", {}, [], ["Sem", "ApiCases"])
        ctx.oblige("case-checker ApiCases.v compiles against the regenerated code", all(v[0] for v in res2.values()),
                   "; ".join(v[1][-300:] for v in res2.values() if not v[0]))
    rng = ctx.rng
    problems = []
    # (a) shape histories
    terms_a, descr_a = [], []
    for _ in range(120 if ctx.quick else 3000):
        n = rng.randint(1, 4)
        fam = families.affine_nd(rng, n)
        ops, flags, probs = shape_history(rng, fam.w, n)
        problems += [(p, {"n": n, "ops": ops}) for p in probs[:1]]
        terms_a.append(f"({gz(n)}, {ops})")
        descr_a.append(ops)
        ctx.case(key=("hist", n, ops), nontrivial=(any(flags) and not all(flags)), kind="shape-history",
                 sample={"pixel_axes": n, "ops": ops[:200]})
    # (b) index variants on exact eighths
    terms_b, descr_b = [], []
    import astropy.units as u
    for _ in range(150 if ctx.quick else 3000):
        n = rng.randint(1, 4)
        fam = families.affine_nd(rng, n)
        lf = pipes.Leaf(0, fam.perm, fam.signs, [8 * o for o in fam.offs])
        idx8 = [rng.randint(-200, 200) for _ in range(n)]            # index-order arguments, 1/8 px
        world8 = [rng.randint(-200, 200) for _ in range(n)]
        if rng.random() < 0.3:
            world8 = [8 * rng.randint(-20, 20) + 4 for _ in range(n)]  # exact .5 ties
        w = fam.w
        try:
            fwd = np.atleast_1d(np.asarray(w.array_index_to_world_values(*[v / 8.0 for v in idx8]), dtype=float)) * 8
            aiv = np.atleast_1d(np.asarray(w.world_to_array_index_values(*[v / 8.0 for v in world8])))
            ai = np.atleast_1d(np.asarray(w.world_to_array_index(*[u.Quantity(v / 8.0, u.pix) for v in world8])))
        except Exception as e:  # noqa
            problems.append((f"index variants raised {type(e).__name__}: {e}", {"n": n}))
            continue
        # oracle: reversed, rounded half up
        px8 = lf_inverse_apply(lf, world8)
        want = [(v + 4) // 8 for v in (px8[::-1] if n > 1 else px8)]
        if [int(x) for x in aiv] != want or [int(x) for x in ai] != want:
            problems.append((f"world_to_array_index(_values) {list(aiv)}/{list(ai)} != reversed half-up rounding {want} of pixel {[p / 8 for p in px8]}",
                             {"n": n, "world": [v / 8 for v in world8]}))
        terms_b.append(f"({gz(n)}, {lf.coq_def()}, {gzl(idx8)}, {gzl(world8)}, {gzl([int(round(x)) for x in fwd])}, "
                       f"{gzl([int(x) for x in aiv])}, {gzl([int(x) for x in ai])})")
        descr_b.append((n, idx8, world8))
        ctx.case(key=("idx", n, tuple(idx8), tuple(world8), tuple(fam.perm), tuple(fam.signs), tuple(fam.offs)),
                 nontrivial=any(v % 8 for v in world8), kind="index-variants",
                 sample={"pixel_axes": n, "index_args_eighths": idx8, "world_eighths": world8})
    # (c) families
    for rep in range(2 if ctx.quick else 20):
        for fam in families.all_families(rng):
            oracle_family(ctx, fam, rng, problems)
    separability_after_edits(ctx, rng, problems)
    fsep, meta_sep, sep_problems = separability_correspondence(ctx, rng)
    problems.extend(sep_problems)
    for i in (fsep or [])[:3]:
        # the model is proved sound; a disagreeing matrix entry that is False where the model says True is a candidate unsound entry:
        # look for a concrete pair of pixels on the implementation (done inside separability_correspondence); otherwise report the mismatch
        problems.append((f"axis_correlation_matrix {meta_sep[i]['matrix']} of {meta_sep[i]['transform']} differs from the proved-sound "
                         f"matrix model (Separable.depmat) or the forward evaluation differs from Separable.eval", meta_sep[i]))
    # known finding probe: the largest double below 0.5
    from gwcs import utils
    if int(utils._toindex(0.49999999999999994)) != 0:
        ctx.violation("_toindex(0.49999999999999994) = 1 although the point lies in pixel 0 (x + 0.5 rounds to 1.0 in binary64)",
                      {"input": "0.49999999999999994", "how": "gwcs.utils._toindex"}, key="C13/half-minus-ulp")
    fa = fb = None
    if gen_src is not None:
        fa = ctx.coq_failing("hist", HEADER, terms_a,
                             "(fun c => match c with (n, ops) => check_hist {| pixel_shape_ := None; naxes_in := n |} ops end)", label="WC13")
        fb = ctx.coq_failing("idx", HEADER, terms_b,
                             "(fun c => match c with (n, d, idx, world, e1, e2, e3) => check_index n d idx world e1 e2 e3 end)", label="WC13")
    ctx.oblige("correspondence: regenerated shape setters/getters (vm_compute) = implementation after every assignment", fa == [],
               "" if fa == [] else f"failing histories: {[descr_a[i] for i in (fa or [])[:2]]}")
    ctx.oblige("correspondence: regenerated index variants (vm_compute) = implementation on exact 1/8-pixel points", fb == [],
               "" if fb == [] else f"failing: {[descr_b[i] for i in (fb or [])[:3]]}")
    seen = set()
    for pr in problems:
        what, rep = pr[0], pr[1]
        key = pr[2] if len(pr) > 2 else None
        if (key or what[:60]) in seen:
            continue
        seen.add(key or what[:60])
        ctx.violation("C13 fails on the implementation: " + what, rep, key=key)
    if (fa or fb) and not problems:
        ctx.violation("regenerated model and implementation disagree; the oracle found no violated clause",
                      {"correspondence": "C13", "hist": fa, "idx": fb}, found_input=False)


def lf_inverse_apply(lf, y):
    n = len(lf.perm)
    x = [0] * n
    for k in range(n):
        x[lf.perm[k]] = lf.signs[k] * (y[k] - lf.offs[k])
    return x
