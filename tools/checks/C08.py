"""C08 — answers depend only on the current pipeline, never on earlier queries.

Proof:  coq/theories/C08/History.v — for ANY interleaving of queries and cache-resetting edits, each answer equals the
        answer of a freshly built twin (history_independent), and queries never change the pipeline.
        Its premises are computed obligations on the attribute WRITE TABLE that tools/py2coq/gen_writes.py REGENERATES from
        gwcs/wcs.py + gwcs/api.py on every run: every edit method (transitively) assigns `_approx_inverse = None`;
        every query method (transitively) assigns no attribute other than `_approx_inverse`.
Tie:    translator + twin differential on the implementation: random interleavings of queries and edits; after each
        query the answer is compared with a fresh twin built from the reference pipeline; deep snapshots show that
        queries leave pipeline, box, shape, parameters and caller arguments unchanged.
"""
import copy

import numpy as np

LEVEL = "proof"
RULE = ("histories of 4..14 operations on a 3-frame celestial WCS without analytic inverse (distortion), mixing edits "
        "(insert_transform re-pointing, set_transform, insert_frame, bounding_box) with queries (__call__, invert, numerical_inverse, "
        "in_image, footprint, to_fits_sip, get_transform, APE-14 properties, str/repr); each query answer vs a fresh twin. "
        "non-trivial = history with an iterative-inverse query both before and after an edit; distinct = distinct histories")
ASSUMPTIONS = [
    "the answer of an iterative query is a function of (pipeline/box, seed) — parameters P, S, answer of History.v",
    "attribute writes are found syntactically (self.<attr> stores, transitively through self-method calls); aliasing through "
    "caller-owned arguments is observed by snapshots (tested), not proved",
]
EDITS = ["set_transform", "insert_transform", "insert_frame", "bounding_box__set"]


def base_wcs(rng):
    from astropy import coordinates as coord
    from astropy.modeling import models
    from gwcs import wcs, coordinate_frames as cf
    p = models.Polynomial2D(2, c0_0=0, c1_0=1, c0_1=0, c2_0=rng.uniform(-2e-6, 2e-6), c1_1=rng.uniform(-2e-6, 2e-6))
    q = models.Polynomial2D(2, c0_0=0, c1_0=0, c0_1=1, c0_2=rng.uniform(-2e-6, 2e-6), c1_1=rng.uniform(-2e-6, 2e-6))
    dist = models.Mapping((0, 1, 0, 1)) | p & q
    sky_tr = (models.Shift(-500) & models.Shift(-400) | models.Scale(2e-4) & models.Scale(2e-4) |
              models.Pix2Sky_TAN() | models.RotateNative2Celestial(rng.uniform(0, 360), rng.uniform(-60, 60), 180))
    det = cf.Frame2D(name="detector")
    mid = cf.Frame2D(name="undistorted")
    sky = cf.CelestialFrame(reference_frame=coord.ICRS(), name="world")
    w = wcs.WCS([(det, dist), (mid, sky_tr), (sky, None)])
    w.bounding_box = ((-0.5, 999.5), (-0.5, 799.5))
    if rng.random() < 0.5:
        w.pixel_shape = (800, 600)        # an image smaller than the region of validity
    return w


def twin_of(w):
    from gwcs import wcs
    pl = [(st.frame, copy.deepcopy(st.transform)) for st in w.pipeline]
    t = wcs.WCS(pl)
    bb = w.bounding_box
    if bb is not None:
        t.bounding_box = tuple(tuple(iv) for iv in bb.bounding_box(order="F"))
    t.pixel_shape = w.pixel_shape
    return t


def state_snapshot(w):
    bb = w.bounding_box
    return (list(w.available_frames),
            [None if st.transform is None else (repr(st.transform), tuple(np.asarray(st.transform.parameters).tolist()))
             for st in w.pipeline],
            None if bb is None else bb.bounding_box(order="F"), w.pixel_shape)


def close(a, b, tol):
    a = np.asarray(a, dtype=float)
    b = np.asarray(b, dtype=float)
    if a.shape != b.shape:
        return False
    na, nb = np.isnan(a), np.isnan(b)
    if not np.array_equal(na, nb):
        return False
    return bool(np.all(np.abs(a[~na] - b[~nb]) <= tol))


def run_history(ctx, rng, nops, script=None):
    from astropy.modeling import models
    from astropy.modeling.bounding_box import ModelBoundingBox
    from gwcs import coordinate_frames as cf
    w = base_wcs(rng)
    hist, problems = [], []
    xs = np.array([100., 420., 800., 1500.])
    ys = np.array([50., 300., 700., -200.])
    iter_before_edit = iter_after_edit = edited = False
    extra = 0
    for step_i in range(nops if script is None else len(script)):
        r = rng.random()
        forced = script[step_i] if script is not None else None
        if (forced is None and r < 0.35) or (forced is not None and forced.startswith("E")):       # edits
            e = rng.random() if forced is None else {"E_insert_transform": 0.1, "E_set_transform": 0.5, "E_insert_frame": 0.7, "E_repoint": 0.82,
                                                    "E_bbox": 0.85, "E_bbox_none": 0.95}[forced]
            if e < 0.4:
                d = rng.choice([0.01, 1.0, 40.0])
                w.insert_transform(w.available_frames[-1], models.Shift(d) & models.Scale(rng.choice([1.0, -1.0])), after=False)
                hist.append(f"insert_transform(world, Shift({d})&Scale(+-1))")
            elif e < 0.6:
                p = models.Polynomial2D(1, c0_0=rng.uniform(-3, 3), c1_0=1, c0_1=0)
                q = models.Polynomial2D(1, c0_0=rng.uniform(-3, 3), c1_0=0, c0_1=1)
                fr = w.available_frames
                w.set_transform(fr[0], fr[1], models.Mapping((0, 1, 0, 1)) | p & q)
                hist.append("set_transform(detector->next, new polynomial)")
            elif e < 0.8:
                extra += 1
                fr = w.available_frames
                w.insert_frame(fr[0], models.Shift(rng.uniform(-2, 2)) & models.Shift(rng.uniform(-2, 2)),
                               cf.Frame2D(name=f"extra{extra}"))
                hist.append("insert_frame(detector, Shift&Shift, new Frame2D)")
            elif e < 0.84:
                # the get_transform / modify in place / set_transform idiom: the SAME transform object is set again after the
                # pointing of its sky rotation was changed by a large angle
                def leaves_of(m):
                    return [m[i] for i in range(m.n_submodels)] if m.n_submodels > 1 else [m]
                idx = next(i for i, st in enumerate(w.pipeline) if st.transform is not None
                           and any(type(m).__name__ == "RotateNative2Celestial" for m in leaves_of(st.transform)))
                tr = w.pipeline[idx].transform
                rot = [m for m in leaves_of(tr) if type(m).__name__ == "RotateNative2Celestial"][0]
                dlon = rng.choice([140.0, 97.0, 200.0])
                rot.lon = (float(rot.lon.value) + dlon) % 360.0
                fr = w.available_frames
                w.set_transform(fr[idx], fr[idx + 1], tr)
                hist.append(f"set_transform(same object, re-pointed in place by {dlon} deg)")
            elif e < 0.9:
                w.bounding_box = ((-0.5, rng.choice([899.5, 999.5])), (-0.5, rng.choice([699.5, 799.5])))
                hist.append("bounding_box = ...")
            else:
                w.bounding_box = None
                hist.append("bounding_box = None")
            edited = True
            continue
        # queries
        t = twin_of(w)
        before = state_snapshot(w)
        q = forced or rng.choice(["call", "invert", "numinv", "numinv", "in_image", "in_image", "footprint", "to_fits_sip", "get_transform", "props", "str",
                                  "to_fits_sip_args", "footprint_args", "to_fits_args", "fix_inputs", "to_fits_tab_args"])
        # mutable arguments handed to a query (arrays, lists, dicts): the same objects are passed to the WCS and then to the twin, so a
        # query that edits them shows both as changed arguments and as a differing answer
        margs = {"crpix": np.array([400.0, 300.0]), "box": [[-0.5, 899.5], [-0.5, 699.5]], "boxarr": np.array([[10.0, 500.0], [20.0, 400.0]]),
                 "fixed": {0: 12.0},
                 "bboxlist": [ModelBoundingBox((0.0, 40.0), models.Shift(1)), (0.0, 30.0)]}
        margs0 = dict(copy.deepcopy({k: v for k, v in margs.items() if k != "bboxlist"}), bboxlist=list(margs["bboxlist"]))
        ax, ay = xs.copy(), ys.copy()
        def both(f):
            out = []
            for o in (w, t):
                try:
                    out.append(("val", f(o)))
                except Exception as e:  # noqa
                    out.append(("err", type(e).__name__))
            return out
        ra = dec = None
        if q in ("invert", "numinv", "in_image"):
            ra, dec = t(ax, ay)
            ra0, dec0 = ra.copy(), dec.copy()
        import contextlib, io
        with contextlib.redirect_stdout(io.StringIO()):
            fns = {
                "call": lambda o: o(ax, ay),
                "invert": lambda o: o.invert(ra, dec),
                "numinv": lambda o: o.numerical_inverse(ra, dec, quiet=True),
                "in_image": lambda o: o.in_image(ra, dec),
                "footprint": lambda o: o.footprint(),
                "to_fits_sip": lambda o: o.to_fits_sip(degree=2, npoints=8),
                "get_transform": lambda o: o.get_transform(o.available_frames[0], o.available_frames[-1])(ax, ay),
                "to_fits_sip_args": lambda o: o.to_fits_sip(bounding_box=margs["box"], crpix=margs["crpix"], degree=2, npoints=8,
                                                            max_inv_pix_error=None),
                "to_fits_args": lambda o: o.to_fits(bounding_box=margs["box"], crpix=margs["crpix"], degree=2, npoints=8,
                                                    max_inv_pix_error=None)[0],
                "footprint_args": lambda o: o.footprint(bounding_box=margs["boxarr"]),
                "fix_inputs": lambda o: o.fix_inputs(margs["fixed"])(ay),
                "to_fits_tab_args": lambda o: np.asarray(o.to_fits_tab(bounding_box=margs["bboxlist"], sampling=10)[1].data["coordinates"]),
                "props": lambda o: (o.pixel_n_dim, o.world_n_dim, o.pixel_bounds, o.array_shape, o.world_axis_physical_types,
                                    o.world_axis_units, np.asarray(o.axis_correlation_matrix).tolist(), o.available_frames),
                "str": lambda o: (str(o), repr(o)),
            }
            (ka, a), (kb, b) = both(fns[q])
        if ka != kb or (ka == "err" and a != b):
            ok = False
        elif ka == "err":
            ok = True
        elif q in ("call", "footprint", "get_transform", "footprint_args", "fix_inputs", "to_fits_tab_args"):
            ok = close(a, b, 0)
        elif q in ("invert", "numinv"):
            ok = close(a, b, 1e-4)
        elif q == "in_image":
            ok = np.array_equal(a, b)
        elif q in ("to_fits_sip", "to_fits_sip_args", "to_fits_args"):
            ok = (list(a.keys()) == list(b.keys()) and
                  all((a[k] == b[k]) or (isinstance(a[k], float) and abs(a[k] - b[k]) <= 1e-9 * max(1, abs(b[k]))) for k in a.keys()))
        else:
            ok = a == b
        if ra is not None:
            if not (np.array_equal(ra, ra0, equal_nan=True) and np.array_equal(dec, dec0, equal_nan=True)):
                problems.append((f"{q} changed the caller's arguments", hist + [q]))
            if edited:
                iter_after_edit = True
            else:
                iter_before_edit = True
        hist.append(q)
        if not ok:
            show = (lambda v: str(np.asarray(v).tolist())[:200]) if q not in ("props", "str", "to_fits_sip", "to_fits_sip_args", "to_fits_args") else (lambda v: str(v)[:200])
            problems.append((f"answer of `{q}` differs from a fresh twin with the same pipeline/box: {show(a)} vs {show(b)}", list(hist)))
        if not (np.array_equal(ax, xs) and np.array_equal(ay, ys)):
            problems.append((f"{q} changed the caller's arguments", list(hist)))
        if not (len(margs["bboxlist"]) == 2 and all(a is b for a, b in zip(margs["bboxlist"], margs0["bboxlist"]))):
            problems.append((f"{q} changed the caller's bounding_box list [ModelBoundingBox, tuple] to {margs['bboxlist']}", list(hist)))
        for k in margs:
            if k == "bboxlist":
                continue
            if not (type(margs[k]) is type(margs0[k]) and np.array_equal(np.asarray(list(margs[k].items()) if isinstance(margs[k], dict)
                                                                                    else margs[k]),
                                                                         np.asarray(list(margs0[k].items()) if isinstance(margs0[k], dict)
                                                                                    else margs0[k]))):
                problems.append((f"{q} changed the caller's `{k}` argument from {margs0[k]} to {margs[k]}", list(hist)))
        if state_snapshot(w) != before:
            problems.append((f"query `{q}` changed pipeline / parameters / box / shape", list(hist)))
    return hist, problems, (iter_before_edit and iter_after_edit)


SEP_EDITS = ["rotate", "swap", "shift", "set_separable", "set_coupled", "insert_frame", "query"]


def separable_history(ctx, rng, nops, script=None):
    """a separable (axis-by-axis) WCS: edits that couple or uncouple the axes must show at once in every derived answer
    (axis_correlation_matrix, the grouping used by to_fits, evaluation), each compared with a freshly built twin"""
    import astropy.units as u
    from astropy.modeling import models
    from gwcs import wcs, coordinate_frames as cf
    det = cf.CoordinateFrame(2, ("PIXEL",) * 2, (0, 1), unit=(u.pix,) * 2, name="detector")
    foc = cf.CoordinateFrame(2, ("SPATIAL",) * 2, (0, 1), unit=(u.mm,) * 2, name="focal")
    out = cf.CoordinateFrame(2, ("SPECTRAL", "TIME"), (0, 1), unit=(u.um, u.s), name="world", axes_names=("lam", "t"),
                             axis_physical_types=("em.wl", "time"))
    w = wcs.WCS([(det, models.Shift(1.0) & models.Shift(2.0)), (foc, models.Scale(0.5) & models.Scale(3.0)), (out, None)])
    w.bounding_box = ((0, 8), (0, 6))
    hist, problems = [], []

    def queries(o):
        r = {"axis_correlation_matrix": np.asarray(o.axis_correlation_matrix).tolist(), "call": np.asarray(o(2.0, 3.0)).tolist(),
             "invert": np.asarray(o.invert(*o(2.0, 3.0))).tolist(), "str": str(o)}
        try:
            hdr, hdus = o.to_fits(sampling=2)
            r["to_fits"] = ([k for k in hdr.keys() if k.startswith(("CTYPE", "PS", "PV"))], [h.data["coordinates"].shape for h in hdus])
        except Exception as e:  # noqa
            r["to_fits"] = "raised " + type(e).__name__
        return r
    queries(w)                 # every derived answer has been asked for once in the separable state
    for step_i in range(nops if script is None else len(script)):
        e = script[step_i] if script is not None else rng.choice(SEP_EDITS + ["query"])
        if e == "rotate":
            w.insert_transform(rng.choice(["focal", "world"]), models.Rotation2D(rng.choice([30.0, 90.0, 45.0])), after=False)
        elif e == "swap":
            w.insert_transform("focal", models.Mapping((1, 0)), after=rng.random() < 0.5)
        elif e == "shift":
            w.insert_transform("focal", models.Shift(0.25) & models.Shift(-1.0), after=True)
        elif e == "set_separable":
            w.set_transform(w.available_frames[0], w.available_frames[1], models.Shift(3.0) & models.Scale(2.0))
        elif e == "set_coupled":
            w.set_transform(w.available_frames[0], w.available_frames[1],
                            models.AffineTransformation2D(matrix=[[1.0, 0.5], [0.25, 2.0]], translation=[1.0, 2.0]))
        elif e == "insert_frame":
            nm = f"extra{len(w.available_frames)}"
            w.insert_frame(w.available_frames[0], models.Rotation2D(60.0) if rng.random() < 0.5 else models.Shift(1.0) & models.Shift(1.0),
                           cf.CoordinateFrame(2, ("SPATIAL",) * 2, (0, 1), unit=(u.mm,) * 2, name=nm))
        hist.append(e)
        if e in ("rotate", "swap", "set_coupled", "set_separable", "insert_frame") and w.bounding_box is None:
            w.bounding_box = ((0, 8), (0, 6))
        t = twin_of(w)
        a, b = queries(w), queries(t)
        for k in a:
            same = a[k] == b[k] if k != "call" and k != "invert" else np.allclose(a[k], b[k], rtol=0, atol=1e-9, equal_nan=True)
            if not same:
                problems.append((f"after {hist[-3:]} the answer of `{k}` is {str(a[k])[:120]} but a freshly built twin gives {str(b[k])[:120]}", list(hist)))
                break
    return hist, problems


def allsky_history(ctx, rng, script):
    """an all-sky (plate-carree style, 1 deg / px, weakly distorted: no analytic inverse) WCS: the fitted starting guess of the
    iterative inverse is valid only within 90 deg of the box centre it was fitted for, so a guess left over from an earlier state
    shows at far points.  script = list of 'box A' | 'box B' | 'box none' | 'shift' | 'query'"""
    import astropy.units as u
    from astropy import coordinates as coord
    from astropy.modeling import models
    from gwcs import wcs, coordinate_frames as cf
    dx = models.Polynomial2D(2, c0_0=0.0, c1_0=1.0, c0_1=0.0, c2_0=1e-6)
    dy = models.Polynomial2D(2, c0_0=0.0, c1_0=0.0, c0_1=1.0, c0_2=1e-6)
    tr = models.Mapping((0, 1, 0, 1)) | (dx & dy) | (models.Shift(180.0) & models.Shift(0.0))
    w = wcs.WCS([(cf.Frame2D(name="detector", unit=(u.pix, u.pix)), tr),
                 (cf.CelestialFrame(name="world", reference_frame=coord.ICRS(), unit=(u.deg, u.deg)), None)])
    lon, lat = np.array([181.0, 300.0, 60.0, 200.0]), np.array([2.0, 10.0, -30.0, 5.0])
    hist, problems = [], []
    for e in script:
        if e == "box A":
            w.bounding_box = ((-30.0, 30.0), (-30.0, 30.0))
        elif e == "box B":
            w.bounding_box = ((100.0, 140.0), (-20.0, 20.0))
        elif e == "box none":
            w.bounding_box = None
        elif e == "shift":
            w.insert_transform("world", models.Shift(150.0) & models.Shift(0.0), after=False)
        hist.append(e)
        t = twin_of(w)
        for name, fn in (("numerical_inverse", lambda o: o.numerical_inverse(lon, lat, quiet=True)), ("invert", lambda o: o.invert(lon, lat)),
                         ("in_image", lambda o: o.in_image(lon, lat))):
            res = []
            for o in (w, t):
                try:
                    with np.errstate(all="ignore"):
                        res.append(("val", np.asarray(fn(o), dtype=float)))
                except Exception as ex:  # noqa
                    res.append(("err", type(ex).__name__))
            (ka, a), (kb, b) = res
            same = ka == kb and (a == b if ka == "err" else (a.shape == b.shape and np.allclose(a, b, rtol=0, atol=1e-4, equal_nan=True)))
            if not same:
                problems.append((f"all-sky WCS after {hist}: {name} at lon {lon.tolist()}, lat {lat.tolist()} gives "
                                 f"{a.tolist() if ka == 'val' else a} but a freshly built twin gives {b.tolist() if kb == 'val' else b}", list(hist)))
                return hist, problems
    return hist, problems


def unit_history(ctx, rng, nq):
    """a unit-carrying WCS whose bounding box is given as Quantities: every query is compared with a freshly built twin and the stored
    box (types included: repr) must be what it was before the query"""
    import astropy.units as u
    from astropy.modeling import models
    from gwcs import wcs, coordinate_frames as cf
    a, b = rng.uniform(5, 15), rng.uniform(1, 4)
    lim = ((1.0, 5.0 + rng.randint(0, 3)), (2.0, 6.0 + rng.randint(0, 3)))

    def make():
        tr = models.Shift(a * u.pix) & models.Shift(b * u.pix)
        det = cf.Frame2D(name="detector", unit=(u.pix, u.pix))
        out = cf.Frame2D(name="out", unit=(u.pix, u.pix))
        w = wcs.WCS([(det, tr), (out, None)])
        w.bounding_box = tuple((lo * u.pix, hi * u.pix) for lo, hi in lim)
        return w
    w = make()
    hist, problems = [], []
    Q = {
        "call(inside)": lambda o: [float(v.value) for v in o(2 * u.pix, 3 * u.pix)],
        "call(outside)": lambda o: [float(v.value) if hasattr(v, "value") else float(v) for v in o(50 * u.pix, 3 * u.pix)],
        "pixel_bounds": lambda o: str(o.pixel_bounds),
        "bounding_box": lambda o: repr(o.bounding_box),
        "shapes": lambda o: (o.pixel_shape, o.array_shape, o.pixel_n_dim, o.world_n_dim),
        "values": lambda o: [float(v) for v in o.pixel_to_world_values(2.0, 3.0)],
        "str": lambda o: str(o),
    }
    for _ in range(nq):
        q = rng.choice(list(Q))
        before = repr(w.bounding_box)
        out = []
        for o in (w, make()):
            try:
                out.append(("val", Q[q](o)))
            except Exception as e:  # noqa
                out.append(("err", type(e).__name__))
        hist.append(q)
        same = out[0][0] == out[1][0] and (out[0][1] == out[1][1] or (isinstance(out[0][1], list) and np.allclose(out[0][1], out[1][1], equal_nan=True)))
        if not same:
            problems.append((f"unit-carrying WCS with a Quantity bounding box: answer of `{q}` {str(out[0])[:120]} differs from a fresh twin {str(out[1])[:120]}",
                             ["bounding_box = Quantity limits"] + list(hist)))
        if repr(w.bounding_box) != before:
            problems.append((f"unit-carrying WCS with a Quantity bounding box: query `{q}` changed the stored bounding box from {before[-160:]} to "
                             f"{repr(w.bounding_box)[-160:]}", ["bounding_box = Quantity limits"] + list(hist)))
        if problems:
            break
    return hist, problems


# sources a query may legitimately store into: the combined forward transform gets the WCS's own box re-assigned (idempotent), and the
# freshly built inverse gets its `.inverse`; the header returned by _to_fits_sip is a new object
ALLOWED_ALIAS = '["self.forward_transform"; "self.forward_transform.inverse"; "self._to_fits_sip()"]'


PINS = ["gwcs/wcs.py::WCS.__init__",
        "gwcs/wcs.py::WCS._initialize_wcs",
        "gwcs/wcs.py::WCS.__str__",
        "gwcs/wcs.py::WCS.__repr__",
        "gwcs/wcs.py::WCS.pipeline",
        "gwcs/wcs.py::WCS.unit",
        "gwcs/wcs.py::WCS.name",
        "gwcs/wcs.py::WCS.input_frame",
        "gwcs/wcs.py::WCS.output_frame",
        "gwcs/wcs.py::WCS._calc_approx_inv",
        "gwcs/wcs.py::Step.__init__",
        "gwcs/wcs.py::Step.frame",
        "gwcs/wcs.py::Step.transform",
        "gwcs/wcs.py::Step.frame_name",
        "gwcs/wcs.py::Step.__getitem__"]


def run(ctx):
    from py2coq import gen_writes as G
    from lib.common import REPO
    ctx.trusted += ["tools/py2coq/gen_writes.py (syntactic attribute-write table, transitively closed)",
                    "tools/checks/C08.py twin differential, snapshots"]
    ctx.gate()
    from lib import pins as _pins
    _pins.check(ctx, PINS)      # value-level behaviour the write tables do not see (construction, printing, step records)
    ctx.coq_theorems("C08/History", ["history_independent", "queries_keep_pipeline", "run_coherent", "stale_cache_refuted"])
    try:
        src, W, R = G.gen(REPO)
        ctx.oblige("translate: attribute write table of WCS / GWCSAPIMixin", True)
    except Exception as e:  # noqa
        src = None
        ctx.oblige("translate: attribute write table of WCS / GWCSAPIMixin", False, str(e))
    bad_edit = bad_query = None
    if src is not None:
        missing = [m for m in G.EDITS + G.QUERIES if m not in W]
        ctx.oblige("every edit / query method named by the model exists in the source", not missing, str(missing))
        edits = "[" + "; ".join(f'"{m}"' for m in G.EDITS) + "]"
        queries = "[" + "; ".join(f'"{m}"' for m in G.QUERIES if m in W) + "]"
        ob = ("From Coq Require Import List String. Import ListNotations. Local Open Scope string_scope.\n"
              "From GW Require Import C08.History.\nFrom WC08 Require Import Gen_writes.\n"
              f"Theorem C08_edits_reset_cache : edits_reset resets {edits} = true.\nProof. vm_compute. reflexivity. Qed.\n")
        oq = ("From Coq Require Import List String. Import ListNotations. Local Open Scope string_scope.\n"
              "From GW Require Import C08.History.\nFrom WC08 Require Import Gen_writes.\n"
              f"Theorem C08_queries_write_only_cache : queries_pure writes {queries} = true.\nProof. vm_compute. reflexivity. Qed.\n")
        res = ctx.dyn_build("WC08", {"Gen_writes": src}, [], ["Gen_writes"])
        r1 = ctx.dyn_build("WC08", {"ObEdits": ob}, [], ["ObEdits"])["ObEdits"]
        r2 = ctx.dyn_build("WC08", {"ObQueries": oq}, [], ["ObQueries"])["ObQueries"]
        bad_edit = [m for m in G.EDITS if "_approx_inverse" not in R.get(m, ())]
        bad_query = [m for m in G.QUERIES if m in W and not W[m] <= {"_approx_inverse"}]
        ctx.oblige("C08_edits_reset_cache: every edit method (transitively) assigns _approx_inverse = None [premise all_reset]",
                   r1[0], f"edit methods that do not reset the cache: {bad_edit}")
        ctx.oblige("C08_queries_write_only_cache: query methods assign no attribute other than the cache", r2[0],
                   f"queries writing other attributes: {[(m, sorted(W[m])) for m in bad_query]}")
        oa = ("From Coq Require Import List String. Import ListNotations. Local Open Scope string_scope.\n"
              "From GW Require Import C08.History.\nFrom WC08 Require Import Gen_writes.\n"
              f"Theorem C08_queries_mutate_no_live_object : queries_alias_clean alias_writes {ALLOWED_ALIAS} {queries} = true.\n"
              "Proof. vm_compute. reflexivity. Qed.\n")
        r3 = ctx.dyn_build("WC08", {"ObAlias": oa}, [], ["ObAlias"])["ObAlias"]
        import ast as _ast
        amap = {}
        try:
            txt = src[src.index("Definition alias_writes"):src.index("Definition param_writes")]
            for m_, lst in __import__("re").findall(r'\("([^"]+)", \[([^\]]*)\]\)', txt):
                amap[m_] = [x.strip().strip('"') for x in lst.split(";") if x.strip()]
        except ValueError:
            pass
        allowed = [x.strip().strip('"') for x in ALLOWED_ALIAS.strip("[]").split(";")]
        bad_alias = [(m, [x for x in amap.get(m, []) if x not in allowed]) for m in G.QUERIES if [x for x in amap.get(m, []) if x not in allowed]]
        ctx.oblige("C08_queries_mutate_no_live_object: no query changes in place an object obtained from the WCS (alias table)", r3[0],
                   f"queries mutating live objects: {bad_alias}")
        if not r3[0]:
            bad_query = (bad_query or []) + [f"{m} mutates {srcs}" for m, srcs in bad_alias]
        # the caller's arguments: no query changes in place an object passed to it (may-alias through numpy's no-copy conversions,
        # transitively through calls between the methods)
        op = ("From Coq Require Import List String. Import ListNotations. Local Open Scope string_scope.\n"
              "From GW Require Import C08.History.\nFrom WC08 Require Import Gen_writes.\n"
              f"Theorem C08_queries_mutate_no_argument : queries_alias_clean param_writes [] {queries} = true.\n"
              "Proof. vm_compute. reflexivity. Qed.\n")
        r4 = ctx.dyn_build("WC08", {"ObParam": op}, [], ["ObParam"])["ObParam"]
        pmap = {}
        try:
            txt = src[src.index("Definition param_writes"):]
            for m_, lst in __import__("re").findall(r'\("([^"]+)", \[([^\]]*)\]\)', txt):
                pmap[m_] = [x.strip().strip('"') for x in lst.split(";") if x.strip()]
        except ValueError:
            pass
        bad_param = [(m, pmap[m]) for m in G.QUERIES if pmap.get(m)]
        ctx.oblige("C08_queries_mutate_no_argument: no query changes in place an object the caller passed in (parameter table)", r4[0],
                   f"queries mutating their arguments: {bad_param}")
        if not r4[0]:
            bad_query = (bad_query or []) + [f"{m} mutates its argument {srcs}" for m, srcs in bad_param]
    # ---- twin differential --------------------------------------------------------------------
    rng = ctx.rng
    nh = 60 if ctx.quick else 600
    allprob = []
    # corpus: the minimal stale-cache history
    for corpus in (["numinv", "EDIT40", "numinv"],):
        from astropy.modeling import models
        w = base_wcs(rng)
        xs, ys = np.array([100., 420., 800.]), np.array([50., 300., 700.])
        ra, dec = w(xs, ys)
        w.numerical_inverse(ra, dec, quiet=True)
        w.insert_transform("world", models.Shift(40.0) & models.Scale(-1.0), after=False)
        t = twin_of(w)
        ra, dec = t(xs, ys)
        a, b = w.numerical_inverse(ra, dec, quiet=True), t.numerical_inverse(ra, dec, quiet=True)
        ctx.case(key="corpus-stale", nontrivial=True, kind="corpus", sample={"history": corpus})
        if not close(a, b, 1e-4):
            allprob.append((f"numerical_inverse; insert_transform('world', Shift(40)&Scale(-1)); numerical_inverse -> "
                            f"{np.asarray(a).tolist()} but a fresh twin gives {np.asarray(b).tolist()}", corpus, "C08/stale-approx-inverse"))
    # exhaustive family of short histories: [query; edit; query] for every (query, edit) pair
    QS = ["call", "invert", "numinv", "in_image", "footprint", "to_fits_sip", "get_transform", "props", "str",
          "to_fits_sip_args", "footprint_args", "to_fits_args", "fix_inputs", "to_fits_tab_args"]
    ES = ["E_insert_transform", "E_set_transform", "E_insert_frame", "E_repoint", "E_bbox", "E_bbox_none"]
    for q in QS:
        for e in ES:
            hist, problems, _ = run_history(ctx, rng, 3, script=[q, e, q])
            ctx.case(key=("pair", q, e), nontrivial=True, kind="query-edit-query", sample={"history": hist})
            allprob += [(p[0], p[1], None) for p in problems[:1]]
    ctx.extra["exhaustive_pairs"] = f"all {len(QS) * len(ES)} [query; edit; same query] histories"
    for _ in range(nh):
        hist, problems, nontriv = run_history(ctx, rng, rng.randint(6, 14))
        ctx.case(key=tuple(hist), nontrivial=nontriv, kind=f"len{len(hist)}", sample={"history": hist[:8]})
        allprob += [(p[0], p[1], None) for p in problems[:1]]
    AS = ["box A", "box B", "box none", "shift"]
    for e1 in AS:               # all-sky family: every ordered pair and triple of box / pipeline edits, queried after each
        for e2 in AS:
            for e3 in ([None] if ctx.quick else [None] + AS):
                scr = [e1, e2] + ([e3] if e3 else [])
                hist, problems = allsky_history(ctx, rng, scr)
                ctx.case(key=("allsky",) + tuple(scr), nontrivial=True, kind="all-sky", sample={"history": hist})
                allprob += [(p[0], p[1], None) for p in problems[:1]]
    for e1 in SEP_EDITS:        # every ordered pair of edits, from a WCS whose derived answers were all asked for before
        for e2 in SEP_EDITS:
            hist, problems = separable_history(ctx, rng, 2, script=[e1, e2])
            ctx.case(key=("separable-pair", e1, e2), nontrivial=True, kind="separability", sample={"history": hist})
            allprob += [(p[0], p[1], None) for p in problems[:1]]
    for _ in range(4 if ctx.quick else 100):
        hist, problems = separable_history(ctx, rng, rng.randint(3, 8))
        ctx.case(key=("separable",) + tuple(hist), nontrivial=True, kind="separability", sample={"history": hist})
        allprob += [(p[0], p[1], None) for p in problems[:1]]
    for _ in range(6 if ctx.quick else 60):
        hist, problems = unit_history(ctx, rng, rng.randint(4, 9))
        ctx.case(key=("units",) + tuple(hist), nontrivial=True, kind="quantity-box", sample={"history": hist})
        allprob += [(p[0], p[1], None) for p in problems[:1]]
    ctx.oblige("twin differential: every query answer equals the fresh twin's; queries change nothing", not allprob,
               allprob[0][0][:300] if allprob else "")
    seen = set()
    for what, hist, key in allprob:
        k = what[:40]
        if k in seen:
            continue
        seen.add(k)
        ctx.violation("C08 fails on the implementation: " + what, {"history": hist}, key=key)
    if (bad_edit or bad_query) and not allprob:
        ctx.violation("write-table obligations fail but the twin differential found no differing answer",
                      {"edits_not_resetting": bad_edit, "queries_writing": bad_query}, found_input=False)
