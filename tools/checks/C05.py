"""C05 — iterative inversion reports every non-solution and converges where designed to (partial, see DESIGN 5 C05).

Proof:  coq/theories/C05/Solver.v — the solver's index bookkeeping as a state machine over per-point records with an ADVERSARIAL
        oracle for the numerics (any correction norm incl. NaN, any finiteness) and any interleaving of iteration kinds;
        invariants InvA/InvB by induction over iterations; theorems unreported_implies_converged(_nonadaptive): when the loop has
        ended, every point with a finite world coordinate is reported (divergent or slow), rescued by the fallback solver,
        or has a final correction below tolerance and a finite pixel; nan_world_not_reported; hole_witness (the defect found
        while proving, repaired in /repo aaeda87); equal_norm_is_reported.
Tie:    AST pins + trace correspondence: a sys.settrace probe reads dn / dnprev / pix / k at the exit of
        _vectorized_fixed_point (no change to /repo), the fallback solver's verdicts are logged, and the model's final
        classification (computed in Coq from order-preserving integer codes of the norms) must reproduce the
        divergent / slow_conv lists and the raise/return decision.
Tested (not proved): that a small final correction means a small forward error, and convergence over the aligned-imaging
        family and the NIRCam reference WCS for every point of the bounding box in all four modes.
"""
import os
import sys

import numpy as np

from lib.common import gz, gzl, glist, gbool
from lib import pins, families

LEVEL = "proof"
RULE = ("2-D celestial WCSs without analytic inverse (pointing, scale 1e-6..1e-3 deg/px, parity, sky-aligned / rotated, polynomial distortion, "
        "ZEA/ARC/SIN/STG/TAN projections, box) x batches (inside, far outside, near the projection edge, NaN) x adaptive x detect_divergence "
        "x maxiter in {1,2,3,5,8,20,50} x tolerance; plus the NIRCam reference WCS. non-trivial = run ending in NoConvergence or with NaN "
        "or with > 1 iteration kind; distinct = (wcs, batch, mode, maxiter, tol)")
ASSUMPTIONS = [
    "PARTIAL: 'final correction < tolerance => forward error < tolerance' holds under a contraction hypothesis on the WCS; sampled here (tested)",
    "the fallback solver's success flag is an oracle (scipy.optimize.root, method hybr)",
    "batch-global tests only choose which iteration kind happens next (over-approximated by 'any kind at any time')",
]
PINS = ["gwcs/wcs.py::WCS._vectorized_fixed_point", "gwcs/wcs.py::WCS.numerical_inverse", "gwcs/wcs.py::NoConvergence"]
HEADER = ("From Coq Require Import ZArith List Bool. Import ListNotations. Open Scope Z_scope.\n"
          "From GW Require Import C05.Solver.\n"
          "Definition beq_l (a b : list bool) : bool := Nat.eqb (length a) (length b) && forallb (fun p => Bool.eqb (fst p) (snd p)) (combine a b).\n"
          "Definition mk (d q : option Z) (pf : bool) : pt := {| dn := d; dnprev := q; pixfin := pf; active := true; hole := false |}.\n")


class Probe:
    """reads the locals of WCS._vectorized_fixed_point when it exits (return or exception)"""

    def __init__(self):
        self.snap = None

    def _global(self, frame, event, arg):
        if event == "call" and frame.f_code.co_name == "_vectorized_fixed_point":
            return self._local
        return None

    def _local(self, frame, event, arg):
        if event in ("return", "exception"):
            loc = frame.f_locals
            try:
                self.snap = dict(dn=np.array(loc["dn"], dtype=float), dnprev=np.array(loc["dnprev"], dtype=float),
                                 pix=np.array(loc["pix"], dtype=float), world0=np.array(loc["world0"], dtype=float),
                                 k=int(loc["k"]), maxiter=int(loc["maxiter"]), tol2=float(loc["tol2"]),
                                 detect=bool(loc["detect_divergence"]),
                                 inddiv=None if loc.get("inddiv") is None else [int(i) for i in np.atleast_1d(loc["inddiv"])],
                                 ind=None if loc.get("ind") is None else [int(i) for i in np.atleast_1d(loc["ind"])])
            except KeyError:
                pass
        return self._local

    def __enter__(self):
        sys.settrace(self._global)
        return self

    def __exit__(self, *a):
        sys.settrace(None)


def make_wcs(rng, kind):
    from astropy import coordinates as coord
    from astropy.modeling import models
    from gwcs import wcs, coordinate_frames as cf
    if kind == "aligned":
        f = families.imaging(rng, distortion=True, box=True)
        return f.w, f.scale, f.box
    scale = rng.choice([0.05, 0.1, 0.2])
    proj = rng.choice([models.Pix2Sky_SIN, models.Pix2Sky_ARC, models.Pix2Sky_ZEA, models.Pix2Sky_STG])()
    ident = models.Mapping((0, 1, 0, 1)) | models.Polynomial2D(1, c0_0=0, c1_0=1, c0_1=0) & models.Polynomial2D(1, c0_0=0, c1_0=0, c0_1=1)
    tr = (ident | models.Shift(-500) & models.Shift(-500) | models.Scale(scale) & models.Scale(scale) | proj |
          models.RotateNative2Celestial(rng.uniform(0, 360), rng.uniform(-60, 60), 180))
    w = wcs.WCS([(cf.Frame2D(name="detector"), tr), (cf.CelestialFrame(reference_frame=coord.ICRS(), name="sky"), None)])
    box = ((0.0, 1000.0), (0.0, 1000.0))
    w.bounding_box = box
    return w, scale, box


def nd_batches(ctx, rng, problems):
    """n-d batches (grids) of in-image world points with one NaN entry, failures reported (quiet off), every iteration mode: the call
    converges, every finite entry maps back onto its world point and the NaN stays at its own position only"""
    from gwcs.wcs import NoConvergence
    for k in range(3 if ctx.quick else 30):
        w, scale, box = make_wcs(rng, "aligned")
        shape = rng.choice([(3, 4), (4, 3), (2, 3, 2), (5, 2)])
        nel = int(np.prod(shape))
        x = np.array([rng.uniform(*box[0]) for _ in range(nel)]).reshape(shape)
        y = np.array([rng.uniform(*box[1]) for _ in range(nel)]).reshape(shape)
        with np.errstate(all="ignore"):
            ra, dec = w(x, y, with_bounding_box=False)
        ra, dec = np.array(ra, dtype=float), np.array(dec, dtype=float)
        pos = np.unravel_index(rng.randrange(1, nel - 1), shape)       # not the first / last element: those survive a transposition
        ra[pos] = np.nan
        for adaptive in (True, False):
            for detect in (True, False):
                rec = {"shape": list(shape), "nan_at": [int(i) for i in pos], "adaptive": adaptive, "detect_divergence": detect,
                       "pixels": [x.tolist(), y.tolist()]}
                ctx.case(key=("nd", k, adaptive, detect), nontrivial=True, kind=f"nd-batch/{len(shape)}d", sample={k_: rec[k_] for k_ in ("shape", "nan_at", "adaptive", "detect_divergence")})
                try:
                    with np.errstate(all="ignore"):
                        px, py = w.numerical_inverse(ra, dec, adaptive=adaptive, detect_divergence=detect, quiet=False, with_bounding_box=False)
                except NoConvergence as e:
                    problems.append((f"numerical_inverse on a {shape} grid of in-image points with one NaN at {tuple(int(i) for i in pos)} raised NoConvergence "
                                     f"(adaptive={adaptive}, detect_divergence={detect}; divergent {None if e.divergent is None else e.divergent.tolist()}, "
                                     f"slow {None if e.slow_conv is None else e.slow_conv.tolist()})", rec, None))
                    continue
                px, py = np.asarray(px, dtype=float), np.asarray(py, dtype=float)
                bad = np.hypot(px - x, py - y) > 1e-3
                bad[pos] = not (np.isnan(px[pos]) and np.isnan(py[pos]))
                if px.shape != tuple(shape) or bad.any():
                    problems.append((f"numerical_inverse on a {shape} grid with one NaN at {tuple(int(i) for i in pos)}: entries "
                                     f"{np.argwhere(bad).tolist()[:4]} are not the pixels they came from (adaptive={adaptive}, detect_divergence={detect})", rec, None))


def corpus_hole(ctx, problems):
    """the minimal history found while proving (NaN correction on the switch iteration), replayed on every run"""
    from astropy import coordinates as coord
    from astropy.modeling import models
    from gwcs import wcs, coordinate_frames as cf
    from gwcs.wcs import NoConvergence
    ident = models.Mapping((0, 1, 0, 1)) | models.Polynomial2D(1, c0_0=0, c1_0=1, c0_1=0) & models.Polynomial2D(1, c0_0=0, c1_0=0, c0_1=1)
    tr = (ident | models.Shift(-500) & models.Shift(-500) | models.Scale(0.05) & models.Scale(0.05) | models.Pix2Sky_ZEA() |
          models.RotateNative2Celestial(112.75440949708111, -44.3994120416343, 180))
    w = wcs.WCS([(cf.Frame2D(name="detector"), tr), (cf.CelestialFrame(reference_frame=coord.ICRS(), name="sky"), None)])
    w.bounding_box = ((0, 1000), (0, 1000))
    x = np.array([473.12489883089205, -46.83048678974626, 722.7327877199572, 1218.5962344883733, -204.42496020816338, 1064.3967671798212])
    y = np.array([548.8077506590071, 1377.8776831119865, -538.6274455112627, 297.5598767113678, 88.52370843126761, 936.0211759291994])
    with np.errstate(all="ignore"):
        ra, dec = w(x, y, with_bounding_box=False)
        div = slo = []
        try:
            px, py = w.numerical_inverse(ra, dec, adaptive=False, detect_divergence=True, quiet=False, maxiter=20, with_bounding_box=False)
        except NoConvergence as e:
            px, py = np.array(e.best_solution).T
            div = [] if e.divergent is None else list(e.divergent)
            slo = [] if e.slow_conv is None else list(e.slow_conv)
        except Exception as e:  # noqa
            return
        ra2, dec2 = w(px, py, with_bounding_box=False)
    err = np.hypot(((ra2 - ra + 180) % 360 - 180) * np.cos(np.deg2rad(dec)), dec2 - dec) / 0.05
    ctx.case(key="corpus-hole", nontrivial=True, kind="corpus", sample={"wcs": "ZEA 0.05 deg/px", "mode": "adaptive=False, detect_divergence=True, maxiter=20"})
    for i in range(len(x)):
        if i not in div and i not in slo and not (err[i] < 1e-3):
            problems.append((f"corpus (ZEA, 0.05 deg/px, adaptive=False, detect_divergence=True, maxiter=20): entry {i} with true pixel ({x[i]:.2f}, {y[i]:.2f}) "
                             f"comes back as ({px[i]:.2f}, {py[i]:.2f}) (forward error {err[i]:.3g} px) and is listed neither as divergent nor as slow",
                             {"how": "tools/checks/C05.py::corpus_hole"}, None))
            return


def codes(vals):
    """order-preserving integer codes (NaN -> None) for a list of floats"""
    fin = sorted(set(v for v in vals if v == v))
    rank = {v: i for i, v in enumerate(fin)}
    return [rank[v] if v == v else None for v in vals]


def copt(c):
    return "None" if c is None else f"(Some {gz(c)})"


def run(ctx):
    import gwcs.wcs as W
    from gwcs.wcs import NoConvergence
    ctx.trusted += ["hand model coq/theories/C05/Solver.v", "sys.settrace probe on _vectorized_fixed_point (reads locals at exit; no source hook)",
                    "tools/checks/C05.py generators and forward-error oracle"]
    ctx.gate()
    ctx.coq_theorems("C05/Solver", ["invA_na", "invB_enter", "invB_switch", "invB_ad", "final_adaptive", "final_nonadaptive",
                                    "reachA_inv", "reachB_inv", "unreported_implies_converged", "unreported_implies_converged_nonadaptive",
                                    "nan_world_not_reported", "hole_witness", "equal_norm_is_reported"])
    pins.check(ctx, PINS)
    rng = ctx.rng
    problems, terms, meta = [], [], []
    sclog = []
    orig_root = W.optimize.root

    def logged_root(f, x0, **kw):
        r = orig_root(f, x0, **kw)
        sclog.append(bool(r["success"]))
        return r
    W.optimize.root = logged_root
    nw = 14 if ctx.quick else 150
    corpus_hole(ctx, problems)
    nd_batches(ctx, rng, problems)
    try:
        for wi in range(nw):
            kind = "aligned" if wi % 2 == 0 else "edge"
            w, scale, box = make_wcs(rng, kind)
            n = rng.randint(1, 7)
            if kind == "aligned":
                x = np.array([rng.uniform(*box[0]) for _ in range(n)])
                y = np.array([rng.uniform(*box[1]) for _ in range(n)])
                flavour = rng.choice(["plain", "far-first", "far-first", "far-hemisphere"])
                if flavour == "far-first" and n > 1:
                    x[0], y[0] = 40000.0, -35000.0       # far outside, first in the batch (the only slowly converging entry is index 0)
            else:
                r = np.array([rng.uniform(0.5, 0.999) * (57.29 / scale) for _ in range(n)])
                r[0] = rng.uniform(0, 100)
                th = np.array([rng.uniform(0, 2 * np.pi) for _ in range(n)])
                x, y = 500 + r * np.cos(th), 500 + r * np.sin(th)
            with np.errstate(all="ignore"):
                ra, dec = w(x, y, with_bounding_box=False)
            ra, dec = np.atleast_1d(ra).astype(float), np.atleast_1d(dec).astype(float)
            if rng.random() < 0.3:
                ra[rng.randrange(n)] = np.nan
            if kind == "aligned" and n > 2 and flavour == "far-hemisphere":
                # world points in the far hemisphere (no pixel exists; the fitted starting guess is not finite there): they must be
                # reported like any other unsolved entry
                with np.errstate(all="ignore"):
                    rc, dc = (float(v) for v in w(float(np.mean(box[0])), float(np.mean(box[1])), with_bounding_box=False))
                for j, (fr_, fd_) in zip(rng.sample(range(n), 2), (((rc + 180.0) % 360.0, -dc), ((rc + 110.0) % 360.0, 0.0))):
                    ra[j], dec[j], x[j], y[j] = fr_, fd_, np.nan, np.nan
            modes = [(a, d) for a in (True, False) for d in (True, False)]
            for adaptive, detect in modes:
                for maxiter in ((1, 3, 50) if ctx.quick else (1, 2, 3, 5, 8, 20, 50)):
                    tol = rng.choice([1e-5, 1e-5, 1e-3, 1e-8])
                    sclog.clear()
                    exc = None
                    with Probe() as pr:
                        try:
                            with np.errstate(all="ignore"):
                                px, py = w.numerical_inverse(ra, dec, adaptive=adaptive, detect_divergence=detect, quiet=False,
                                                             maxiter=maxiter, tolerance=tol, with_bounding_box=False)
                        except NoConvergence as e:
                            exc = e
                        except Exception as e:  # noqa
                            if kind == "edge" and isinstance(e, UnboundLocalError):
                                # the approximate-inverse fit fails on a WCS that is NaN over part of its box (outside C05's family):
                                # an (obscure) error is raised, nothing is returned silently
                                ctx.notes.append("edge family: _fit_2D_poly raised UnboundLocalError (ill-conditioned first degree) — signalled, not silent")
                                continue
                            problems.append((f"numerical_inverse raised {type(e).__name__}: {str(e)[:100]}", {"mode": (adaptive, detect)}, None))
                            continue
                    s = pr.snap
                    div = [] if exc is None or exc.divergent is None else [int(i) for i in exc.divergent]
                    slo = [] if exc is None or exc.slow_conv is None else [int(i) for i in exc.slow_conv]
                    sol = np.array(exc.best_solution).T if exc is not None else np.array([np.atleast_1d(px), np.atleast_1d(py)])
                    ctx.case(key=(wi, adaptive, detect, maxiter, tol), nontrivial=(exc is not None or np.isnan(ra).any()),
                             kind=f"{kind}/{'adaptive' if adaptive else 'plain'}/{'detect' if detect else 'nodetect'}/{'raise' if exc else 'return'}",
                             sample={"wcs": kind, "n": n, "adaptive": adaptive, "detect_divergence": detect, "maxiter": maxiter, "tolerance": tol,
                                     "raised": exc is not None, "divergent": div, "slow_conv": slo})
                    # ---- oracle: every unreported entry maps forward onto its world point
                    with np.errstate(all="ignore"):
                        ra2, dec2 = w(sol[0], sol[1], with_bounding_box=False)
                    err = np.hypot(((ra2 - ra + 180) % 360 - 180) * np.cos(np.deg2rad(dec)), dec2 - dec) / scale
                    for i in range(n):
                        if i in div or i in slo:
                            continue
                        if np.isnan(ra[i]) or np.isnan(dec[i]):
                            if not (np.isnan(sol[0][i]) and np.isnan(sol[1][i])):
                                problems.append((f"NaN world input at index {i} gives pixel ({sol[0][i]}, {sol[1][i]}), not NaN", {"index": i}, None))
                            continue
                        if not (err[i] <= max(50 * tol, 1e-6)):
                            problems.append((f"numerical_inverse(quiet=False, adaptive={adaptive}, detect_divergence={detect}, maxiter={maxiter}, tolerance={tol}) "
                                             f"{'raised NoConvergence not listing' if exc else 'returned without raising although'} entry {i}: "
                                             f"pixel ({sol[0][i]:.3f}, {sol[1][i]:.3f}) maps {err[i]:.3g} px away from the requested world point (true pixel ({x[i]:.3f}, {y[i]:.3f}))",
                                             {"wcs": kind, "projection_scale": scale, "true_pixels": [x.tolist(), y.tolist()], "world": [ra.tolist(), dec.tolist()],
                                              "adaptive": adaptive, "detect_divergence": detect, "maxiter": maxiter, "tolerance": tol}, None))
                            break
                    if kind == "aligned" and exc is not None and maxiter == 50 and tol >= 1e-5:
                        inbox = [i for i in (div + slo) if box[0][0] <= x[i] <= box[0][1] and box[1][0] <= y[i] <= box[1][1] and not np.isnan(ra[i])]
                        if inbox:
                            problems.append((f"sky-aligned imaging WCS: points {inbox} inside the bounding box did not converge "
                                             f"(adaptive={adaptive}, detect_divergence={detect})", {"pixels": [x.tolist(), y.tolist()]}, None))
                    # ---- correspondence with the model's final classification
                    if s is None:
                        problems.append(("probe could not read the solver's locals (function renamed?)", {}, None))
                        continue
                    vals = list(s["dn"]) + list(s["dnprev"]) + [s["tol2"]]
                    cs = codes(vals)
                    cdn, cprev, ctol = cs[:n], cs[n:2 * n], cs[-1]
                    pixfin = [bool(np.all(np.isfinite(p))) for p in s["pix"]]
                    wfin = [bool(np.all(np.isfinite(q))) for q in s["world0"]]
                    # the probe sees pix AFTER the fallback solver wrote its solutions; pixfin before = pixfin after unless rescued
                    kmax = s["k"] >= s["maxiter"]
                    pts = glist([f"(mk {copt(a)} {copt(b)} {gbool(pf)}, {gbool(wf)})" for a, b, pf, wf in zip(cdn, cprev, pixfin, wfin)])
                    exp_div = glist([gbool(i in div) for i in range(n)])
                    exp_slow = glist([gbool(i in slo) for i in range(n)])
                    terms.append(f"({gz(ctol)}, {gbool(s['detect'])}, {gbool(kmax)}, {pts}, {glist([gbool(b) for b in sclog])}, {exp_div}, {exp_slow}, {gbool(exc is not None)})")
                    meta.append((kind, adaptive, detect, maxiter, tol, div, slo))
    finally:
        W.optimize.root = orig_root
    checker = """(fun c => match c with (tol2, det, kmax, pts, sclog, ediv, eslow, eraise) =>
      let fix go (ps : list (pt * bool)) (sl : list bool) : list bool * list bool :=
          match ps with
          | [] => ([], [])
          | (p, wf) :: r =>
              let d0 := in_div0 tol2 wf p in
              let uses := det && d0 in
              let sc := if uses then hd false sl else false in
              let rest := go r (if uses then tl sl else sl) in
              (divergent tol2 det wf p sc :: fst rest, slow tol2 det wf p sc kmax :: snd rest)
          end in
      let r := go pts sclog in
      beq_l (fst r) ediv && beq_l (snd r) eslow && Bool.eqb (existsb (fun b => b) (fst r) || existsb (fun b => b) (snd r)) eraise end)"""
    failing = ctx.coq_failing("trace", HEADER, terms, checker, shard=200)
    ctx.oblige("trace correspondence: model's final classification (Coq) = divergent / slow_conv lists and raise decision of every run",
               failing == [], "" if failing == [] else str([meta[i] for i in (failing or [])[:3]]))
    # ---- NIRCam reference WCS: converges over the bounding box in every mode (tested) ----------------
    try:
        import asdf
        from lib.common import REPO
        with asdf.open(os.path.join(REPO, "gwcs", "tests", "data", "nircamwcs.asdf"), lazy_load=False, memmap=False) as af:
            nw_ = af.tree["wcs"]
            bb = nw_.bounding_box.bounding_box(order="F")
            xs = np.array([rng.uniform(*bb[0]) for _ in range(25)])
            ys = np.array([rng.uniform(*bb[1]) for _ in range(25)])
            ra, dec = nw_(xs, ys)
            for adaptive in (True, False):
                for detect in (True, False):
                    try:
                        px, py = nw_.numerical_inverse(ra, dec, adaptive=adaptive, detect_divergence=detect, quiet=False)
                        if not (np.allclose(px, xs, atol=1e-3) and np.allclose(py, ys, atol=1e-3)):
                            problems.append((f"NIRCam WCS: iterative inverse off by {max(np.max(abs(px - xs)), np.max(abs(py - ys))):.3g} px "
                                             f"(adaptive={adaptive}, detect_divergence={detect})", {}, None))
                    except NoConvergence as e:
                        problems.append((f"NIRCam WCS: NoConvergence inside the bounding box (adaptive={adaptive}, detect_divergence={detect})", {}, None))
                    ctx.case(key=("nircam", adaptive, detect), nontrivial=True, kind="nircam", sample={"adaptive": adaptive, "detect_divergence": detect})
    except Exception as e:  # noqa
        ctx.notes.append(f"NIRCam reference WCS could not be exercised: {type(e).__name__}: {e}")
    seen = set()
    for what, rep, key in problems:
        kk = key or what[:60]
        if kk in seen:
            continue
        seen.add(kk)
        ctx.violation("C05 fails on the implementation: " + what, rep, key=key)
    if failing and not problems:
        ctx.violation("model classification and implementation lists disagree; the forward-error oracle found no unreported non-solution",
                      {"first": [str(meta[i]) for i in failing[:3]]}, found_input=False)
    ctx.extra["partial"] = "convergence / forward-error part is tested, the reporting-completeness part is proved"
