#!/bin/bash
# runs every check registered in MANIFEST.json (quick tier unless $1 = thorough) and prints one line each
cd "$(dirname "$0")/.."
tier=${1:-quick}
for id in $(python3 -c "import json;print(' '.join(c['property_id'] for c in json.load(open('MANIFEST.json'))['checks']))"); do
  out=$(./bin/check $id --tier $tier 2>&1 | grep -v conda); rc=$?
  echo "$out" | grep -E "^(VIOLATION|KNOWN-FINDING)" | cut -c1-200
  echo "$out" | tail -1
done
python3-vt - <<'PY'
import json,jsonschema,glob
sch=json.load(open('/root/.vp/EVIDENCE.schema.json'))
for f in sorted(glob.glob('evidence/*.json')):
    e=json.load(open(f)); jsonschema.validate(e,sch)
    c=e['coverage']; assert c['obligations']==c['discharged'], f
print('evidence files valid:', len(glob.glob('evidence/*.json')))
jsonschema.validate(json.load(open('MANIFEST.json')), json.load(open('/root/.vp/MANIFEST.schema.json')))
PY
