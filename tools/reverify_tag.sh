#!/bin/bash
# tools/reverify_tag.sh <tag> [jobs]  — like reverify_parallel.sh but only for seeded/Cxx_<tag> (one new round), each in its own
# scratch worktree of /repo's HEAD under /tmp (removed afterwards); /repo's working tree is never touched.
cd "$(dirname "$0")/.."
tag=$1; jobs=${2:-10}
out=.work/reverify_tag_$tag; rm -rf $out; mkdir -p $out
one_seed() {
  d=$1; out=$2
  n=$(basename $d); pid=${n%%_*}; wt=/tmp/rv_$n
  git -C /repo worktree remove --force $wt >/dev/null 2>&1; rm -rf $wt
  for try in 1 2 3 4 5 6; do
    git -C /repo worktree add --detach $wt HEAD >/dev/null 2>&1 && break
    sleep $((RANDOM % 3 + 1))
  done
  if ! git -C $wt apply $(pwd)/$d/patch.diff 2>/dev/null; then
    printf "%-7s PATCH-DOES-NOT-APPLY\n" $n > $out/$n.log
  else
    o=$(REPO_ROOT=$wt VERIF_EVIDENCE_DIR=$(pwd)/.work/seed_evidence ./bin/check $pid 2>&1 | grep -v conda)
    echo "$o" > $out/$n.full
    first=$(echo "$o" | grep -A1 '^VIOLATION' | head -2 | tr '\n' ' ' | cut -c1-420)
    if echo "$o" | grep -q '^VIOLATION'; then r=REPORTED; else r=MISSED; fi
    ni=""; echo "$first" | grep -q 'no-failing-input-found' && ni="(no input)"
    printf "%-7s %s %s %s\n" $n $r "$ni" "$(echo "$first" | sed 's/.*what: //')" > $out/$n.log
  fi
  git -C /repo worktree remove --force $wt >/dev/null 2>&1; rm -rf $wt
}
export -f one_seed
ls -d seeded/C??_$tag | xargs -P $jobs -I{} bash -c "one_seed {} $out"
git -C /repo worktree prune
cat $out/*.log
