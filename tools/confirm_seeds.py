#!/usr/bin/env python3
"""tools/confirm_seeds.py <tag> [Cxx ...] [--import-from DIR] [--jobs N]
Stages (optionally) and confirms a round of seeded changes, each in its OWN scratch worktree of /repo's HEAD (/repo untouched):
  - the patch applies; the test suite with the change has exactly the baseline failures; seed_demo exits 1 with the change, 0 without.
Results are merged into seeded/Cxx_<tag>/meta.json.  The checks themselves are run afterwards with tools/reverify_parallel.sh."""
import json
import os
import shutil
import subprocess
import sys
import time
from concurrent.futures import ThreadPoolExecutor

ROOT = os.path.dirname(os.path.dirname(os.path.abspath(__file__)))
PY = "/venv/bin/python"
BASE_FAIL = {"gwcs/tests/test_extension.py::test_open_legacy_without_warning", "gwcs/tests/test_wcs.py::test_high_level_api"}


def sh(cmd, cwd=None, timeout=1800):
    p = subprocess.run(cmd, shell=True, cwd=cwd, capture_output=True, text=True, timeout=timeout)
    return p.returncode, p.stdout + p.stderr


def one(pid, tag, src):
    sname = f"{pid}_{tag}" if tag else pid
    sd = os.path.join(ROOT, "seeded", sname)
    os.makedirs(sd, exist_ok=True)
    if src:
        for a, b in (("seed_patch.diff", "patch.diff"), ("seed_demo.py", "demo.py"), ("seed_meta.json", "meta.json")):
            f = os.path.join(src, pid, a)
            if os.path.exists(f):
                shutil.copy(f, os.path.join(sd, b))
    patch = os.path.join(sd, "patch.diff")
    if not os.path.exists(patch):
        return sname, {"error": "no patch"}
    wt = f"/tmp/cs_{sname}"
    sh(f"git -C /repo worktree remove --force {wt}")
    shutil.rmtree(wt, ignore_errors=True)
    for _ in range(8):
        rc, _o = sh(f"git -C /repo worktree add --detach {wt} HEAD")
        if rc == 0:
            break
        time.sleep(1.5)
    res = {}
    try:
        rc, out = sh(f"git apply {patch}", cwd=wt)
        res["patch_applies_to_repo_HEAD"] = rc == 0
        if rc != 0:
            return sname, res
        shutil.copy(os.path.join(sd, "demo.py"), os.path.join(wt, "seed_demo.py"))
        rc, out = sh(f"{PY} -m pytest -q -p no:cacheprovider --ignore=seed_demo.py 2>&1 | tail -6", cwd=wt)
        failed = {l.split()[1] for l in out.splitlines() if l.startswith("FAILED")}
        res["suite_with_change"] = out.strip().splitlines()[-1] if out.strip() else ""
        res["suite_same_as_baseline"] = failed == BASE_FAIL
        rc1, _o = sh(f"{PY} seed_demo.py", cwd=wt)
        res["demo_exit_with_change"] = rc1
        sh(f"git apply -R {patch}", cwd=wt)
        rc0, out0 = sh(f"{PY} seed_demo.py", cwd=wt)
        res["demo_exit_without_change"] = rc0
    finally:
        sh(f"git -C /repo worktree remove --force {wt}")
        shutil.rmtree(wt, ignore_errors=True)
    mp = os.path.join(sd, "meta.json")
    meta = json.load(open(mp)) if os.path.exists(mp) else {}
    meta["confirmed"] = res
    json.dump(meta, open(mp, "w"), indent=1)
    return sname, res


def main():
    args = sys.argv[1:]
    tag = args[0]
    src = args[args.index("--import-from") + 1] if "--import-from" in args else None
    jobs = int(args[args.index("--jobs") + 1]) if "--jobs" in args else 8
    pids = [a for a in args[1:] if a.startswith("C") and len(a) == 3] or [f"C{i:02d}" for i in range(1, 21)]
    with ThreadPoolExecutor(jobs) as ex:
        for sname, res in ex.map(lambda p: one(p, tag, src), pids):
            ok = res.get("patch_applies_to_repo_HEAD") and res.get("suite_same_as_baseline") and res.get("demo_exit_with_change") == 1 \
                and res.get("demo_exit_without_change") == 0
            print(f"{sname:8s} {'CONFIRMED' if ok else 'NOT-CONFIRMED'} {'' if ok else res}")
    sh("git -C /repo worktree prune")


if __name__ == "__main__":
    main()
