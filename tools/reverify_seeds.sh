#!/bin/bash
# re-runs every kept seeded change against its check (no suite run; use tools/seedtest.py without --no-suite for a full confirmation)
# and prints, per seed, whether it was reported and the first violation, to be read for relevance. Applies each patch to /repo and restores it.
cd "$(dirname "$0")/.."
for d in seeded/C*; do
  n=$(basename $d); pid=${n%%_*}; tag=""
  case $n in *_b) tag="--tag b";; *_c) tag="--tag c";; *_d) tag="--tag d";; *_e) tag="--tag e";; *_f) tag="--tag f";; *_g) tag="--tag g";; esac
  out=$(/venv/bin/python tools/seedtest.py $pid $tag --no-suite 2>&1 | grep -v conda)
  caught=$(echo "$out" | grep -c '"check_caught": true')
  first=$(echo "$out" | grep '"check_first_violation"' | sed 's/.*what: //' | cut -c1-160)
  noinput=$(echo "$out" | grep '"check_first_violation"' | grep -c 'no-failing-input-found')
  printf "%-7s %s %s %s\n" "$n" "$([ $caught = 1 ] && echo REPORTED || echo MISSED)" "$([ $noinput = 1 ] && echo '(no input)' || echo '')" "$first"
done
git -C /repo status --short | head -3
