"""AST pins for hand-written models: the model of a function is tied to the source text it was written against.
pins.json maps "<file>::<qualname>" -> sha1 of the function's normalised AST (docstrings removed).
A changed hash means the hand model is no longer known to describe the code: the check reports the obligation as
broken (and then searches the implementation for a concrete failing input, as for any broken correspondence).
   python3 tools/lib/pins.py --update      rewrites pins.json for every pinned function (after reviewing a change)"""
import ast
import hashlib
import json
import os

ROOT = os.environ.get("VERIF_ROOT", os.path.dirname(os.path.dirname(os.path.dirname(os.path.abspath(__file__)))))
REPO = os.environ.get("REPO_ROOT", "/repo")
PINFILE = os.path.join(ROOT, "pins.json")


def find(tree, qual):
    parts = qual.split(".")
    setter = False
    if parts[-1].endswith("@setter"):
        parts[-1] = parts[-1][:-7]
        setter = True
    nodes = tree.body
    node = None
    for i, p in enumerate(parts):
        found = None
        for n in nodes:
            if isinstance(n, (ast.FunctionDef, ast.ClassDef)) and n.name == p:
                if isinstance(n, ast.FunctionDef) and i == len(parts) - 1:
                    is_setter = any(ast.unparse(d).endswith(".setter") for d in n.decorator_list)
                    if is_setter != setter:
                        continue
                found = n
                break
        if found is None:
            return None
        node = found
        nodes = found.body
    return node


def fingerprint(node):
    node = ast.parse(ast.unparse(node)).body[0]
    for n in ast.walk(node):
        if isinstance(n, (ast.FunctionDef, ast.ClassDef)) and n.body and isinstance(n.body[0], ast.Expr) \
                and isinstance(n.body[0].value, ast.Constant) and isinstance(n.body[0].value.value, str):
            n.body = n.body[1:] or [ast.Pass()]
    return hashlib.sha1(ast.dump(node, annotate_fields=False, include_attributes=False).encode()).hexdigest()[:16]


def current(key):
    path, qual = key.split("::")
    tree = ast.parse(open(os.path.join(REPO, path)).read())
    node = find(tree, qual)
    return None if node is None else fingerprint(node)


def check(ctx, keys):
    pins = json.load(open(PINFILE)) if os.path.exists(PINFILE) else {}
    bad = []
    for k in keys:
        cur = current(k)
        if cur is None or pins.get(k) != cur:
            bad.append(k)
    ctx.oblige("hand model still tied to the source it was written against (AST pins: " + ", ".join(q.split("::")[1] for q in keys) + ")",
               not bad, "changed or missing: " + ", ".join(bad))
    return bad


if __name__ == "__main__":
    import sys
    pins = json.load(open(PINFILE)) if os.path.exists(PINFILE) else {}
    sys.path.insert(0, os.path.join(ROOT, "tools"))
    import importlib
    import glob
    keys = set(pins)
    for f in glob.glob(os.path.join(ROOT, "tools", "checks", "C*.py")):
        m = importlib.import_module("checks." + os.path.basename(f)[:-3])
        keys |= set(getattr(m, "PINS", []))
    for k in sorted(keys):
        pins[k] = current(k)
        print(k, pins[k])
    json.dump(pins, open(PINFILE, "w"), indent=1, sort_keys=True)
