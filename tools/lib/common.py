"""Shared machinery for the per-property checks.

A check is a module tools/checks/<Cxx>.py exposing  run(ctx) -> None .  It uses
the Ctx object to
  * build / re-check Coq files                      (ctx.coq_build, ctx.coq_file)
  * evaluate the executable model on case files      (ctx.coq_failing)
  * record obligations, cases, violations            (ctx.oblige, ctx.case, ctx.violation)
and tools/check.py turns what was recorded into the evidence file, the
KNOWN-FINDING / VIOLATION lines and the exit status.
"""
import fcntl
import hashlib
import json
import os
import random
import re
import shutil
import subprocess
import sys
import time

ROOT = os.environ.get("VERIF_ROOT", "/verif")
REPO = os.environ.get("REPO_ROOT", "/repo")
COQ = os.path.join(ROOT, "coq")
FORBIDDEN = re.compile(
    r"\b(Admitted|admit|Axiom|Axioms|Parameter|Parameters|Conjecture|Conjectures|"
    r"Admit\s+Obligations|bypass_check|native_compute)\b|Unset\s+Guard|"
    r"Unset\s+Positivity|Unset\s+Universe|type-in-type|impredicative-set")

KERNEL_TB = ("Coq 8.16.1 kernel via coqc full .vo builds; vm_compute (kernel VM incl. "
             "primitive floats/ints); no native_compute")


def strip_comments(src):
    out, depth, i = [], 0, 0
    while i < len(src):
        if src.startswith("(*", i):
            depth += 1
            i += 2
        elif src.startswith("*)", i) and depth:
            depth -= 1
            i += 2
        else:
            if not depth:
                out.append(src[i])
            i += 1
    return "".join(out)


class Ctx:
    def __init__(self, pid, tier, seed):
        self.pid, self.tier, self.seed = pid, tier, seed
        self.t0 = time.time()
        self.rng = random.Random(seed)
        self.work = os.path.join(ROOT, ".work", pid)
        shutil.rmtree(self.work, ignore_errors=True)
        os.makedirs(self.work, exist_ok=True)
        self.replays = os.path.join(ROOT, ".work", "replays", pid)
        os.makedirs(self.replays, exist_ok=True)
        self.obligations = []       # (name, ok, detail)
        self.assumptions = {}       # theorem -> list of axioms
        self.violations = []        # dict(kind, what, replay, found_input, key)
        self.cases = 0
        self.nontrivial = set()
        self.samples = []
        self.hist = {}
        self.notes = []
        self.trusted = [KERNEL_TB]
        self.extra = {}
        self.quick = (tier == "quick")

    # ---------- bookkeeping -------------------------------------------------
    def oblige(self, name, ok, detail=""):
        self.obligations.append((name, bool(ok), detail))
        return ok

    def case(self, key=None, nontrivial=True, sample=None, kind=None):
        """Record one explored case. key: hashable canonical form (for distinctness)."""
        self.cases += 1
        if nontrivial and key is not None:
            self.nontrivial.add(hashlib.md5(repr(key).encode()).hexdigest())
        if sample is not None and len(self.samples) < 6:
            self.samples.append(sample)
        if kind is not None:
            self.hist[kind] = self.hist.get(kind, 0) + 1

    def violation(self, what, replay_obj, key=None, found_input=True):
        """Record a violation.  key names the input class (matched against
        known_findings.json); found_input=False => no-failing-input-found."""
        n = len(self.violations)
        same = sum(1 for v in self.violations if v["key"] == key)
        # one replay per named input class (so that a listed finding cannot crowd out a different violation),
        # at most 8 for unnamed ones; keep counting the rest
        if same >= (8 if key is None else 1) and found_input:
            self.extra["violations_not_listed"] = self.extra.get("violations_not_listed", 0) + 1
            return
        path = os.path.join(self.replays, f"{self.pid}_{n}.json")
        obj = {"property": self.pid, "what": what, "key": key,
               "found_input": found_input, "replay": replay_obj}
        with open(path, "w") as f:
            json.dump(obj, f, indent=1, default=str)
        self.violations.append(dict(what=what, replay=path, key=key, found_input=found_input))

    # ---------- Coq ---------------------------------------------------------
    def gate(self, files=None):
        """Forbidden-construct gate over the Coq sources."""
        bad = []
        for dp, _, fns in os.walk(COQ):
            for fn in fns:
                if fn.endswith(".v"):
                    p = os.path.join(dp, fn)
                    src = strip_comments(open(p).read())
                    m = FORBIDDEN.search(src)
                    if m:
                        bad.append(f"{p}: {m.group(0)}")
        self.oblige("gate:no-Admitted/Axiom/Parameter/guard-switch in coq/", not bad, "; ".join(bad))
        return not bad

    def coq_build(self, targets, timeout=1500):
        """make the given .vo targets (paths relative to coq/) under a lock."""
        os.makedirs(os.path.join(ROOT, ".work"), exist_ok=True)
        with open(os.path.join(ROOT, ".work", "coq.lock"), "w") as lk:
            fcntl.flock(lk, fcntl.LOCK_EX)
            if not os.path.exists(os.path.join(COQ, "Makefile")):
                subprocess.run(["coq_makefile", "-f", "_CoqProject", "-o", "Makefile"],
                               cwd=COQ, capture_output=True)
            p = subprocess.run(["timeout", str(timeout), "make", "-j8"] + list(targets),
                               cwd=COQ, capture_output=True, text=True)
        return p.returncode == 0, (p.stdout + p.stderr)[-4000:]

    def coq_theorems(self, relpath, names, timeout=1500):
        """Build theories/<relpath>.vo and record one obligation per theorem name;
        capture Print Assumptions via a probe file."""
        ok, log = self.coq_build([f"theories/{relpath}.vo"], timeout)
        src = strip_comments(open(os.path.join(COQ, "theories", relpath + ".v")).read())
        for n in names:
            present = re.search(r"\b(Theorem|Lemma|Corollary|Example|Definition)\s+%s\b" % re.escape(n), src)
            self.oblige(f"{relpath}:{n}", ok and bool(present),
                        "" if ok else log[-1500:])
        if ok:
            mod = "GW." + relpath.replace("/", ".")
            probe = f"Require Import {mod}.\n" + "".join(
                f'Print Assumptions {n}.\n' for n in names)
            out = self.coq_file("assumptions_" + relpath.replace("/", "_"), probe)[1]
            self._parse_assumptions(names, out)
            if not self.quick:
                self.coqchk([mod])
        return ok, log

    def coqchk(self, modules, extra_Q=(), timeout=2400):
        """thorough tier: Coq's independent checker re-checks the compiled module(s) with everything they depend on and
        lists the axioms of the whole context (-o); one obligation per call."""
        cmd = ["timeout", str(timeout), "coqchk", "-silent", "-o", "-Q", os.path.join(COQ, "theories"), "GW"]
        for d, l in extra_Q:
            cmd += ["-Q", d, l]
        cmd += list(modules)
        p = subprocess.run(cmd, capture_output=True, text=True, cwd=COQ)
        out = p.stdout + p.stderr
        summary = out[out.find("CONTEXT SUMMARY"):] if "CONTEXT SUMMARY" in out else out[-1500:]

        def section(title):
            m = re.search(r"\* %s:(.*?)(?=\n\* |\Z)" % re.escape(title), summary, re.S)
            body = (m.group(1) if m else "").strip()
            return [] if body in ("<none>", "") else [l.strip() for l in body.splitlines() if l.strip()]
        axioms = section("Axioms")
        unsafe = (section("Constants/Inductives relying on type-in-type") + section("Constants/Inductives relying on unsafe (co)fixpoints")
                  + section("Inductives whose positivity is assumed"))
        self.oblige("coqchk:" + ",".join(modules), p.returncode == 0 and not unsafe, summary[-800:] if (p.returncode or unsafe) else "")
        self.extra.setdefault("coqchk", {})[",".join(modules)] = {"axioms_of_loaded_context": axioms, "unsafe": unsafe}

    def _parse_assumptions(self, names, out):
        # Output: one block per theorem: "Closed under the global context" or "Axioms:\n name : type ..."
        blocks = re.split(r"(?=Closed under the global context|Axioms:)", out)
        blocks = [b for b in blocks if b.strip()]
        for n, b in zip(names, blocks):
            if b.startswith("Closed"):
                self.assumptions[n] = []
            else:
                ax = re.findall(r"^([A-Za-z_][\w\.']*)\s*:", b, re.M)
                self.assumptions[n] = sorted(set(ax))

    def coq_file(self, name, src, timeout=900, extra_Q=()):
        """Write .work/<pid>/<name>.v, compile it, return (ok, output)."""
        path = os.path.join(self.work, name + ".v")
        with open(path, "w") as f:
            f.write(src)
        cmd = ["timeout", str(timeout), "coqc", "-Q", os.path.join(COQ, "theories"), "GW",
               "-Q", self.work, "W" + self.pid]
        for d, l in extra_Q:
            cmd += ["-Q", d, l]
        cmd.append(path)
        p = subprocess.run(cmd, capture_output=True, text=True, cwd=self.work)
        return p.returncode == 0, p.stdout + p.stderr

    def dyn_build(self, label, gen_files, dyn_dirs, order, timeout=900):
        """Per-run build of files that depend on regenerated code.
        gen_files: {basename: source} written into the work dir; dyn_dirs: committed dirs under coq/dyn
        whose .v files are copied next to them; order: basenames compiled in sequence under -Q . <label>.
        Returns {basename: (ok, output)} (stops at the first failure)."""
        import glob
        for name, src in gen_files.items():
            with open(os.path.join(self.work, name + ".v"), "w") as f:
                f.write(src)
        for d in dyn_dirs:
            for fn in glob.glob(os.path.join(COQ, "dyn", d, "*.v")):
                shutil.copy(fn, self.work)
        res = {}
        for name in order:
            cmd = ["timeout", str(timeout), "coqc", "-Q", os.path.join(COQ, "theories"), "GW",
                   "-Q", self.work, label, os.path.join(self.work, name + ".v")]
            p = subprocess.run(cmd, capture_output=True, text=True, cwd=self.work)
            res[name] = (p.returncode == 0, p.stdout + p.stderr)
            if p.returncode != 0:
                break
        return res

    def dyn_theorems(self, label, fname, res, names):
        """one obligation per theorem of a dyn Properties file + its Print Assumptions output"""
        ok, out = res.get(fname, (False, "not compiled: an earlier file failed: " +
                                  "; ".join(f"{k}: {v[1][-400:]}" for k, v in res.items() if not v[0])))
        for n in names:
            self.oblige(f"{label}.{fname}:{n}", ok, "" if ok else out[-1200:])
        if ok:
            self._parse_assumptions(names, out)
        return ok

    def coq_failing(self, name, header, case_terms, checker, shard=400, par=8, timeout=900, label=None):
        """Evaluate `checker case` (bool) on every case term inside Coq (vm_compute) and
        return the list of indices whose result is false, or None on a Coq error.
        header: Require lines.  case_terms: list of Gallina term strings."""
        shards = [case_terms[i:i + shard] for i in range(0, len(case_terms), shard)]
        procs = []
        failing = []
        err = None
        for si, sh in enumerate(shards):
            body = header + "\nDefinition cases := (\n  " + "\n  :: ".join(sh) + "\n  :: nil).\n"
            body += ("Definition failing := (fix go (i : nat) l := match l with nil => nil | c :: r => "
                     f"if {checker} c then go (S i) r else i :: go (S i) r end) 0%nat cases.\n")
            body += "Eval vm_compute in failing.\n"
            path = os.path.join(self.work, f"{name}_{si}.v")
            with open(path, "w") as f:
                f.write(body)
            cmd = ["timeout", str(timeout), "coqc", "-Q", os.path.join(COQ, "theories"), "GW",
                   "-Q", self.work, label or ("W" + self.pid), path]
            procs.append((si, subprocess.Popen(cmd, stdout=subprocess.PIPE, stderr=subprocess.STDOUT,
                                               text=True, cwd=self.work)))
            if len(procs) >= par:
                err = self._drain(procs, shard, failing) or err
                procs = []
        err = self._drain(procs, shard, failing) or err
        if err:
            self.notes.append("coq_failing error: " + err[-800:])
            return None
        return sorted(failing)

    @staticmethod
    def _drain(procs, shard, failing):
        err = None
        for si, p in procs:
            out, _ = p.communicate()
            if p.returncode != 0:
                err = out
                continue
            m = re.search(r"=\s*(\[.*?\]|nil)\s*:\s*list nat", out, re.S)
            if not m:
                err = "unparsable: " + out[-500:]
                continue
            for d in re.findall(r"\d+", m.group(1)):
                failing.append(si * shard + int(d))
        return err


# ---------- Gallina literal helpers ---------------------------------------
def gz(z):
    z = int(z)
    return f"({z})%Z" if z < 0 else f"{z}%Z"


def glist(items):
    return "[" + "; ".join(items) + "]"


def gzl(zs):
    return glist([gz(z) for z in zs])


def gbool(b):
    return "true" if b else "false"


def gstr(s):
    return '"' + s.replace('"', '""') + '"%string'


def gfloat(x):
    """Exact Gallina primitive-float term for a Python float (via integer mantissa/exponent)."""
    import math
    if x != x:
        return "PrimFloat.nan"
    if x == math.inf:
        return "PrimFloat.infinity"
    if x == -math.inf:
        return "PrimFloat.neg_infinity"
    if x == 0:
        return "PrimFloat.neg_zero" if math.copysign(1, x) < 0 else "PrimFloat.zero"
    m, e = math.frexp(x)
    mi = int(m * (1 << 53))
    return f"(GW.Base.Fl.mk {gz(mi)} {gz(e - 53)})"


def load_known():
    p = os.path.join(ROOT, "known_findings.json")
    if not os.path.exists(p):
        return []
    return json.load(open(p)).get("findings", [])
