"""Shared generators/drivers for the pipeline properties (C01, C02, C07): integer-exact leaf
transforms, frames as objects or bare names, Gallina encodings."""
import numpy as np

from lib.common import gz, glist, gzl

ERRMAP = {"CoordinateFrameError": "CoordinateFrameError", "ValueError": "ValueError", "TypeError": "TypeError",
          "NotImplementedError": "NotImplementedError", "IndexError": "IndexError", "KeyError": "KeyError"}


def errkind(e):
    return ERRMAP.get(type(e).__name__, "OtherError")


class Leaf:
    def __init__(self, lid, perm, signs, offs, invertible=True, custom=None):
        self.lid, self.perm, self.signs, self.offs, self.invertible = lid, perm, signs, offs, invertible
        self.custom = custom       # a Leaf used as user-supplied inverse

    def model(self):
        from astropy.modeling import models
        n = len(self.perm)
        m = models.Mapping(tuple(self.perm))
        if self.invertible:
            sc = models.Scale(self.signs[0])
            sh = models.Shift(self.offs[0])
            for k in range(1, n):
                sc = sc & models.Scale(self.signs[k])
                sh = sh & models.Shift(self.offs[k])
            out = m | sc | sh
            if self.custom is not None:
                out.inverse = self.custom.model()
            return out
        pl = models.Polynomial1D(1, c0=self.offs[0], c1=self.signs[0])
        for k in range(1, n):
            pl = pl & models.Polynomial1D(1, c0=self.offs[k], c1=self.signs[k])
        return m | pl

    def apply(self, x):
        return [s * x[p] + o for p, s, o in zip(self.perm, self.signs, self.offs)]

    def coq_def(self):
        return ("{| lperm := " + glist([f"{p}%nat" for p in self.perm]) + "; lsign := " + gzl(self.signs) +
                "; loff := " + gzl(self.offs) + "; lcustom := " +
                ("None" if self.custom is None else
                 "(Some (" + glist([f"{p}%nat" for p in self.custom.perm]) + ", " + gzl(self.custom.signs) + ", " + gzl(self.custom.offs) + "))")
                + " |}")

    def coq_model(self):
        return f"(Some {{| te := Leaf {gz(self.lid)} {'true' if self.invertible else 'false'}; mbox := None |}})"


def random_leaf(rng, lid, n, p_noinv=0.12):
    perm = list(range(n))
    rng.shuffle(perm)
    signs = [rng.choice([1, -1]) for _ in range(n)]
    offs = [rng.randint(-9, 9) for _ in range(n)]
    return Leaf(lid, perm, signs, offs, invertible=rng.random() > p_noinv)


def make_frame(n, name, as_obj):
    from gwcs import coordinate_frames as cf
    if not as_obj:
        return name
    return cf.CoordinateFrame(naxes=n, axes_type=("SPATIAL",) * n, axes_order=tuple(range(n)), name=name)


def coq_fref(code, as_obj, ident=None):
    return f"(FObj {gz(code)} {gz(ident if ident is not None else 100 + code)})" if as_obj else f"(FStr {gz(code)})"


def to_ints(res, n_expected=None):
    """implementation output -> list of ints (exact), or None if not integral"""
    arr = np.atleast_1d(np.asarray(res, dtype=float)).ravel()
    if not np.all(np.isfinite(arr)) or not np.all(arr == np.round(arr)):
        return None
    return [int(v) for v in arr]
