"""Generated WCS families shared by several checks (C03, C04, C06, C08, C12, C13, C16, C18).

Every builder returns an `Fam` with the WCS and what the oracle needs to know about it."""
import numpy as np


class Fam:
    def __init__(self, name, w, n_in, n_out, exact=False, analytic_inverse=True, units=False, twin=None, box=None):
        self.name, self.w, self.n_in, self.n_out = name, w, n_in, n_out
        self.exact = exact                  # integer-exact arithmetic on integer inputs
        self.analytic_inverse = analytic_inverse
        self.units = units                  # transforms carry units
        self.twin = twin                    # callable building the unit-free twin
        self.box = box

    def __repr__(self):
        return f"<Fam {self.name}>"


def _imports():
    import astropy.units as u
    from astropy import coordinates as coord
    from astropy.modeling import models
    from astropy.time import Time
    from gwcs import coordinate_frames as cf, wcs
    return u, coord, models, Time, cf, wcs


def affine_nd(rng, n, box=False, names=False, frame_axes_order=None):
    """generic n-D frames, integer shifts / sign flips / axis permutation: exact.  frame_axes_order: the axes_order attribute of the
    input frame object (the positions of the transform's inputs are what they are whatever the frame's axes_order says)"""
    u, coord, models, Time, cf, wcs = _imports()
    perm = list(range(n))
    rng.shuffle(perm)
    signs = [rng.choice([1, -1]) for _ in range(n)]
    offs = [rng.randint(-9, 9) for _ in range(n)]
    sc = models.Scale(signs[0])
    sh = models.Shift(offs[0])
    for k in range(1, n):
        sc = sc & models.Scale(signs[k])
        sh = sh & models.Shift(offs[k])
    tr = models.Mapping(tuple(perm)) | sc | sh
    det = "detector" if names else cf.CoordinateFrame(naxes=n, axes_type=("PIXEL",) * n,
                                                        axes_order=tuple(frame_axes_order) if frame_axes_order else tuple(range(n)),
                                                        name="detector", unit=(u.pix,) * n)
    out = cf.CoordinateFrame(naxes=n, axes_type=("SPATIAL",) * n, axes_order=tuple(range(n)), name="world",
                             unit=(u.pix,) * n)
    w = wcs.WCS([(det, tr), (out, None)])
    bx = None
    if box:
        bx = tuple((float(rng.randint(-5, 0)), float(rng.randint(3, 30))) for _ in range(n))
        w.bounding_box = bx[0] if n == 1 else bx
    f = Fam(f"affine{n}d", w, n, n, exact=True, box=bx)
    f.perm, f.signs, f.offs = perm, signs, offs
    return f


def imaging(rng, units=False, box=True, distortion=False, ra=None, dec=None, ang=None):
    """2-D celestial TAN imaging WCS; with `distortion` there is no analytic inverse"""
    u, coord, models, Time, cf, wcs = _imports()
    ra = rng.uniform(0, 360) if ra is None else ra
    dec = rng.uniform(-70, 70) if dec is None else dec
    scale = 10 ** rng.uniform(-5, -3.3)
    # the iterative solver is designed for pixel axes aligned with the sky axes: family members without analytic
    # inverse are aligned (either parity); the others get any rotation
    if ang is None:
        ang = rng.choice([0.0, 180.0]) if distortion else rng.uniform(0, 360)
    crpix = (rng.uniform(100, 900), rng.uniform(100, 900))
    if units:
        tr = (models.Shift(-crpix[0] * u.pix) & models.Shift(-crpix[1] * u.pix) |
              models.Rotation2D(ang * u.deg) |       # rotation of pixel quantities keeps pix
              models.Multiply(scale * u.deg / u.pix) & models.Multiply(scale * u.deg / u.pix) |
              models.Pix2Sky_TAN() | models.RotateNative2Celestial(ra * u.deg, dec * u.deg, 180 * u.deg))
    else:
        tr = (models.Shift(-crpix[0]) & models.Shift(-crpix[1]) | models.Rotation2D(ang) |
              models.Scale(scale) & models.Scale(scale) | models.Pix2Sky_TAN() |
              models.RotateNative2Celestial(ra, dec, 180))
    analytic = True
    if distortion and not units:
        p = models.Polynomial2D(2, c0_0=0, c1_0=1, c0_1=0, c2_0=rng.uniform(-1e-6, 1e-6), c1_1=rng.uniform(-1e-6, 1e-6))
        q = models.Polynomial2D(2, c0_0=0, c1_0=0, c0_1=1, c0_2=rng.uniform(-1e-6, 1e-6), c1_1=rng.uniform(-1e-6, 1e-6))
        tr = (models.Mapping((0, 1, 0, 1)) | p & q) | tr
        analytic = False
    det = cf.Frame2D(name="detector", unit=(u.pix, u.pix))
    sky = cf.CelestialFrame(reference_frame=coord.ICRS(), name="sky", unit=(u.deg, u.deg))
    w = wcs.WCS([(det, tr), (sky, None)])
    bx = None
    if box:
        bx = ((-0.5, 1023.5), (-0.5, 767.5))
        w.bounding_box = tuple((a * u.pix, b * u.pix) for a, b in bx) if units else bx
    f = Fam("imaging" + ("_units" if units else "") + ("_dist" if distortion else ""), w, 2, 2, analytic_inverse=analytic,
            units=units, box=bx)
    f.scale = scale
    return f


def spectral_1d(rng, units=False, box=False):
    u, coord, models, Time, cf, wcs = _imports()
    a, b = rng.uniform(0.5, 3), rng.uniform(1, 5)
    if units:
        tr = models.Multiply(a * u.um / u.pix) | models.Shift(b * u.um)
    else:
        tr = models.Scale(a) | models.Shift(b)
    det = cf.CoordinateFrame(naxes=1, axes_type=("PIXEL",), axes_order=(0,), name="detector", unit=(u.pix,))
    spec = cf.SpectralFrame(name="wave", unit=(u.um,), axes_order=(0,), axes_names=("lambda",))
    w = wcs.WCS([(det, tr), (spec, None)])
    bx = None
    if box:
        bx = (2.0, 7.0)
        w.bounding_box = (bx[0] * u.pix, bx[1] * u.pix) if units else bx
    return Fam("spectral1d" + ("_units" if units else ""), w, 1, 1, units=units, box=(bx,) if bx else None)


def cube_3d(rng, order=(0, 1, 2), units=False, box=False):
    """celestial pair + spectral axis; `order` = world axis positions of (lon, lat, wave)"""
    u, coord, models, Time, cf, wcs = _imports()
    sx, sy, sw = rng.uniform(0.5, 2), rng.uniform(0.5, 2), rng.uniform(0.5, 2)
    if units:
        base = (models.Multiply(sx * u.arcsec / u.pix) & models.Multiply(sy * u.arcsec / u.pix) &
                models.Multiply(sw * u.nm / u.pix))
    else:
        base = models.Scale(sx) & models.Scale(sy) & models.Scale(sw)
    # world axis k of the transform output is base output inv[k]
    inv = [order.index(k) for k in range(3)]
    tr = base | models.Mapping(tuple(inv)) if tuple(order) != (0, 1, 2) else base
    det = cf.CoordinateFrame(naxes=3, axes_type=("PIXEL",) * 3, axes_order=(0, 1, 2), name="detector", unit=(u.pix,) * 3)
    sky = cf.CelestialFrame(reference_frame=coord.ICRS(), name="sky", axes_order=(order[0], order[1]),
                            unit=(u.arcsec, u.arcsec))
    spec = cf.SpectralFrame(name="wave", unit=(u.nm,), axes_order=(order[2],), axes_names=("lambda",))
    comp = cf.CompositeFrame([sky, spec], name="world")
    w = wcs.WCS([(det, tr), (comp, None)])
    bx = None
    if box:
        bx = ((0.0, 20.0), (0.0, 30.0), (0.0, 10.0))
        w.bounding_box = tuple((a * u.pix, b * u.pix) for a, b in bx) if units else bx
    f = Fam(f"cube3d{''.join(map(str, order))}" + ("_units" if units else ""), w, 3, 3, units=units, box=bx)
    f.order = order
    f.scales = (sx, sy, sw)
    return f


def all_families(rng, quick=True):
    fams = []
    for n in (1, 2, 3, 4):
        fams.append(affine_nd(rng, n, box=False))
        fams.append(affine_nd(rng, n, box=True))
    fams.append(affine_nd(rng, 2, names=True))
    # astropy 8.0's bounding-box evaluation drops units of Quantity inputs (observed), so unit-carrying
    # family members carry no box
    for units in (False, True):
        fams.append(imaging(rng, units=units, box=not units))
        fams.append(spectral_1d(rng, units=units, box=not units))
        fams.append(cube_3d(rng, units=units, box=not units))
    fams.append(imaging(rng, box=False))
    fams.append(cube_3d(rng, order=(1, 2, 0)))
    # derived by fixing an input
    c = cube_3d(rng)
    try:
        w2 = c.w.fix_inputs({2: 5.0})
        fams.append(Fam("cube3d_fixed2", w2, 2, 3))
    except Exception:  # noqa
        pass
    return fams


def random_point(rng, fam, integer=False):
    if fam.box:
        pt = [rng.uniform(lo, hi) for lo, hi in fam.box]
    else:
        pt = [rng.uniform(0, 50) for _ in range(fam.n_in)]
    if integer or fam.exact:
        pt = [float(round(p)) for p in pt]
    return pt
