#!/bin/bash
# tools/revert_fixes.sh [jobs]  — a `fixed:` entry suppresses nothing: for every repaired defect recorded in known_findings.json the
# repair is reverted in a scratch worktree of /repo's HEAD (git revert --no-commit; /repo itself is untouched) and the property's
# check is run against that tree through REPO_ROOT; it must report a VIOLATION again.  One line per fix.
cd "$(dirname "$0")/.."
jobs=${1:-8}
out=.work/revert_fixes; rm -rf $out; mkdir -p $out
python3 - > $out/list.txt <<'PY'
import json
d = json.load(open('known_findings.json'))
by = {}
for f in d['findings']:
    if f['status'] == 'fixed':
        by.setdefault(f['property'], []).append((f['key'].split('/')[1], f['commit'].replace(',', ' ')))
for p, l in sorted(by.items()):
    print(p, ';'.join(f"{k}={c}" for k, c in l))
PY
one_property() {
  pid=$1; shift
  IFS=';' read -ra items <<< "$*"
  for it in "${items[@]}"; do
    key=${it%%=*}; commits=${it#*=}
    wt=/tmp/rf_${pid}_${key}
    git -C /repo worktree remove --force $wt >/dev/null 2>&1; rm -rf $wt
    for try in 1 2 3 4 5 6; do git -C /repo worktree add --detach $wt HEAD >/dev/null 2>&1 && break; sleep $((RANDOM % 3 + 1)); done
    ok=1
    for c in $(echo $commits | tr ' ' '\n' | tac); do
      git -C $wt revert --no-commit $c >/dev/null 2>&1 || ok=0
    done
    if [ $ok = 0 ]; then
      printf "%-4s %-34s %-18s REVERT-CONFLICT (later repairs touch the same lines)\n" $pid $key "$commits" >> .work/revert_fixes/$pid.log
    else
      o=$(REPO_ROOT=$wt VERIF_EVIDENCE_DIR=$(pwd)/.work/seed_evidence ./bin/check $pid 2>&1 | grep -v conda)
      first=$(echo "$o" | grep -A1 '^VIOLATION' | head -2 | tr '\n' ' ' | sed 's/.*what: //' | cut -c1-200)
      if echo "$o" | grep -q '^VIOLATION'; then r=REPORTED-AGAIN; else r=NOT-REPORTED; fi
      printf "%-4s %-34s %-18s %s %s\n" $pid $key "$commits" $r "$first" >> .work/revert_fixes/$pid.log
    fi
    git -C /repo worktree remove --force $wt >/dev/null 2>&1; rm -rf $wt
  done
}
export -f one_property
cat $out/list.txt | xargs -P $jobs -L 1 bash -c 'one_property "$@"' _
git -C /repo worktree prune
cat $out/C*.log
