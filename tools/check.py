"""Driver:  bin/check <Cxx> [--tier quick|thorough] [--replay file]"""
import argparse
import importlib
import json
import os
import sys
import time
import traceback

sys.path.insert(0, os.path.dirname(os.path.abspath(__file__)))
from lib.common import Ctx, ROOT, load_known  # noqa: E402


def main():
    ap = argparse.ArgumentParser()
    ap.add_argument("pid")
    ap.add_argument("--tier", default=os.environ.get("VERIF_TIER", "quick"))
    ap.add_argument("--replay", default=None)
    a = ap.parse_args()
    tier = a.tier if a.tier in ("quick", "thorough") else "quick"
    seed = int(os.environ.get("VERIF_SEED", "20260930") or 0)
    ctx = Ctx(a.pid, tier, seed)
    try:
        mod = importlib.import_module("checks." + a.pid)
    except ModuleNotFoundError:
        print(f"no check for {a.pid}")
        return 2
    if a.replay:
        rp = json.load(open(a.replay))
        return mod.replay(ctx, rp) if hasattr(mod, "replay") else 2
    crashed = None
    try:
        import contextlib, io
        with contextlib.redirect_stdout(io.StringIO()):      # the implementation prints (e.g. SIP fit reports)
            mod.run(ctx)
    except Exception:
        crashed = traceback.format_exc()
        ctx.notes.append("check crashed: " + crashed[-3000:])
        ctx.violation("the check machinery itself raised (implementation import or harness error); "
                      "property no longer shown to hold", {"traceback": crashed[-3000:]},
                      key=None, found_input=False)
    # ---- decide ----------------------------------------------------------
    known = [k for k in load_known() if k["property"] == a.pid and k.get("status") == "known"]
    known_keys = {k["key"]: k for k in known}
    real, kf = [], {}
    for v in ctx.violations:
        if v["key"] in known_keys:
            kf.setdefault(v["key"], v)
        else:
            real.append(v)
    failed_obl = [o for o in ctx.obligations if not o[1]]
    if failed_obl and not real:
        # a proof obligation / correspondence no longer checks and no concrete input was found
        ctx.violation("proof obligation or correspondence no longer checks: "
                      + "; ".join(o[0] for o in failed_obl[:6]),
                      {"failed_obligations": [(o[0], o[2][-1500:]) for o in failed_obl]},
                      key=None, found_input=False)
        real.append(ctx.violations[-1])
    for k, v in kf.items():
        print(f"KNOWN-FINDING: property={a.pid} {known_keys[k]['what']} [key={k}]")
    for v in real:
        tail = "" if v["found_input"] else " no-failing-input-found"
        print(f"VIOLATION property={a.pid} replay={v['replay']}{tail}")
        print(f"  what: {v['what'][:300]}")
    # ---- evidence --------------------------------------------------------
    level = getattr(mod, "LEVEL", "proof")
    axioms = sorted({x for xs in ctx.assumptions.values() for x in xs})
    cov = {
        "obligations": len(ctx.obligations),
        "discharged": sum(1 for o in ctx.obligations if o[1]),
        "checker_cmd": f"cd /verif && ./bin/check {a.pid} --tier {tier}  (coq_makefile/make full .vo + coqc on generated case files)",
        "trusted_base": ctx.trusted + (["axioms reported by Print Assumptions this run: " + ", ".join(axioms)]
                                       if axioms else ["Print Assumptions this run: all property theorems closed under the global context"]),
        "obligation_list": [{"name": o[0], "ok": o[1]} for o in ctx.obligations],
        "assumptions_per_theorem": ctx.assumptions,
        "evaluations": ctx.cases,
        "distinct_nontrivial": len(ctx.nontrivial),
        "rule": getattr(mod, "RULE", ""),
        "samples": ctx.samples or ["(none)"],
        "input_histogram": ctx.hist,
        "known_findings_reported": sorted(kf),
        "notes": ctx.notes,
    }
    cov.update(ctx.extra)
    ev = {
        "property_id": a.pid, "tier": tier, "seed": seed, "level": level,
        "coverage": cov,
        "assumptions": getattr(mod, "ASSUMPTIONS", []),
        "wall_s": round(time.time() - ctx.t0, 2),
        "violations": len(real),
    }
    evdir = os.environ.get("VERIF_EVIDENCE_DIR") or os.path.join(ROOT, "evidence")   # seedtest redirects this
    os.makedirs(evdir, exist_ok=True)
    with open(os.path.join(evdir, a.pid + ".json"), "w") as f:
        json.dump(ev, f, indent=1, default=str)
    print(f"{a.pid} tier={tier} obligations={cov['discharged']}/{cov['obligations']} cases={ctx.cases} "
          f"distinct_nontrivial={len(ctx.nontrivial)} violations={len(real)} known={len(kf)} wall={ev['wall_s']}s")
    return 1 if real else 0


if __name__ == "__main__":
    sys.exit(main())
