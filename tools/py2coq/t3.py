"""py2coq T3 — effect skeletons.  Every function of the listed modules is reduced to the control
structure that matters for process-wide settings (see coq/theories/C17/Eff.v):
   Seq / If / Loop / Try / Finally / With kind / Save / SetG / Restore / Call / Ref f / Raise / Return.
Intra-package calls (self.method, module-level functions of the same package) become references to the
callee's skeleton (inlined by Coq definitions along the acyclic call graph; cycles fall back to opaque Call).
Fail-closed on statement kinds it does not know."""
import ast
import os


class Unsupported(Exception):
    pass


KIND_CTX = {"np.errstate": "KErr", "numpy.errstate": "KErr", "warnings.catch_warnings": "KWarn",
            "np.printoptions": "KPrint", "numpy.printoptions": "KPrint"}
SETTERS = {"np.seterr": "KErr", "numpy.seterr": "KErr", "np.seterrcall": "KErr", "warnings.simplefilter": "KWarn",
           "warnings.filterwarnings": "KWarn", "warnings.resetwarnings": "KWarn",
           "np.set_printoptions": "KPrint", "numpy.set_printoptions": "KPrint"}
GETTERS = {"np.geterr": "KErr", "numpy.geterr": "KErr", "np.get_printoptions": "KPrint"}


def seq(items):
    items = [i for i in items if i != "Skip"]
    # collapse runs of opaque calls
    out = []
    for i in items:
        if i == "Call" and out and out[-1] == "Call":
            continue
        out.append(i)
    if not out:
        return "Skip"
    t = out[-1]
    for i in reversed(out[:-1]):
        t = f"(Seq {i} {t})"
    return t


class Skel:
    def __init__(self, known, self_methods, saved_names):
        self.known = known                # names of functions with a skeleton (module level)
        self.self_methods = self_methods  # names of methods of the class being translated
        self.saved = saved_names          # variables assigned from a getter: name -> kind

    def calls(self, node):
        """effects of evaluating an expression, in source order (approximation of evaluation order)"""
        out = []
        for n in ast.walk(node) if node is not None else []:
            if isinstance(n, ast.Call):
                name = ast.unparse(n.func)
                if name in SETTERS:
                    k = SETTERS[name]
                    vals = [kw.value for kw in n.keywords] + list(n.args)
                    is_restore = bool(vals) and all(
                        (isinstance(x, ast.Name) and self.saved.get(x.id) == k) or
                        (isinstance(x, ast.Starred) and isinstance(x.value, ast.Name) and self.saved.get(x.value.id) == k)
                        for x in vals)
                    out.append(f"(Restore {k})" if is_restore else f"(SetG {k})")
                elif name in GETTERS:
                    out.append(f"(Save {GETTERS[name]})")
                elif name in KIND_CTX:
                    out.append("Skip")      # constructing the context manager object has no effect by itself
                elif name.startswith("self.") and name[5:] in self.self_methods:
                    out.append(f"(Ref_{name[5:]})")
                elif name in self.known:
                    out.append(f"(Ref_{name})")
                else:
                    out.append("Call")
            elif isinstance(n, ast.Attribute) and isinstance(n.value, ast.Name) and n.value.id == "self" \
                    and n.attr in self.self_methods and isinstance(getattr(n, "ctx", None), ast.Load):
                # property access on self evaluates the property's code
                out.append(f"(Ref_{n.attr})")
        # a Call node whose func is self.method was counted once as Call-name match and once as Attribute: dedupe
        ded = []
        for i, x in enumerate(out):
            if x.startswith("(Ref_") and i + 1 < len(out) and out[i + 1] == x:
                continue
            ded.append(x)
        return ded

    def note_saves(self, s):
        if isinstance(s, ast.Assign):
            for n in ast.walk(s.value):
                if isinstance(n, ast.Call) and ast.unparse(n.func) in GETTERS:
                    for t in s.targets:
                        for nm in ast.walk(t):
                            if isinstance(nm, ast.Name):
                                self.saved[nm.id] = GETTERS[ast.unparse(n.func)]

    def block(self, stmts):
        return seq([self.stmt(s) for s in stmts])

    def stmt(self, s):
        if isinstance(s, (ast.Expr, ast.Assign, ast.AugAssign, ast.AnnAssign, ast.Assert, ast.Delete)):
            self.note_saves(s)
            return seq(self.calls(s))
        if isinstance(s, ast.Return):
            return seq(self.calls(s.value) + ["Return"])
        if isinstance(s, ast.Raise):
            return seq(self.calls(s.exc) + self.calls(s.cause) + ["Raise"])
        if isinstance(s, ast.If):
            return seq(self.calls(s.test) + [f"(If {self.block(s.body)} {self.block(s.orelse)})"])
        if isinstance(s, (ast.While,)):
            return seq(self.calls(s.test) + [f"(Loop {seq([self.block(s.body)] + self.calls(s.test))})"] +
                       ([self.block(s.orelse)] if s.orelse else []))
        if isinstance(s, ast.For):
            return seq(self.calls(s.iter) + [f"(Loop {self.block(s.body)})"] + ([self.block(s.orelse)] if s.orelse else []))
        if isinstance(s, ast.With):
            body = self.block(s.body)
            pre = []
            for item in reversed(s.items):
                name = ast.unparse(item.context_expr.func) if isinstance(item.context_expr, ast.Call) else ast.unparse(item.context_expr)
                if name in KIND_CTX:
                    body = f"(With {KIND_CTX[name]} {body})"
                    pre = [c for a in (item.context_expr.args if isinstance(item.context_expr, ast.Call) else []) for c in self.calls(a)] + pre
                else:
                    pre = self.calls(item.context_expr) + pre
            return seq(pre + [body])
        if isinstance(s, ast.Try):
            body = self.block(s.body + s.orelse)
            t = body
            if s.handlers:
                h = "Skip"
                for hd in reversed(s.handlers):
                    h = f"(If {self.block(hd.body)} {h})" if h != "Skip" else self.block(hd.body)
                t = f"(Try {body} {h})"
            if s.finalbody:
                t = f"(Finally {t} {self.block(s.finalbody)})"
            return t
        if isinstance(s, (ast.Pass, ast.Break, ast.Continue, ast.Import, ast.ImportFrom, ast.Global, ast.Nonlocal)):
            return "Skip"
        if isinstance(s, (ast.FunctionDef, ast.ClassDef)):
            return "Skip"            # nested definitions: their calls are opaque Calls at the call site
        raise Unsupported(f"statement {type(s).__name__} at line {s.lineno}")


def functions_of(tree, classname=None):
    out = {}
    for node in tree.body:
        if classname and isinstance(node, ast.ClassDef) and node.name == classname:
            for f in node.body:
                if isinstance(f, ast.FunctionDef):
                    is_setter = any(ast.unparse(d).endswith(".setter") for d in f.decorator_list)
                    out.setdefault(f.name + ("__set" if is_setter else ""), f)
        elif not classname and isinstance(node, ast.FunctionDef):
            out[node.name] = node
    return out


def gen_module(path, classname, prefix):
    tree = ast.parse(open(path).read())
    meths = functions_of(tree, classname) if classname else {}
    funcs = functions_of(tree, None)
    allf = {}
    allf.update({k: ("m", v) for k, v in meths.items()})
    allf.update({k: ("f", v) for k, v in funcs.items() if k not in allf})
    terms, deps = {}, {}
    for name, (kind, f) in allf.items():
        sk = Skel(set(funcs), set(m for m in meths if not m.endswith("__set")), {})
        t = sk.block(f.body)
        terms[name] = t
        deps[name] = set()
        import re
        for m in re.findall(r"\(Ref_([A-Za-z0-9_]+)\)", t):
            deps[name].add(m)
    # topological order; break cycles by making the back reference opaque
    order, state = [], {}

    def visit(n, stack):
        if state.get(n) == 2:
            return
        state[n] = 1
        for d in sorted(deps.get(n, ())):
            if d not in terms or state.get(d) == 1:
                terms[n] = terms[n].replace(f"(Ref_{d})", "Call")
                continue
            visit(d, stack + [n])
        state[n] = 2
        order.append(n)
    for n in sorted(terms):
        visit(n, [])
    lines = []
    for n in order:
        t = terms[n]
        import re
        t = re.sub(r"\(Ref_([A-Za-z0-9_]+)\)", lambda m: f"(Fn {prefix}{m.group(1)})", t)
        lines.append(f"Definition {prefix}{n} : eff := {t}.")
    return lines, order
