"""Regenerates the field tables of the TRANSFORM converters (gwcs/converters/{selector,geometry,spectroscopy}.py):
   per model class C handled by a converter,
       write table  [(tree key, model attribute)]       from to_yaml_tree_transform, along the branches that apply to C
       read table   [(constructor parameter, tree key)]  from from_yaml_tree_transform, at the constructor call of C
   (nested dictionaries are flattened to 'outer.inner' keys; a value "depends on" an attribute / key through local variables,
   loops that append to a list, and wrappers such as list(), tuple(), dict(zip()), parameter_to_value()).
   The constructor's parameter names come from the model class's own __init__ in gwcs/{selector,geometry,spectroscopy}.py.
   The tables feed the same `matching` / `roundtrip` theorem as the frame converters (C09/Roundtrip.v).
   Fail-closed: statement shapes outside the subset raise Unsupported."""
import ast
import os


class Unsupported(Exception):
    pass


FILES = [("converters/selector.py", "selector.py"), ("converters/geometry.py", "geometry.py"), ("converters/spectroscopy.py", "spectroscopy.py")]
CLASS_TAG = "__class__"     # pseudo attribute / parameter: which class is rebuilt


def strip_doc(body):
    return [s for s in body if not (isinstance(s, ast.Expr) and isinstance(s.value, ast.Constant))]


def ctor_params(model_file):
    """class -> positional parameter names of __init__ (without self, name, **kwargs)"""
    tree = ast.parse(open(model_file).read())
    out = {}
    for c in tree.body:
        if isinstance(c, ast.ClassDef):
            for f in c.body:
                if isinstance(f, ast.FunctionDef) and f.name == "__init__":
                    out[c.name] = [a.arg for a in f.args.args[1:] if a.arg != "name"]
    return out


def isinstance_classes(test):
    """isinstance(model, C) | isinstance(model, (C1, C2)) -> [names]; else None"""
    if isinstance(test, ast.Call) and isinstance(test.func, ast.Name) and test.func.id == "isinstance" and len(test.args) == 2 \
            and isinstance(test.args[0], ast.Name):
        t = test.args[1]
        if isinstance(t, ast.Name):
            return [t.id]
        if isinstance(t, ast.Tuple) and all(isinstance(e, ast.Name) for e in t.elts):
            return [e.id for e in t.elts]
    return None


class Deps:
    """def-use closure over local variables: name -> set of sources ('attr:X' | 'key:K')"""

    def __init__(self, root, kind):
        self.root, self.kind, self.env, self.sub = root, kind, {}, {}     # sub: dict-valued locals -> {inner key: deps}

    def of(self, e):
        if e is None or isinstance(e, ast.Constant):
            return set()
        if isinstance(e, ast.Name):
            return set(self.env.get(e.id, set()))
        if isinstance(e, ast.Attribute):
            if isinstance(e.value, ast.Name) and e.value.id == self.root and self.kind == "attr":
                return {"attr:" + e.attr}
            return self.of(e.value)
        if isinstance(e, ast.Subscript):
            if isinstance(e.value, ast.Name) and e.value.id == self.root and self.kind == "key" and isinstance(e.slice, ast.Constant):
                return {"key:" + str(e.slice.value)}
            if isinstance(e.value, ast.Name) and e.value.id in self.env and isinstance(e.slice, ast.Constant) and self.kind == "key":
                return {s + "." + str(e.slice.value) if s.startswith("key:") else s for s in self.env[e.value.id]}
            return self.of(e.value) | self.of(e.slice)
        if isinstance(e, ast.Call):
            f = e.func
            if isinstance(f, ast.Attribute) and f.attr == "get" and isinstance(f.value, ast.Name) and e.args and isinstance(e.args[0], ast.Constant):
                if f.value.id == self.root and self.kind == "key":
                    return {"key:" + str(e.args[0].value)}
                if f.value.id in self.env and self.kind == "key":
                    return {s + "." + str(e.args[0].value) if s.startswith("key:") else s for s in self.env[f.value.id]}
            out = set()
            for a in list(e.args) + [k.value for k in e.keywords]:
                out |= self.of(a)
            if isinstance(f, ast.Attribute):
                out |= self.of(f.value)
            return out
        if isinstance(e, (ast.List, ast.Tuple, ast.Set)):
            return set().union(*[self.of(x) for x in e.elts]) if e.elts else set()
        if isinstance(e, (ast.ListComp, ast.GeneratorExp)):
            out = set()
            for g in e.generators:
                d = self.of(g.iter)
                for n in ast.walk(g.target):
                    if isinstance(n, ast.Name):
                        self.env[n.id] = d
                out |= d
            return out | self.of(e.elt)
        if isinstance(e, ast.BinOp):
            return self.of(e.left) | self.of(e.right)
        if isinstance(e, ast.IfExp):
            return self.of(e.body) | self.of(e.orelse) | self.of(e.test)
        if isinstance(e, (ast.Compare, ast.BoolOp, ast.UnaryOp, ast.JoinedStr, ast.FormattedValue)):
            return set().union(*[self.of(x) for x in ast.iter_child_nodes(e) if isinstance(x, ast.expr)])
        raise Unsupported("expression " + ast.unparse(e)[:80])


def write_tables(fn, classes):
    """{class: [(key, attr)]} — entries in statement order; `classes` = model classes the converter declares"""
    model = fn.args.args[1].arg
    out = {c: [] for c in classes}
    D = Deps(model, "attr")
    nodevars = set()

    def emit(cls_set, key, deps):
        for c in cls_set:
            for d in sorted(deps):
                out[c].append((key, d[5:] if d.startswith("attr:") else d))

    def walk(stmts, cls_set):
        for s in strip_doc(stmts):
            if isinstance(s, (ast.ImportFrom, ast.Import, ast.Raise, ast.Pass)):
                continue
            if isinstance(s, ast.Assign) and len(s.targets) == 1:
                t, v = s.targets[0], s.value
                if isinstance(t, ast.Name):
                    if isinstance(v, ast.Dict):
                        nodevars.add(t.id)
                        D.sub[t.id] = {}
                        for k, val in zip(v.keys, v.values):
                            if not isinstance(k, ast.Constant):
                                raise Unsupported("dict key " + ast.unparse(k))
                            D.sub[t.id].setdefault(str(k.value), []).append((set(cls_set), D.of(val)))
                    elif isinstance(v, ast.Call) and isinstance(v.func, ast.Name) and v.func.id in ("OrderedDict", "dict") and not v.args:
                        nodevars.add(t.id)
                        D.sub[t.id] = {}
                    elif isinstance(v, ast.Constant) and isinstance(v.value, str):
                        D.env[t.id] = {"attr:" + CLASS_TAG}        # a literal chosen per isinstance branch stands for the class
                    else:
                        D.env[t.id] = D.of(v)
                elif isinstance(t, ast.Subscript) and isinstance(t.value, ast.Name) and t.value.id in D.sub and isinstance(t.slice, ast.Constant):
                    if isinstance(v, ast.Name) and v.id in D.sub and v.id != t.value.id:          # attach a sub-dictionary
                        for ik, ents in D.sub[v.id].items():
                            for cs, deps in ents:
                                D.sub[t.value.id].setdefault(f"{t.slice.value}.{ik}", []).append((cs & set(cls_set), deps))
                    elif isinstance(v, ast.Constant) and isinstance(v.value, str):
                        D.sub[t.value.id].setdefault(str(t.slice.value), []).append((set(cls_set), {"attr:" + CLASS_TAG}))
                    else:
                        D.sub[t.value.id].setdefault(str(t.slice.value), []).append((set(cls_set), D.of(v)))
                else:
                    raise Unsupported("assignment " + ast.unparse(s)[:80])
            elif isinstance(s, ast.Expr) and isinstance(s.value, ast.Call) and isinstance(s.value.func, ast.Attribute) \
                    and s.value.func.attr == "append" and isinstance(s.value.func.value, ast.Name):
                nm = s.value.func.value.id
                D.env[nm] = D.env.get(nm, set()) | D.of(s.value.args[0])
            elif isinstance(s, ast.For):
                d = D.of(s.iter)
                for n in ast.walk(s.target):
                    if isinstance(n, ast.Name):
                        D.env[n.id] = d
                walk(s.body, cls_set)
            elif isinstance(s, ast.If):
                chain, node = [], s
                while True:
                    chain.append((node.test, node.body))
                    if len(node.orelse) == 1 and isinstance(node.orelse[0], ast.If):
                        node = node.orelse[0]
                    else:
                        chain.append((None, node.orelse))
                        break
                rest = set(cls_set)
                for test, body in chain:
                    if test is None:
                        walk(body, rest)
                        continue
                    ic = isinstance_classes(test)
                    if ic is not None:
                        here = {c for c in rest if c in ic}
                        walk(body, here)
                        rest -= here
                    else:
                        walk(body, rest)            # data-dependent guard: the entries are conditional for all remaining classes
            elif isinstance(s, ast.Return):
                v = s.value
                if isinstance(v, ast.Name) and v.id in D.sub:
                    for k, ents in D.sub[v.id].items():
                        for cs, deps in ents:
                            emit(cs & set(cls_set), k, deps)
                elif isinstance(v, ast.Dict):
                    for k, val in zip(v.keys, v.values):
                        emit(cls_set, str(k.value), D.of(val))
                else:
                    raise Unsupported("return " + ast.unparse(s)[:80])
            else:
                raise Unsupported("statement in write path: " + ast.unparse(s)[:80])
    walk(fn.body, set(classes))
    return out


def read_tables(fn, classes, params):
    """{class: [(parameter, key)]} at the constructor call of each class"""
    node = fn.args.args[1].arg
    D = Deps(node, "key")
    out = {c: [] for c in classes}
    guards = []       # keys the choice of the class depends on

    def ctor_call(e):
        return isinstance(e, ast.Call) and isinstance(e.func, ast.Name) and e.func.id in classes

    def record(call):
        c = call.func.id
        names = params.get(c, [])
        for g in guards:
            for d in sorted(g):
                out[c].append((CLASS_TAG, d[4:]))
        for i, a in enumerate(call.args):
            if i >= len(names):
                raise Unsupported(f"{c}: more positional arguments than parameters")
            for d in sorted(D.of(a)):
                out[c].append((names[i], d[4:]))
        for k in call.keywords:
            if k.arg is None:
                raise Unsupported(c + ": **kwargs in constructor call")
            for d in sorted(D.of(k.value)):
                out[c].append((k.arg, d[4:]))

    def walk(stmts):
        for s in strip_doc(stmts):
            if isinstance(s, (ast.ImportFrom, ast.Import, ast.Raise, ast.Pass)):
                continue
            if isinstance(s, ast.Assign) and len(s.targets) == 1 and isinstance(s.targets[0], ast.Name):
                if ctor_call(s.value):
                    record(s.value)
                    D.env[s.targets[0].id] = set()
                else:
                    D.env[s.targets[0].id] = D.of(s.value)
            elif isinstance(s, ast.If):
                g = D.of(s.test)
                guards.append(g)
                walk(s.body)
                walk(s.orelse)
                guards.pop()
            elif isinstance(s, ast.Return):
                if ctor_call(s.value):
                    record(s.value)
                elif not isinstance(s.value, ast.Name):
                    raise Unsupported("return " + ast.unparse(s)[:80])
            else:
                raise Unsupported("statement in read path: " + ast.unparse(s)[:80])
    walk(fn.body)
    return out


def gen(repo):
    tables = {}
    for conv_rel, model_rel in FILES:
        tree = ast.parse(open(os.path.join(repo, "gwcs", conv_rel)).read())
        params = ctor_params(os.path.join(repo, "gwcs", model_rel))
        for c in tree.body:
            if not (isinstance(c, ast.ClassDef) and c.name.endswith("Converter")):
                continue
            fns = {f.name: f for f in c.body if isinstance(f, ast.FunctionDef)}
            types = None
            for st in c.body:
                if isinstance(st, ast.Assign) and ast.unparse(st.targets[0]) == "types":
                    types = [e.value.rsplit(".", 1)[1] for e in st.value.elts]
            if types is None or "to_yaml_tree_transform" not in fns or "from_yaml_tree_transform" not in fns:
                raise Unsupported(c.name + ": no types / converter functions")
            wt = write_tables(fns["to_yaml_tree_transform"], types)
            rt = read_tables(fns["from_yaml_tree_transform"], types, params)
            for t in types:
                if t not in params:
                    raise Unsupported(f"{t}: constructor not found in gwcs/{model_rel}")
                tables[t] = (wt[t], rt[t], params[t])

    def tab(l):
        return "[" + "; ".join(f'("{a}", "{b}")' for a, b in l) + "]"
    lines = ["(* GENERATED by tools/py2coq/gen_tconverters.py from gwcs/converters/{selector,geometry,spectroscopy}.py — do not edit. *)",
             "From Coq Require Import String List.", "Import ListNotations.", "Local Open Scope string_scope.",
             "(* model class, write table (tree key, attribute), read table (constructor parameter, tree key), constructor parameters *)",
             "Definition tconv : list (string * (list (string * string) * list (string * string) * list string)) := ["]
    lines.append(";\n".join(f'  ("{t}", ({tab(w)}, {tab(r)}, [{"; ".join(chr(34) + p + chr(34) for p in ps)}]))' for t, (w, r, ps) in sorted(tables.items())))
    lines.append("].")
    return "\n".join(lines) + "\n", tables


if __name__ == "__main__":
    import sys
    src, T = gen(sys.argv[1] if len(sys.argv) > 1 else "/repo")
    for t, (w, r, ps) in sorted(T.items()):
        print(t, "\n   W", w, "\n   R", r, "\n   P", ps)
