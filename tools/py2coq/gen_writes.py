"""Regenerates the attribute write table of class WCS (gwcs/wcs.py) + GWCSAPIMixin (gwcs/api.py):
for every method, the set of `self.<attr>` it assigns (directly, through `self._pipeline[i].x = ...`, or
through `super().__setattr__`), closed under calls to other methods / property reads of the same object.
`resets` lists the attributes that are assigned the constant None ON EVERY PATH THAT RETURNS NORMALLY (a must-analysis over
if / try / with / early returns; loops may run zero times; raising paths are excluded) — directly or through a call to /
property store on another method of the same object that must-resets it."""
import ast
import os

from py2coq import t3


def own_writes(f):
    w, r = set(), set()
    for n in ast.walk(f):
        targets = []
        if isinstance(n, ast.Assign):
            targets = n.targets
        elif isinstance(n, (ast.AugAssign, ast.AnnAssign)):
            targets = [n.target]
        for t in targets:
            for x in ast.walk(t):
                base = x
                # self.attr = ... / self.attr[i].y = ... / self.attr[i] = ...
                while isinstance(base, (ast.Subscript, ast.Attribute)) and not (
                        isinstance(base, ast.Attribute) and isinstance(base.value, ast.Name) and base.value.id == "self"):
                    base = base.value
                if isinstance(base, ast.Attribute) and isinstance(base.value, ast.Name) and base.value.id == "self" \
                        and isinstance(x, (ast.Attribute, ast.Subscript)) and isinstance(getattr(x, "ctx", None), ast.Store):
                    w.add(base.attr)
                    if x is base and isinstance(n, ast.Assign) and isinstance(n.value, ast.Constant) and n.value.value is None:
                        r.add(base.attr)
        if isinstance(n, ast.Call) and ast.unparse(n.func).endswith(".__setattr__") and "super(" in ast.unparse(n.func):
            w.add("<frame-attr>")
    return w, r


def _is_reset(stmt):
    """attributes assigned the constant None by this simple statement"""
    out = set()
    if isinstance(stmt, ast.Assign) and isinstance(stmt.value, ast.Constant) and stmt.value.value is None:
        for t in stmt.targets:
            if isinstance(t, ast.Attribute) and isinstance(t.value, ast.Name) and t.value.id == "self":
                out.add(t.attr)
    return out


def _calls(stmt, names, meths):
    """methods of the same object that this statement certainly calls / property-stores (not inside a lambda or comprehension
    condition: ast.walk over the statement's own expressions only — nested statements are handled by the block analysis)"""
    d = set()
    exprs = [c for c in ast.iter_child_nodes(stmt) if isinstance(c, ast.expr)]
    for e in exprs:
        for n in ast.walk(e):
            if isinstance(n, (ast.Lambda, ast.IfExp, ast.BoolOp, ast.ListComp, ast.GeneratorExp, ast.DictComp, ast.SetComp)):
                continue
            if isinstance(n, ast.Attribute) and isinstance(n.value, ast.Name) and n.value.id == "self" and n.attr in names:
                if isinstance(n.ctx, ast.Store):
                    if n.attr + "__set" in meths:
                        d.add(n.attr + "__set")
                elif isinstance(n.ctx, ast.Load):
                    d.add(n.attr)
    # conservative: anything under a conditional expression does not count
    cond = set()
    for e in exprs:
        for n in ast.walk(e):
            if isinstance(n, (ast.Lambda, ast.IfExp, ast.BoolOp, ast.ListComp, ast.GeneratorExp, ast.DictComp, ast.SetComp)):
                for m in ast.walk(n):
                    if isinstance(m, ast.Attribute) and isinstance(m.value, ast.Name) and m.value.id == "self":
                        cond.add(m.attr)
                        cond.add(m.attr + "__set")
    return d - cond


def must_resets(f, M, names, meths):
    """set of attributes reset on every normally returning path of f, given M[m] for the other methods"""
    exits = []

    def block(stmts, cur):
        """returns the set at fall-through, or None if the block cannot fall through"""
        for s in stmts:
            if isinstance(s, ast.Return):
                exits.append(set(cur))
                return None
            if isinstance(s, ast.Raise):
                return None
            if isinstance(s, ast.If):
                a = block(s.body, set(cur))
                b = block(s.orelse, set(cur))
                if a is None and b is None:
                    return None
                cur = (a & b) if (a is not None and b is not None) else (a if a is not None else b)
            elif isinstance(s, (ast.With, ast.AsyncWith)):
                r = block(s.body, set(cur))
                if r is None:
                    return None
                cur = r
            elif isinstance(s, ast.Try):
                a = block(s.body, set(cur))
                outs = [a] if a is not None else []
                for h in s.handlers:
                    hb = block(h.body, set(cur))          # the try body may have raised before any reset
                    if hb is not None:
                        outs.append(hb)
                if s.orelse and a is not None:
                    o = block(s.orelse, set(a))
                    outs = [x for x in outs if x is not a] + ([o] if o is not None else [])
                if not outs:
                    cur = None
                else:
                    cur = set.intersection(*[set(x) for x in outs])
                if s.finalbody:
                    fb = block(s.finalbody, set(cur) if cur is not None else set())
                    if cur is None or fb is None:
                        return None
                    cur = fb
                if cur is None:
                    return None
            elif isinstance(s, (ast.For, ast.While, ast.AsyncFor)):
                block(s.body, set(cur))        # only to collect early returns inside the loop (with the pre-loop set)
                block(s.orelse, set(cur))
            else:
                cur |= _is_reset(s)
                for m in _calls(s, names, meths):
                    cur |= M.get(m, set())
        return cur

    end = block(f.body, set())
    if end is not None:
        exits.append(end)
    return set.intersection(*exits) if exits else set()


MUTATORS = ("append", "extend", "insert", "pop", "remove", "sort", "update", "clear", "__setitem__", "setdefault")


def _self_rooted(e):
    while isinstance(e, (ast.Attribute, ast.Subscript, ast.Call)):
        e = e.func if isinstance(e, ast.Call) else e.value
    return isinstance(e, ast.Name) and e.id == "self"


def _canon(e):
    """self.a.b(...)[i] -> 'self.a.b()[]' : the access path without arguments"""
    if isinstance(e, ast.Name):
        return e.id
    if isinstance(e, ast.Attribute):
        return _canon(e.value) + "." + e.attr
    if isinstance(e, ast.Call):
        return _canon(e.func) + "()"
    if isinstance(e, ast.Subscript):
        return _canon(e.value) + "[]"
    return "?"


def alias_mutations(f):
    """In-place mutation of an object obtained from `self` (statement order, rebinding a name to a fresh value ends the alias):
         x = self.<...> ;  x[i] = ... / x.attr = ... / x.append(...)      ->  reported as the source expression of x
       This is what an attribute-write table cannot see: the object behind self.bounding_box / self.forward_transform is changed
       without any `self.attr = ...` statement."""
    alias, out = {}, []

    def base_name(e):
        while isinstance(e, (ast.Subscript, ast.Attribute)):
            e = e.value
        return e.id if isinstance(e, ast.Name) else None

    def visit(stmts, depth=0):
        for s in stmts:
            if isinstance(s, (ast.FunctionDef, ast.ClassDef)):
                continue
            # stores / mutating calls in this statement (not in nested blocks)
            own = [n for n in ast.iter_child_nodes(s) if isinstance(n, ast.expr)]
            targets = s.targets if isinstance(s, ast.Assign) else ([s.target] if isinstance(s, (ast.AugAssign, ast.AnnAssign)) else [])
            for t in targets:
                for x in ast.walk(t):
                    if isinstance(x, (ast.Subscript, ast.Attribute)) and isinstance(getattr(x, "ctx", None), ast.Store):
                        b = base_name(x)
                        if b in alias:
                            out.append(alias[b])
            for e in own:
                for n in ast.walk(e):
                    if isinstance(n, ast.Call) and isinstance(n.func, ast.Attribute) and n.func.attr in MUTATORS:
                        b = base_name(n.func.value)
                        if b in alias:
                            out.append(alias[b])
            # alias bookkeeping
            if isinstance(s, ast.Assign) and len(s.targets) == 1 and isinstance(s.targets[0], ast.Name):
                name, val = s.targets[0].id, s.value
                if _self_rooted(val):
                    alias[name] = _canon(val)
                elif isinstance(val, ast.Name) and val.id in alias:
                    alias[name] = alias[val.id]
                elif isinstance(val, (ast.Subscript, ast.Attribute)) and base_name(val) in alias:
                    alias[name] = alias[base_name(val)]
                elif depth == 0:
                    alias.pop(name, None)          # rebinding on the main path ends the alias; inside a branch it may still hold after the merge
            for fld in ("body", "orelse", "finalbody"):
                sub = getattr(s, fld, None)
                if isinstance(sub, list):
                    visit(sub, depth + 1)
            for h in getattr(s, "handlers", []):
                visit(h.body, depth + 1)

    visit(f.body)
    return sorted(set(out))


# calls that may hand back their argument itself (numpy returns the same array when no conversion is needed) or a view of it
MAY_RETURN_ARG = ("asarray", "asanyarray", "atleast_1d", "atleast_2d", "ascontiguousarray", "ravel", "reshape", "squeeze", "view",
                  "transpose", "broadcast_arrays", "astype")
VIEW_ATTRS = ("T", "flat", "real")


def param_mutations(f, P, meths):
    """In-place mutation of an object the CALLER passed in (statement order; may-alias through numpy's no-copy conversions):
         x = np.asarray(p) ; x -= 1 / x[i] = ... / x.sort()    ->  reported as 'arg:p'
       and, transitively, passing such an alias to a method of the class that mutates the corresponding parameter (table P)."""
    a = f.args
    params = [x.arg for x in a.posonlyargs + a.args + a.kwonlyargs if x.arg != "self"]
    alias = {p: "arg:" + p for p in params}
    out = []

    def base_name(e):
        while isinstance(e, (ast.Subscript, ast.Attribute)):
            e = e.value
        return e.id if isinstance(e, ast.Name) else None

    def may_alias(val):
        """source parameter if evaluating `val` may give (a view of) an aliased object"""
        if isinstance(val, ast.Name):
            return alias.get(val.id)
        if isinstance(val, ast.Attribute) and val.attr in VIEW_ATTRS:
            return may_alias(val.value)
        if isinstance(val, ast.Subscript):
            return may_alias(val.value)
        if isinstance(val, ast.Call):
            fn = val.func
            nm = fn.attr if isinstance(fn, ast.Attribute) else (fn.id if isinstance(fn, ast.Name) else None)
            if nm in MAY_RETURN_ARG:
                cands = list(val.args[:1]) + ([fn.value] if isinstance(fn, ast.Attribute) else [])
                if nm == "astype" and not any(k.arg == "copy" for k in val.keywords):
                    return None                                   # astype copies unless copy=False is given
                for c in cands:
                    r = may_alias(c)
                    if r:
                        return r
            if nm == "array" and any(k.arg == "copy" and isinstance(k.value, ast.Constant) and k.value.value is False for k in val.keywords):
                return may_alias(val.args[0]) if val.args else None
        return None

    def visit(stmts, depth=0):
        for s in stmts:
            if isinstance(s, (ast.FunctionDef, ast.ClassDef)):
                continue
            own = [n for n in ast.iter_child_nodes(s) if isinstance(n, ast.expr)]
            targets = s.targets if isinstance(s, ast.Assign) else ([s.target] if isinstance(s, (ast.AugAssign, ast.AnnAssign)) else [])
            for t in targets:
                for x in ast.walk(t):
                    if isinstance(x, (ast.Subscript, ast.Attribute)) and isinstance(getattr(x, "ctx", None), ast.Store):
                        b = base_name(x)
                        if b in alias:
                            out.append(alias[b])
            if isinstance(s, ast.AugAssign) and isinstance(s.target, ast.Name) and s.target.id in alias:
                out.append(alias[s.target.id])                    # x -= 1 works in place on arrays and lists
            for e in own:
                for n in ast.walk(e):
                    if isinstance(n, ast.Call) and isinstance(n.func, ast.Attribute):
                        if n.func.attr in MUTATORS + ("fill", "resize", "put", "itemset", "partition", "reverse"):
                            b = base_name(n.func.value)
                            if b in alias:
                                out.append(alias[b])
                        # a method of the class that mutates the parameter this alias is bound to
                        if isinstance(n.func.value, ast.Name) and n.func.value.id == "self" and n.func.attr in meths:
                            cal = meths[n.func.attr].args
                            cpar = [x.arg for x in cal.posonlyargs + cal.args if x.arg != "self"]
                            bound = [(cpar[i], v) for i, v in enumerate(n.args) if i < len(cpar)] + [(k.arg, k.value) for k in n.keywords if k.arg]
                            for pn, v in bound:
                                src = may_alias(v)
                                if src and ("arg:" + pn) in P.get(n.func.attr, ()):
                                    out.append(src)
            if isinstance(s, ast.Assign) and len(s.targets) == 1:
                tg, val = s.targets[0], s.value
                if isinstance(tg, ast.Name):
                    src = may_alias(val)
                    if src:
                        alias[tg.id] = src
                    elif depth == 0:
                        alias.pop(tg.id, None)
                elif isinstance(tg, (ast.Tuple, ast.List)) and depth == 0:
                    for el in tg.elts:                              # unpacking gives elements, not the container
                        if isinstance(el, ast.Name):
                            alias.pop(el.id, None)
            for fld in ("body", "orelse", "finalbody"):
                sub = getattr(s, fld, None)
                if isinstance(sub, list):
                    visit(sub, depth + 1)
            for h in getattr(s, "handlers", []):
                visit(h.body, depth + 1)

    visit(f.body)
    return sorted(set(out))


def gen(repo):
    tree = ast.parse(open(os.path.join(repo, "gwcs", "wcs.py")).read())
    api = ast.parse(open(os.path.join(repo, "gwcs", "api.py")).read())
    meths = t3.functions_of(tree, "WCS")
    meths.update({k: v for k, v in t3.functions_of(api, "GWCSAPIMixin").items() if k not in meths})
    W, R, deps = {}, {}, {}
    names = {m[:-5] if m.endswith("__set") else m for m in meths}
    for m, f in meths.items():
        W[m], R[m] = own_writes(f)
        d = set()
        for n in ast.walk(f):
            if isinstance(n, ast.Attribute) and isinstance(n.value, ast.Name) and n.value.id == "self" and n.attr in names:
                if isinstance(n.ctx, ast.Store):
                    if n.attr + "__set" in meths:
                        d.add(n.attr + "__set")
                else:
                    d.add(n.attr)
            if isinstance(n, ast.Call) and isinstance(n.func, ast.Name) and n.func.id == "self":
                d.add("__call__")
        deps[m] = d - {m}
    changed = True
    while changed:
        changed = False
        for m in meths:
            for d in deps[m]:
                if d in W:
                    if not W[d] <= W[m]:
                        W[m] |= W[d]
                        changed = True

    # resets: must-analysis, iterated to a fixpoint over calls between methods
    R = {m: set() for m in meths}
    changed = True
    while changed:
        changed = False
        for m, f in meths.items():
            r = must_resets(f, {k: v for k, v in R.items() if k != m}, names, meths)
            if r != R[m]:
                R[m] = r
                changed = True

    A = {m: alias_mutations(f) for m, f in meths.items()}
    changed = True
    while changed:                       # closed under calls between methods, like the write table
        changed = False
        for m in meths:
            for d in deps[m]:
                if d in A and not set(A[d]) <= set(A[m]):
                    A[m] = sorted(set(A[m]) | set(A[d]))
                    changed = True

    P = {m: [] for m in meths}
    changed = True
    while changed:                       # parameters mutated directly or by handing them to a method that mutates them
        changed = False
        for m, f in meths.items():
            r = param_mutations(f, P, meths)
            if r != P[m]:
                P[m] = r
                changed = True

    def tab(T):
        return "[" + "; ".join('("%s", [%s])' % (m, "; ".join('"%s"' % a for a in sorted(T[m]))) for m in sorted(T)) + "]"
    src = ("(* GENERATED by tools/py2coq/gen_writes.py — do not edit. *)\nFrom Coq Require Import List String.\n"
           "Import ListNotations.\nLocal Open Scope string_scope.\n"
           f"Definition writes : list (string * list string) := {tab(W)}.\n"
           f"Definition resets : list (string * list string) := {tab(R)}.\n"
           f"Definition alias_writes : list (string * list string) := {tab(A)}.\n"
           f"Definition param_writes : list (string * list string) := {tab(P)}.\n")
    return src, W, R


EDITS = ["set_transform", "insert_transform", "insert_frame", "bounding_box__set"]
QUERIES = ["__call__", "invert", "numerical_inverse", "in_image", "footprint", "transform", "get_transform",
           "to_fits_sip", "to_fits_tab", "to_fits", "forward_transform", "backward_transform", "available_frames",
           "bounding_box", "pixel_to_world_values", "world_to_pixel_values", "array_index_to_world_values",
           "world_to_array_index_values", "pixel_to_world", "world_to_pixel", "world_to_array_index",
           "pixel_bounds", "array_shape", "pixel_shape", "pixel_n_dim", "world_n_dim", "axis_correlation_matrix",
           "world_axis_physical_types", "world_axis_units", "__str__", "__repr__", "input_frame", "output_frame", "unit", "name"]

if __name__ == "__main__":
    s, W, R = gen("/repo")
    for m in EDITS:
        print(m, sorted(W[m]), sorted(R[m]))
    for q in QUERIES:
        print(q, sorted(W.get(q, ["?"])))
    print(s[s.index("Definition alias_writes"):][:1500])
    import re
    print([x for x in re.findall(r'\("(\w+)", \[([^\]]*)\]\)', s[s.index("Definition param_writes"):]) if x[1]])
