"""Regenerates the attribute write table of class WCS (gwcs/wcs.py) + GWCSAPIMixin (gwcs/api.py):
for every method, the set of `self.<attr>` it assigns (directly, through `self._pipeline[i].x = ...`, or
through `super().__setattr__`), closed under calls to other methods / property reads of the same object.
`resets` lists the attributes that are assigned the constant None ON EVERY PATH THAT RETURNS NORMALLY (a must-analysis over
if / try / with / early returns; loops may run zero times; raising paths are excluded) — directly or through a call to /
property store on another method of the same object that must-resets it."""
import ast
import os

from py2coq import t3


def own_writes(f):
    w, r = set(), set()
    for n in ast.walk(f):
        targets = []
        if isinstance(n, ast.Assign):
            targets = n.targets
        elif isinstance(n, (ast.AugAssign, ast.AnnAssign)):
            targets = [n.target]
        for t in targets:
            for x in ast.walk(t):
                base = x
                # self.attr = ... / self.attr[i].y = ... / self.attr[i] = ...
                while isinstance(base, (ast.Subscript, ast.Attribute)) and not (
                        isinstance(base, ast.Attribute) and isinstance(base.value, ast.Name) and base.value.id == "self"):
                    base = base.value
                if isinstance(base, ast.Attribute) and isinstance(base.value, ast.Name) and base.value.id == "self" \
                        and isinstance(x, (ast.Attribute, ast.Subscript)) and isinstance(getattr(x, "ctx", None), ast.Store):
                    w.add(base.attr)
                    if x is base and isinstance(n, ast.Assign) and isinstance(n.value, ast.Constant) and n.value.value is None:
                        r.add(base.attr)
        if isinstance(n, ast.Call) and ast.unparse(n.func).endswith(".__setattr__") and "super(" in ast.unparse(n.func):
            w.add("<frame-attr>")
    return w, r


def _is_reset(stmt):
    """attributes assigned the constant None by this simple statement"""
    out = set()
    if isinstance(stmt, ast.Assign) and isinstance(stmt.value, ast.Constant) and stmt.value.value is None:
        for t in stmt.targets:
            if isinstance(t, ast.Attribute) and isinstance(t.value, ast.Name) and t.value.id == "self":
                out.add(t.attr)
    return out


def _calls(stmt, names, meths):
    """methods of the same object that this statement certainly calls / property-stores (not inside a lambda or comprehension
    condition: ast.walk over the statement's own expressions only — nested statements are handled by the block analysis)"""
    d = set()
    exprs = [c for c in ast.iter_child_nodes(stmt) if isinstance(c, ast.expr)]
    for e in exprs:
        for n in ast.walk(e):
            if isinstance(n, (ast.Lambda, ast.IfExp, ast.BoolOp, ast.ListComp, ast.GeneratorExp, ast.DictComp, ast.SetComp)):
                continue
            if isinstance(n, ast.Attribute) and isinstance(n.value, ast.Name) and n.value.id == "self" and n.attr in names:
                if isinstance(n.ctx, ast.Store):
                    if n.attr + "__set" in meths:
                        d.add(n.attr + "__set")
                elif isinstance(n.ctx, ast.Load):
                    d.add(n.attr)
    # conservative: anything under a conditional expression does not count
    cond = set()
    for e in exprs:
        for n in ast.walk(e):
            if isinstance(n, (ast.Lambda, ast.IfExp, ast.BoolOp, ast.ListComp, ast.GeneratorExp, ast.DictComp, ast.SetComp)):
                for m in ast.walk(n):
                    if isinstance(m, ast.Attribute) and isinstance(m.value, ast.Name) and m.value.id == "self":
                        cond.add(m.attr)
                        cond.add(m.attr + "__set")
    return d - cond


def must_resets(f, M, names, meths):
    """set of attributes reset on every normally returning path of f, given M[m] for the other methods"""
    exits = []

    def block(stmts, cur):
        """returns the set at fall-through, or None if the block cannot fall through"""
        for s in stmts:
            if isinstance(s, ast.Return):
                exits.append(set(cur))
                return None
            if isinstance(s, ast.Raise):
                return None
            if isinstance(s, ast.If):
                a = block(s.body, set(cur))
                b = block(s.orelse, set(cur))
                if a is None and b is None:
                    return None
                cur = (a & b) if (a is not None and b is not None) else (a if a is not None else b)
            elif isinstance(s, (ast.With, ast.AsyncWith)):
                r = block(s.body, set(cur))
                if r is None:
                    return None
                cur = r
            elif isinstance(s, ast.Try):
                a = block(s.body, set(cur))
                outs = [a] if a is not None else []
                for h in s.handlers:
                    hb = block(h.body, set(cur))          # the try body may have raised before any reset
                    if hb is not None:
                        outs.append(hb)
                if s.orelse and a is not None:
                    o = block(s.orelse, set(a))
                    outs = [x for x in outs if x is not a] + ([o] if o is not None else [])
                if not outs:
                    cur = None
                else:
                    cur = set.intersection(*[set(x) for x in outs])
                if s.finalbody:
                    fb = block(s.finalbody, set(cur) if cur is not None else set())
                    if cur is None or fb is None:
                        return None
                    cur = fb
                if cur is None:
                    return None
            elif isinstance(s, (ast.For, ast.While, ast.AsyncFor)):
                block(s.body, set(cur))        # only to collect early returns inside the loop (with the pre-loop set)
                block(s.orelse, set(cur))
            else:
                cur |= _is_reset(s)
                for m in _calls(s, names, meths):
                    cur |= M.get(m, set())
        return cur

    end = block(f.body, set())
    if end is not None:
        exits.append(end)
    return set.intersection(*exits) if exits else set()


def gen(repo):
    tree = ast.parse(open(os.path.join(repo, "gwcs", "wcs.py")).read())
    api = ast.parse(open(os.path.join(repo, "gwcs", "api.py")).read())
    meths = t3.functions_of(tree, "WCS")
    meths.update({k: v for k, v in t3.functions_of(api, "GWCSAPIMixin").items() if k not in meths})
    W, R, deps = {}, {}, {}
    names = {m[:-5] if m.endswith("__set") else m for m in meths}
    for m, f in meths.items():
        W[m], R[m] = own_writes(f)
        d = set()
        for n in ast.walk(f):
            if isinstance(n, ast.Attribute) and isinstance(n.value, ast.Name) and n.value.id == "self" and n.attr in names:
                if isinstance(n.ctx, ast.Store):
                    if n.attr + "__set" in meths:
                        d.add(n.attr + "__set")
                else:
                    d.add(n.attr)
            if isinstance(n, ast.Call) and isinstance(n.func, ast.Name) and n.func.id == "self":
                d.add("__call__")
        deps[m] = d - {m}
    changed = True
    while changed:
        changed = False
        for m in meths:
            for d in deps[m]:
                if d in W:
                    if not W[d] <= W[m]:
                        W[m] |= W[d]
                        changed = True

    # resets: must-analysis, iterated to a fixpoint over calls between methods
    R = {m: set() for m in meths}
    changed = True
    while changed:
        changed = False
        for m, f in meths.items():
            r = must_resets(f, {k: v for k, v in R.items() if k != m}, names, meths)
            if r != R[m]:
                R[m] = r
                changed = True

    def tab(T):
        return "[" + "; ".join('("%s", [%s])' % (m, "; ".join('"%s"' % a for a in sorted(T[m]))) for m in sorted(T)) + "]"
    src = ("(* GENERATED by tools/py2coq/gen_writes.py — do not edit. *)\nFrom Coq Require Import List String.\n"
           "Import ListNotations.\nLocal Open Scope string_scope.\n"
           f"Definition writes : list (string * list string) := {tab(W)}.\n"
           f"Definition resets : list (string * list string) := {tab(R)}.\n")
    return src, W, R


EDITS = ["set_transform", "insert_transform", "insert_frame", "bounding_box__set"]
QUERIES = ["__call__", "invert", "numerical_inverse", "in_image", "footprint", "transform", "get_transform",
           "to_fits_sip", "to_fits_tab", "to_fits", "forward_transform", "backward_transform", "available_frames",
           "bounding_box", "pixel_to_world_values", "world_to_pixel_values", "array_index_to_world_values",
           "world_to_array_index_values", "pixel_to_world", "world_to_pixel", "world_to_array_index",
           "pixel_bounds", "array_shape", "pixel_shape", "pixel_n_dim", "world_n_dim", "axis_correlation_matrix",
           "world_axis_physical_types", "world_axis_units", "__str__", "__repr__", "input_frame", "output_frame", "unit", "name"]

if __name__ == "__main__":
    s, W, R = gen("/repo")
    for m in EDITS:
        print(m, sorted(W[m]), sorted(R[m]))
    for q in QUERIES:
        print(q, sorted(W.get(q, ["?"])))
