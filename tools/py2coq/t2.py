"""py2coq T2 — fail-closed translator: straight-line Python methods  ->  typed Gallina
(error monad `res`, primitives from GW.Base.Py).  Anything outside the subset raises
Unsupported; nothing is guessed.  Typing is left to Coq: an ill-typed output fails to compile.

Usage:  translate_methods(path, classname, [method names], cfg) -> Coq source text
"""
import ast


class Unsupported(Exception):
    pass


ERRS = {"CoordinateFrameError", "ValueError", "TypeError", "NotImplementedError", "IndexError", "KeyError"}
PURE_ATTR = {"frame": "step_frame", "transform": "step_transform", "name": "attr_name"}
MON_ATTR = {"inverse": "attr_inverse"}


def v(name):
    return "v_" + name


class Tr:
    def __init__(self, cfg):
        self.cfg = cfg          # per-function configuration
        self.n = 0

    def fresh(self, hint="t"):
        self.n += 1
        return f"{hint}_{self.n}"

    # ---------------- expressions: returns (binds, term) -------------------
    def expr(self, e):
        m = getattr(self, "e_" + type(e).__name__, None)
        if m is None:
            raise Unsupported(f"expression {type(e).__name__} at line {getattr(e, 'lineno', '?')}")
        return m(e)

    def pure(self, e):
        b, t = self.expr(e)
        if b:
            raise Unsupported(f"expected a pure expression at line {e.lineno}")
        return t

    def atom(self, binds, term, hint="t"):
        """name a monadic term: returns the variable holding its value"""
        x = self.fresh(hint)
        binds.append((x, term))
        return x

    def e_Name(self, e):
        if e.id == "self":
            return [], "self"
        return [], v(e.id)

    def e_Constant(self, e):
        if e.value is None:
            return [], "None"
        if isinstance(e.value, bool):
            return [], "true" if e.value else "false"
        if isinstance(e.value, int):
            return [], f"({e.value})%Z"
        raise Unsupported(f"constant {e.value!r}")

    def e_Attribute(self, e):
        path = ast.unparse(e)
        if path in self.cfg.get("attr_paths", {}):
            return [], self.cfg["attr_paths"][path]
        if isinstance(e.value, ast.Name) and e.value.id == "self":
            if e.attr == "_pipeline" or e.attr == "pipeline":
                return [], "(pipeline self)"
            if e.attr in self.cfg.get("properties", {}):
                b = []
                x = self.atom(b, f"{self.cfg['properties'][e.attr]} self", e.attr)
                return b, x
            if e.attr in self.cfg.get("missing_attrs", ()):
                b = []
                x = self.atom(b, "Err OtherError", "missing")
                return b, x
            raise Unsupported(f"self.{e.attr}")
        b, t = self.expr(e.value)
        if e.attr in PURE_ATTR:
            return b, f"({PURE_ATTR[e.attr]} {t})"
        if e.attr in MON_ATTR:
            x = self.atom(b, f"{MON_ATTR[e.attr]} {t}", e.attr)
            return b, x
        raise Unsupported(f"attribute .{e.attr}")

    def e_IfExp(self, e):
        return [], f"(if {self.pure(e.test)} then {self.pure(e.body)} else {self.pure(e.orelse)})"

    def e_UnaryOp(self, e):
        if isinstance(e.op, ast.Not):
            t = self.pure(e.operand)
            if t == "(pipeline self)":
                return [], f"(negb (truthy_list {t}))"
            return [], f"(negb {t})"
        if isinstance(e.op, ast.USub) and isinstance(e.operand, ast.Constant):
            return [], f"(-{e.operand.value})%Z"
        raise Unsupported("unary op")

    def is_listy(self, e):
        return (isinstance(e, (ast.List, ast.ListComp)) or
                (isinstance(e, ast.Subscript) and isinstance(e.slice, ast.Slice)) or
                (isinstance(e, ast.BinOp) and isinstance(e.op, ast.Add) and (self.is_listy(e.left) or self.is_listy(e.right))))

    def int_operand(self, e, b):
        """an int-valued operand; optional variables are unwrapped (None -> TypeError, as in Python)"""
        be, t = self.expr(e)
        b += be
        if isinstance(e, ast.Name) and e.id in self.cfg.get("optional_vars", ()):
            t = self.atom(b, f"unwrap_int {t}", "int")
        return t

    def e_BinOp(self, e):
        if isinstance(e.op, (ast.Add, ast.Sub)) and not (self.is_listy(e.left) or self.is_listy(e.right)):
            b = []
            l = self.int_operand(e.left, b)
            r = self.int_operand(e.right, b)
            return b, f"({l} {'+' if isinstance(e.op, ast.Add) else '-'} {r})%Z"
        bl, l = self.expr(e.left)
        br, r = self.expr(e.right)
        b = bl + br
        if isinstance(e.op, ast.BitOr):
            x = self.atom(b, f"py_or {l} {r}", "or")
            return b, x
        if isinstance(e.op, ast.Add):
            if self.is_listy(e.left) or self.is_listy(e.right):
                return b, f"({l} ++ {r})"
            return b, f"({l} + {r})%Z"
        if isinstance(e.op, ast.Sub):
            return b, f"({l} - {r})%Z"
        raise Unsupported("binary op " + type(e.op).__name__)

    def e_Compare(self, e):
        if len(e.ops) != 1:
            raise Unsupported("chained comparison")
        op, rhs = e.ops[0], e.comparators[0]
        if isinstance(op, (ast.Is, ast.IsNot)) and isinstance(rhs, ast.Constant) and rhs.value is None:
            t = self.pure(e.left)
            s = f"(match {t} with None => true | Some _ => false end)"
            return [], s if isinstance(op, ast.Is) else f"(negb {s})"
        bl, l = self.expr(e.left)
        br, r = self.expr(rhs)
        b = bl + br
        kind = self.cfg.get("compare", {}).get(e.lineno_rel if hasattr(e, "lineno_rel") else None, "Z")
        names = {n.id for n in ast.walk(e) if isinstance(n, ast.Name)}
        if names & set(self.cfg.get("fref_vars", ())):
            kind = "fref"
        if kind == "fref":
            tab = {ast.Eq: "fref_eqb {0} {1}", ast.NotEq: "negb (fref_eqb {0} {1})"}
        else:
            tab = {ast.Lt: "({0} <? {1})%Z", ast.Eq: "({0} =? {1})%Z", ast.NotEq: "negb ({0} =? {1})%Z",
                   ast.Gt: "({1} <? {0})%Z", ast.LtE: "({0} <=? {1})%Z", ast.GtE: "({1} <=? {0})%Z"}
        if type(op) not in tab:
            raise Unsupported("comparison " + type(op).__name__)
        return b, "(" + tab[type(op)].format(l, r) + ")"

    def e_List(self, e):
        b, ts = [], []
        for x in e.elts:
            bx, tx = self.expr(x)
            b += bx
            ts.append(tx)
        return b, "[" + "; ".join(ts) + "]"

    def e_Tuple(self, e):
        b, ts = [], []
        for x in e.elts:
            bx, tx = self.expr(x)
            b += bx
            ts.append(tx)
        return b, "(" + ", ".join(ts) + ")"

    def e_ListComp(self, e):
        if len(e.generators) != 1 or e.generators[0].ifs or not isinstance(e.generators[0].target, ast.Name):
            raise Unsupported("list comprehension shape")
        g = e.generators[0]
        bi, it = self.expr(g.iter)
        var = v(g.target.id)
        sub = Tr(self.cfg)
        sub.n = self.n + 100
        be, te = sub.expr(e.elt)
        if not be:
            return bi, f"(map (fun {var} => {te}) {it})"
        body = wrap_binds(be, f"Ok {te}")
        x = self.atom(bi, f"mapM (fun {var} => {body}) {it}", "lc")
        return bi, x

    def e_Subscript(self, e):
        b, t = self.expr(e.value)
        s = e.slice
        if isinstance(s, ast.Slice):
            if s.step is not None:
                if (s.lower is None and s.upper is None and isinstance(s.step, ast.UnaryOp)
                        and isinstance(s.step.op, ast.USub) and getattr(s.step.operand, "value", None) == 1):
                    return b, f"(rev {t})"
                raise Unsupported("slice step")
            lo = self.slice_bound(s.lower, b)
            hi = self.slice_bound(s.upper, b)
            if lo is None and hi is None:
                return b, t
            if lo is None:
                return b, f"(py_slice_to{hi[1]} {t} {hi[0]})"
            if hi is None:
                return b, f"(py_slice_from{lo[1]} {t} {lo[0]})"
            return b, f"(py_slice {t} {lo[0]} {hi[0]})"
        i = self.int_operand(s, b)
        x = self.atom(b, f"py_getitem {t} {i}", "item")
        return b, x

    def slice_bound(self, e, b):
        if e is None:
            return None
        be, t = self.expr(e)
        b += be
        opt = isinstance(e, ast.Name) and e.id in self.cfg.get("optional_vars", ())
        return (t, "_opt" if opt else "")

    def e_Call(self, e):
        f = e.func
        # isinstance
        if isinstance(f, ast.Name) and f.id == "isinstance":
            t = self.pure(e.args[0])
            ty = ast.unparse(e.args[1])
            if ty == "str":
                return [], f"(is_str {t})"
            if ty.endswith("CoordinateFrame"):
                return [], f"(is_frame_obj {t})"
            raise Unsupported("isinstance " + ty)
        if isinstance(f, ast.Name) and f.id == "Step":
            b, ts = [], []
            for a in e.args:
                ba, ta = self.expr(a)
                b += ba
                ts.append(ta)
            if isinstance(e.args[0], ast.Name) and e.args[0].id in self.cfg.get("optional_vars", ()):
                x = self.atom(b, f"mk_step_opt {' '.join(ts)}", "step")   # Step(None, .) -> TypeError
                return b, x
            return b, f"(mk_step {' '.join(ts)})"
        if isinstance(f, ast.Name) and f.id == "fix_inputs":
            b, ts = [], []
            for a in e.args:
                ba, ta = self.expr(a)
                b += ba
                ts.append(ta)
            x = self.atom(b, f"py_fix_inputs {' '.join(ts)}", "fx")
            return b, x
        if isinstance(f, ast.Name) and f.id == "len" and len(e.args) == 1:
            b, t = self.expr(e.args[0])
            return b, f"(zlen {t})"
        if isinstance(f, ast.Name) and f.id == "tuple" and len(e.args) == 1:
            return self.expr(e.args[0])
        if ast.unparse(f) in self.cfg.get("functions", {}):
            b, ts = [], []
            for a in e.args:
                ba, ta = self.expr(a)
                b += ba
                ts.append(ta)
            return b, f"({self.cfg['functions'][ast.unparse(f)]} {' '.join(ts)})"
        if ast.unparse(f) == "functools.reduce":
            lam = ast.unparse(e.args[0]).replace(" ", "")
            if lam != "lambdax,y:x|y":
                raise Unsupported("reduce with " + lam)
            b, t = self.expr(e.args[1])
            x = self.atom(b, f"reduce_pipe {t}", "red")
            return b, x
        if isinstance(f, ast.Attribute):
            # self.method(...)
            if isinstance(f.value, ast.Name) and f.value.id == "self":
                kws = ",".join(f"{k.arg}={ast.unparse(k.value)}" for k in e.keywords)
                meth = self.cfg.get("methods", {}).get(f.attr + ("(" + kws + ")" if kws else ""))
                if meth is None:
                    raise Unsupported("self." + f.attr + ("(" + kws + ")" if kws else ""))
                b, ts = [], []
                for a in e.args:
                    ba, ta = self.expr(a.value if isinstance(a, ast.Starred) else a)
                    b += ba
                    ts.append(ta)
                call = f"{meth['coq']} self {' '.join(ts)}"
                if meth.get("pure"):
                    return b, f"({call})"
                x = self.atom(b, call, f.attr.strip("_"))
                return b, x
            if f.attr == "index":
                b, t = self.expr(f.value)
                ba, a = self.expr(e.args[0])
                b += ba
                x = self.atom(b, f"py_index_fref {t} {a}", "idx")
                return b, x
            if f.attr == "count" and len(e.args) == 1 and isinstance(e.args[0], ast.Constant) and e.args[0].value is None:
                b, t = self.expr(f.value)
                return b, f"(count_none {t})"
        raise Unsupported("call " + ast.unparse(f))

    # ---------------- statements ---------------------------------------------
    @property
    def mut(self):
        return bool(self.cfg.get("mutator"))

    def wb(self, binds, term):
        return wrap_binds(binds, term, "doS" if self.mut else "do")

    def block(self, stmts, ret):
        """translate a statement list into a term of type res T (or mres for mutators);
        `ret` = term returned at fall-through"""
        if not stmts:
            return ret
        s, rest = stmts[0], stmts[1:]
        if isinstance(s, ast.Expr) and isinstance(s.value, ast.Constant) and isinstance(s.value.value, str):
            return self.block(rest, ret)
        if isinstance(s, ast.Return):
            if s.value is None or (isinstance(s.value, ast.Constant) and s.value.value is None):
                return self.cfg.get("return_none", "MOk self" if self.mut else "Ok None")
            b, t = self.expr(s.value)
            return self.wb(b, self.cfg.get("return_wrap", "Ok {0}").format(t))
        if isinstance(s, ast.Raise):
            return ("MErr self " if self.mut else "Err ") + self.exc_name(s.exc)
        if (isinstance(s, ast.If) and isinstance(s.test, ast.Compare) and len(s.test.ops) == 1
                and isinstance(s.test.ops[0], ast.Is) and isinstance(s.test.comparators[0], ast.Constant)
                and s.test.comparators[0].value is None
                and (ast.unparse(s.test.left) in self.cfg.get("attr_paths", {}) or
                     (isinstance(s.test.left, ast.Name) and s.test.left.id in self.cfg.get("unwrap_args", ())))):
            # `if X is None: A else: B` on an optional value: B sees the unwrapped value
            left = s.test.left
            t = self.pure(left)
            thn = self.block(s.body + ([] if ends(s.body) else rest), ret)
            if isinstance(left, ast.Name):
                u = v(left.id)
                els = self.block(s.orelse + ([] if (s.orelse and ends(s.orelse)) else rest), ret)
            else:
                u = self.fresh("some")
                path = ast.unparse(left)
                old = self.cfg["attr_paths"]
                self.cfg = dict(self.cfg, attr_paths=dict(old, **{path: u}))
                els = self.block(s.orelse + ([] if (s.orelse and ends(s.orelse)) else rest), ret)
                self.cfg = dict(self.cfg, attr_paths=old)
            return f"(match {t} with None => {thn} | Some {u} => {els} end)"
        if isinstance(s, ast.If):
            b, t = self.expr(s.test)
            if t == "(pipeline self)":
                t = "(truthy_list (pipeline self))"
            thn = self.block(s.body + ([] if ends(s.body) else rest), ret)
            els = self.block(s.orelse + ([] if (s.orelse and ends(s.orelse)) else rest), ret)
            return self.wb(b, f"(if {t} then {thn} else {els})")
        if isinstance(s, ast.Assign) and len(s.targets) == 1:
            tgt = s.targets[0]
            if isinstance(tgt, ast.Name):
                b, t = self.assign_rhs(tgt.id, s.value)
                return self.wb(b, f"let {v(tgt.id)} := {t} in {self.block(rest, ret)}")
            if isinstance(tgt, ast.Tuple) and all(isinstance(x, ast.Name) for x in tgt.elts):
                b, t = self.expr(s.value)
                pat = ", ".join(v(x.id) for x in tgt.elts)
                return self.wb(b, f"let '({pat}) := {t} in {self.block(rest, ret)}")
            if isinstance(tgt, ast.Attribute) and ast.unparse(tgt) in self.cfg.get("attr_setters", {}):
                b, t = self.expr(s.value)
                if ast.unparse(tgt) in self.cfg.get("optional_attrs", ()) and t != "None":
                    t = f"(Some {t})"
                return self.wb(b, f"let self := {self.cfg['attr_setters'][ast.unparse(tgt)]} self {t} in {self.block(rest, ret)}")
            if isinstance(tgt, ast.Attribute) and ast.unparse(tgt) == "self._pipeline":
                b, t = self.expr(s.value)
                return self.wb(b, f"let self := set_pipeline self {t} in {self.block(rest, ret)}")
            if (isinstance(tgt, ast.Attribute) and tgt.attr == "transform" and isinstance(tgt.value, ast.Subscript)
                    and ast.unparse(tgt.value.value) == "self._pipeline"):
                bi, i = self.expr(tgt.value.slice)
                bv, val = self.expr(s.value)
                b = bi + bv
                st = self.atom(b, f"py_getitem (pipeline self) {i}", "st")
                pl = self.atom(b, f"py_setitem (pipeline self) {i} (set_step_transform {st} {val})", "pl")
                return self.wb(b, f"let self := set_pipeline self {pl} in {self.block(rest, ret)}")
        if isinstance(s, ast.Expr) and isinstance(s.value, ast.Call):
            c = s.value
            if ast.unparse(c.func).endswith(".__setattr__") and "super(" in ast.unparse(c.func):
                b1, a1 = self.expr(c.args[0])
                b2, a2 = self.expr(c.args[1])
                return self.wb(b1 + b2, f"let self := setattr self {a1} {a2} in {self.block(rest, ret)}")
        if isinstance(s, ast.Try) and not s.finalbody and not s.orelse and len(s.handlers) == 1:
            return self.try_stmt(s, rest, ret)
        raise Unsupported(f"statement {type(s).__name__} at line {s.lineno}: {ast.unparse(s)[:80]}")

    def assign_rhs(self, name, value):
        b, t = self.expr(value)
        if name in self.cfg.get("optional_vars", ()) and t != "None":
            t = f"(Some {t})"
        return b, t

    def exc_name(self, exc):
        n = exc.func.id if isinstance(exc, ast.Call) else exc.id
        if n not in ERRS:
            raise Unsupported("exception " + n)
        return n

    def handler_types(self, h):
        t = h.type
        names = [x.id for x in t.elts] if isinstance(t, ast.Tuple) else [t.id]
        for n in names:
            if n not in ERRS:
                raise Unsupported("except " + n)
        return names

    def try_stmt(self, s, rest, ret):
        h = s.handlers[0]
        names = self.handler_types(h)
        if self.mut:
            sub = Tr(dict(self.cfg, mutator=False))
            sub.n = self.n + 1000
            self.n += 50
            inner = sub.try_stmt(s, [], None)
            # inner has the shape "do x <- catch ... ; <rest>" — rebuild with the state-carrying bind
            assert inner.startswith("do ") and inner.endswith("; None")
            var, m = inner[3:-len("; None")].split(" <- ", 1)
            return f"(match {m} with Ok {var} => {self.block(rest, ret)} | Err e__ => MErr self e__ end)"
        catch = f"catch{'2' if len(names) == 2 else ''}"
        body = s.body
        # try: return X  except E: raise E2
        if len(body) == 1 and isinstance(body[0], ast.Return):
            inner = self.block(body, ret)
            handler = self.block(h.body, ret)
            return f"{catch} ({inner}) {' '.join(names)} ({handler})"
        # try: x = M  except E: <handler assigning x / raising>
        if len(body) == 1 and isinstance(body[0], ast.Assign) and isinstance(body[0].targets[0], ast.Name):
            x = body[0].targets[0].id
            b, t = self.assign_rhs(x, body[0].value)
            inner = wrap_binds(b, f"Ok {t}")
            # handler: block whose fall-through value is the handler's binding of x
            hb = list(h.body)
            hval = None
            if hb and isinstance(hb[0], ast.Assign) and isinstance(hb[0].targets[0], ast.Name) and hb[0].targets[0].id == x:
                _, hval = self.assign_rhs(x, hb[0].value)
                hb = hb[1:]
                handler = f"let {v(x)} := {hval} in " + self.block(hb, f"Ok {v(x)}")
            else:
                handler = self.block(hb, "Err OtherError")
            return f"do {v(x)} <- {catch} ({inner}) {' '.join(names)} ({handler}); {self.block(rest, ret)}"
        # try: <expression evaluated for its exception only>  except E: x.attr = ...   (not supported)
        raise Unsupported(f"try statement shape at line {s.lineno}")


def ends(stmts):
    return bool(stmts) and isinstance(stmts[-1], (ast.Return, ast.Raise))


def wrap_binds(binds, term, do="do"):
    out = term
    for x, m in reversed(binds):
        if do == "doS":
            out = f"(match {m} with Ok {x} => {out} | Err e__ => MErr self e__ end)"
        else:
            out = f"(do {x} <- {m}; {out})"
    return out


def find_method(tree, classname, name, setter=False):
    for node in tree.body:
        if isinstance(node, ast.ClassDef) and node.name == classname:
            for f in node.body:
                if isinstance(f, ast.FunctionDef) and f.name == name:
                    is_setter = any(ast.unparse(d).endswith(".setter") for d in f.decorator_list)
                    if is_setter == setter:
                        return f
    raise Unsupported(f"{classname}.{name} not found")


def translate_method(tree, classname, name, cfg):
    f = find_method(tree, classname, name, cfg.get("setter", False))
    tr = Tr(cfg)
    args = [a.arg for a in f.args.args if a.arg != "self"]
    if f.args.vararg is not None:
        args.append(f.args.vararg.arg)
    if f.args.kwarg is not None or f.args.kwonlyargs:
        raise Unsupported(f"{name}: keyword parameters")
    sig = " ".join(f"({v(a)} : {cfg.get('arg_types', {}).get(a, '_')})" for a in args)
    body = tr.block(f.body, cfg.get("fallthrough", "MOk self" if cfg.get("mutator") else "Ok self"))
    st = cfg.get("self_type", "wcs")
    rt = f"mresT {st}" if cfg.get("mutator") else f"res ({cfg['ret_type']})"
    return f"Definition {cfg['coq']} (self : {st}) {sig} : {rt} :=\n  {body}.\n"
