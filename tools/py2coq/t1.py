"""py2coq T1 — arithmetic `evaluate` bodies of astropy models  ->
     (a) array IR term (GW.C06.IR.ir)  (b) Coq real-number definition  (c) a Python closure over numpy
   from one walk of the AST.  Fail-closed.  Unit (Quantity) branches are resolved for plain inputs:
   `isinstance(x, u.Quantity)` is False, `nquant` is 0."""
import ast
from fractions import Fraction
from decimal import Decimal


class Unsupported(Exception):
    pass


UN = {"np.sqrt": "sqrt", "np.cos": "cos", "np.sin": "sin", "np.deg2rad": "deg2rad", "np.rad2deg": "rad2deg",
      "np.isfinite": "isfinite", "np.abs": "abs"}
BIN = {"np.arctan2": "atan2", "np.hypot": "hypot"}
BINOP = {ast.Add: "add", ast.Sub: "sub", ast.Mult: "mul", ast.Div: "div"}
R_UN = {"sqrt": "sqrt", "cos": "cos", "sin": "sin", "deg2rad": "deg2rad", "rad2deg": "rad2deg", "neg": "Ropp",
        "isfinite": "r_isfinite", "abs": "Rabs"}
R_BIN = {"add": "Rplus", "sub": "Rminus", "mul": "Rmult", "div": "Rdiv", "atan2": "atan2", "hypot": "hypot",
         "mod": "fmod", "eq": "r_eq"}
PY_UN = {"sqrt": "np.sqrt", "cos": "np.cos", "sin": "np.sin", "deg2rad": "np.deg2rad", "rad2deg": "np.rad2deg",
         "neg": "np.negative", "isfinite": "np.isfinite", "abs": "np.abs"}
PY_BIN = {"add": "np.add", "sub": "np.subtract", "mul": "np.multiply", "div": "np.divide", "atan2": "np.arctan2",
          "hypot": "np.hypot", "mod": "np.mod", "eq": "np.equal"}


class Node:
    """expression node: ('var', i) ('par', name, idx) ('cst', Fraction, pyrepr) ('un', op, a) ('bin', op, a, b)
       ('where', c, a, b) ('index0', a) ('selfattr', name)"""

    def __init__(self, *t):
        self.t = t

    def ir(self):
        k = self.t[0]
        if k == "var":
            return f"(IVar {self.t[1]})"
        if k == "par":
            return f'(IPar "{self.t[1]}" {self.t[2]})'
        if k == "cst":
            f = self.t[1]
            return f"(ICst ({f.numerator})%Z ({f.denominator})%Z)"
        if k == "un":
            return f'(IUn "{self.t[1]}" {self.t[2].ir()})'
        if k == "bin":
            if self.t[1] == "pow":
                return f'(IBin "pow" {self.t[2].ir()} (ICst ({self.t[3]})%Z 1%Z))'
            return f'(IBin "{self.t[1]}" {self.t[2].ir()} {self.t[3].ir()})'
        if k == "where":
            return f"(IWhere {self.t[1].ir()} {self.t[2].ir()} {self.t[3].ir()})"
        if k == "index0":
            return f"(IIndex0 {self.t[1].ir()})"
        raise Unsupported(k)

    def real(self, inputs):
        k = self.t[0]
        if k == "var":
            return inputs[self.t[1]]
        if k == "par":
            return f"(p_{self.t[1]}_{self.t[2]})"
        if k == "cst":
            f = self.t[1]
            return f"(IZR ({f.numerator}) / IZR ({f.denominator}))" if f.denominator != 1 else f"(IZR ({f.numerator}))"
        if k == "un":
            return f"({R_UN[self.t[1]]} {self.t[2].real(inputs)})"
        if k == "bin":
            if self.t[1] == "pow":
                return f"({self.t[2].real(inputs)} ^ {self.t[3]})"
            return f"({R_BIN[self.t[1]]} {self.t[2].real(inputs)} {self.t[3].real(inputs)})"
        if k == "where":
            return f"(r_where {self.t[1].real(inputs)} {self.t[2].real(inputs)} {self.t[3].real(inputs)})"
        if k == "index0":
            return self.t[1].real(inputs)
        raise Unsupported(k)

    def py(self, inputs):
        k = self.t[0]
        if k == "var":
            return inputs[self.t[1]]
        if k == "par":
            return f"P['{self.t[1]}'][{self.t[2]}]"
        if k == "cst":
            return self.t[2]
        if k == "un":
            return f"{PY_UN[self.t[1]]}({self.t[2].py(inputs)})"
        if k == "bin":
            if self.t[1] == "pow":
                return f"({self.t[2].py(inputs)} ** {self.t[3]})"
            return f"{PY_BIN[self.t[1]]}({self.t[2].py(inputs)}, {self.t[3].py(inputs)})"
        if k == "where":
            return f"np.where({self.t[1].py(inputs)}, {self.t[2].py(inputs)}, {self.t[3].py(inputs)})"
        if k == "index0":
            return f"(np.atleast_1d({self.t[1].py(inputs)})[0] + 0 * {inputs[0]})"
        raise Unsupported(k)


def cst(value_src):
    d = Decimal(value_src)
    return Node("cst", Fraction(d), value_src)


class T1:
    def __init__(self, tree, classname, params, scalar_params=(), self_consts=None, static_calls=None):
        self.tree = tree
        self.cls = next(c for c in tree.body if isinstance(c, ast.ClassDef) and c.name == classname)
        self.f = next(f for f in self.cls.body if isinstance(f, ast.FunctionDef) and f.name == "evaluate")
        self.env = {}
        self.params = params            # evaluate argument names that are model parameters (vectors unless scalar_params)
        self.scalar_params = scalar_params
        self.self_consts = self_consts or {}
        self.static_calls = static_calls or {}
        args = [a.arg for a in self.f.args.args if a.arg != "self"]
        self.inputs = [a for a in args if a not in params]
        for i, a in enumerate(self.inputs):
            self.env[a] = Node("var", i)
        for p in params:
            if p in scalar_params:
                self.env[p] = Node("par", p, 0)

    def e(self, n):
        if isinstance(n, ast.Name):
            if n.id in self.env:
                return self.env[n.id]
            raise Unsupported("name " + n.id)
        if isinstance(n, ast.Constant) and isinstance(n.value, (int, float)) and not isinstance(n.value, bool):
            return cst(repr(n.value) if isinstance(n.value, float) else str(n.value))
        if isinstance(n, ast.UnaryOp) and isinstance(n.op, ast.USub):
            return Node("un", "neg", self.e(n.operand))
        if isinstance(n, ast.BinOp):
            if isinstance(n.op, ast.Pow):
                if isinstance(n.right, ast.Constant) and isinstance(n.right.value, int) and n.right.value >= 0:
                    return Node("bin", "pow", self.e(n.left), n.right.value)
                raise Unsupported("power")
            if type(n.op) in BINOP:
                if isinstance(n.op, ast.Mult) and ast.unparse(n.right) == "u.deg":
                    return self.e(n.left)
                return Node("bin", BINOP[type(n.op)], self.e(n.left), self.e(n.right))
        if isinstance(n, ast.IfExp):
            t = ast.unparse(n.test)
            if t == "nquant":
                return self.e(n.orelse)
            raise Unsupported("conditional expression on " + t)
        if isinstance(n, ast.Compare) and len(n.ops) == 1 and isinstance(n.ops[0], ast.Eq):
            return Node("bin", "eq", self.e(n.left), self.e(n.comparators[0]))
        if isinstance(n, ast.Subscript):
            if isinstance(n.slice, ast.Constant) and n.slice.value == 0:
                return Node("index0", self.e(n.value))
            raise Unsupported("subscript")
        if isinstance(n, ast.Call):
            name = ast.unparse(n.func)
            if name in UN and len(n.args) == 1 and not n.keywords:
                return Node("un", UN[name], self.e(n.args[0]))
            if name in BIN and len(n.args) == 2 and not n.keywords:
                return Node("bin", BIN[name], self.e(n.args[0]), self.e(n.args[1]))
            if name == "np.mod" and len(n.args) == 2:
                kw = {k.arg: k.value for k in n.keywords}
                base = Node("bin", "mod", self.e(n.args[0]), self.e(n.args[1]))
                if set(kw) == {"where", "out"} and ast.unparse(kw["out"]) == ast.unparse(n.args[0]):
                    return Node("where", self.e(kw["where"]), base, self.e(n.args[0]))
                if not kw:
                    return base
            if name in self.static_calls:
                sub = self.static_calls[name]
                return sub(self, n.args)
            raise Unsupported("call " + name)
        raise Unsupported(type(n).__name__ + ": " + ast.unparse(n)[:60])

    def is_quantity_test(self, t):
        s = ast.unparse(t)
        return "isinstance" in s and "u.Quantity" in s

    def run(self, stmts=None):
        """returns list of output nodes"""
        for s in (self.f.body if stmts is None else stmts):
            r = self.stmt(s)
            if r is not None:
                return r
        return None

    def stmt(self, s):
        if isinstance(s, ast.Expr) and isinstance(s.value, ast.Constant):
            return None
        if isinstance(s, ast.Return):
            v = s.value
            elts = v.elts if isinstance(v, ast.Tuple) else [v]
            return [self.e(x) for x in elts]
        if isinstance(s, ast.Assign) and len(s.targets) == 1:
            t = s.targets[0]
            if isinstance(t, ast.Name):
                if t.id == "nquant":
                    return None
                self.env[t.id] = self.e(s.value)
                return None
            if isinstance(t, ast.Tuple) and isinstance(s.value, ast.Subscript) and isinstance(s.value.value, ast.Name) \
                    and s.value.value.id in self.params and ast.unparse(s.value.slice) == "0":
                p = s.value.value.id
                for i, x in enumerate(t.elts):
                    self.env[x.id] = Node("par", p, i)
                return None
        if isinstance(s, ast.AugAssign) and isinstance(s.target, ast.Name) and type(s.op) in BINOP:
            self.env[s.target.id] = Node("bin", BINOP[type(s.op)], self.env[s.target.id], self.e(s.value))
            return None
        if isinstance(s, ast.AugAssign) and isinstance(s.target, ast.Subscript) and isinstance(s.target.value, ast.Name) \
                and type(s.op) in BINOP:
            # x[mask] op= v   ->  x := where(mask, x op v, x)
            x = s.target.value.id
            mask = self.e(s.target.slice)
            self.env[x] = Node("where", mask, Node("bin", BINOP[type(s.op)], self.env[x], self.e(s.value)), self.env[x])
            return None
        if isinstance(s, ast.If):
            t = ast.unparse(s.test)
            if all(isinstance(b, ast.Raise) for b in s.body) and not s.orelse:
                return None                     # argument validation (type / shape) — not arithmetic
            if self.is_quantity_test(s.test):
                return self.run(s.orelse) if s.orelse else None
            if t in self.self_consts:
                # a branch on a configuration attribute of the model: both variants are generated by the caller
                taken = s.body if self.self_consts[t] else s.orelse
                return self.run(taken)
            raise Unsupported("if " + t)
        raise Unsupported(type(s).__name__ + ": " + ast.unparse(s)[:70])


def sellmeier_glass_call(tr, args):
    """SellmeierGlass.evaluate(lam, B_coef, C_coef) inlined"""
    sub = T1(tr.tree, "SellmeierGlass", ["B_coef", "C_coef"])
    sub.env["wavelength"] = tr.e(args[0])
    out = sub.run()
    return out[0]
