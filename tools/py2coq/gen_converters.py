"""Regenerates the field tables of the frame / WCS / step converters of gwcs/converters/wcs.py:
   write table (tree key <- frame attribute) and read table (constructor argument <- tree key) per converter class.
   The extractor follows variable bindings (a name rebound to the kwargs dict no longer denotes the tree) and is
   fail-closed on statement shapes it does not know."""
import ast
import os


class Unsupported(Exception):
    pass


def strip_doc(body):
    return [s for s in body if not (isinstance(s, ast.Expr) and isinstance(s.value, ast.Constant))]


def attr_of(expr, objname):
    """frame.attr | list(frame.attr) | tuple(frame.attr) | frame.attr.lower()  -> attr"""
    e = expr
    while True:
        if isinstance(e, ast.Call) and isinstance(e.func, ast.Name) and e.func.id in ("list", "tuple") and len(e.args) == 1:
            e = e.args[0]
        elif isinstance(e, ast.Call) and isinstance(e.func, ast.Attribute) and e.func.attr in ("lower", "upper") and not e.args:
            e = e.func.value
        else:
            break
    if isinstance(e, ast.Attribute) and isinstance(e.value, ast.Name) and e.value.id == objname:
        return e.attr
    raise Unsupported("value expression " + ast.unparse(expr))


def write_table(fn, base_tables, objname):
    """entries (key, attr, guard) of a to_yaml_tree-like function"""
    out = []
    nodevar = None

    def walk(stmts, guard):
        nonlocal nodevar
        for s in strip_doc(stmts):
            if isinstance(s, ast.ImportFrom):
                continue
            if isinstance(s, ast.Assign) and isinstance(s.targets[0], ast.Name) and isinstance(s.value, ast.Dict):
                nodevar = s.targets[0].id
                for k, v in zip(s.value.keys, s.value.values):
                    out.append((k.value, attr_of(v, objname), guard))
            elif (isinstance(s, ast.Assign) and isinstance(s.targets[0], ast.Name) and isinstance(s.value, ast.Call)
                  and ast.unparse(s.value.func) == "self._to_yaml_tree"):
                nodevar = s.targets[0].id
                out.extend(base_tables["_to_yaml_tree"])
            elif (isinstance(s, ast.Assign) and isinstance(s.targets[0], ast.Subscript) and isinstance(s.targets[0].value, ast.Name)
                  and s.targets[0].value.id == nodevar and isinstance(s.targets[0].slice, ast.Constant)):
                out.append((s.targets[0].slice.value, attr_of(s.value, objname), guard))
            elif isinstance(s, ast.If) and not s.orelse:
                t = ast.unparse(s.test)
                if t.startswith("type(") and " is " in t:
                    walk(s.body, "exact:" + t.split(" is ")[1])
                elif t.startswith(objname + ".") and (t.endswith("is not None") or "." in t):
                    walk(s.body, "present")
                else:
                    raise Unsupported("guard " + t)
            elif isinstance(s, ast.Return):
                if isinstance(s.value, ast.Dict):
                    for k, v in zip(s.value.keys, s.value.values):
                        out.append((k.value, attr_of(v, objname), guard))
                elif isinstance(s.value, ast.Name) and s.value.id == nodevar:
                    pass
                elif isinstance(s.value, ast.Call) and ast.unparse(s.value.func) == "self._to_yaml_tree":
                    out.extend(base_tables["_to_yaml_tree"])
                else:
                    raise Unsupported("return " + ast.unparse(s.value))
            else:
                raise Unsupported("statement in write path: " + ast.unparse(s)[:80])
    walk(fn.body, "always")
    return out


def read_table(fn, base_tables, treevar="node"):
    """entries (constructor arg, tree key) of a from_yaml_tree-like function; names are resolved under rebinding"""
    out = []
    binding = {treevar: "tree"}        # variable -> 'tree' | 'kwargs'

    def key_in(test):
        """'K' in X [and 'K2' in X]  -> (keys, X)"""
        parts = test.values if isinstance(test, ast.BoolOp) and isinstance(test.op, ast.And) else [test]
        keys, var = [], None
        for p in parts:
            if not (isinstance(p, ast.Compare) and isinstance(p.ops[0], ast.In) and isinstance(p.left, ast.Constant)
                    and isinstance(p.comparators[0], ast.Name)):
                raise Unsupported("test " + ast.unparse(test))
            keys.append(p.left.value)
            var = p.comparators[0].id
        return keys, var

    def src_key(expr):
        """node['k'] | tuple(node['k']) | node['k'].upper() | node.get('k', None) -> (var, key)"""
        e = expr
        while True:
            if isinstance(e, ast.Call) and isinstance(e.func, ast.Name) and e.func.id in ("tuple", "list") and len(e.args) == 1:
                e = e.args[0]
            elif isinstance(e, ast.Call) and isinstance(e.func, ast.Attribute) and e.func.attr in ("upper", "lower") and not e.args:
                e = e.func.value
            else:
                break
        if isinstance(e, ast.Subscript) and isinstance(e.value, ast.Name) and isinstance(e.slice, ast.Constant):
            return e.value.id, e.slice.value
        if (isinstance(e, ast.Call) and isinstance(e.func, ast.Attribute) and e.func.attr == "get" and isinstance(e.func.value, ast.Name)
                and isinstance(e.args[0], ast.Constant)):
            return e.func.value.id, e.args[0].value
        raise Unsupported("source expression " + ast.unparse(expr))

    def add(arg, var, key, cond_var=None):
        where = binding.get(var)
        if where == "tree" and (cond_var is None or binding.get(cond_var) == "tree"):
            out.append((arg, key))
        elif where == "kwargs":
            pass      # reads the kwargs dict itself: contributes nothing from the tree
        elif where is None:
            raise Unsupported("unknown variable " + var)

    def dict_entries(d, cond_var=None):
        for k, v in zip(d.keys, d.values):
            var, key = src_key(v)
            add(k.value, var, key, cond_var)

    def walk(stmts, cond_var=None):
        for s in strip_doc(stmts):
            if isinstance(s, ast.ImportFrom):
                continue
            if isinstance(s, ast.Assign) and isinstance(s.targets[0], ast.Name) and isinstance(s.value, ast.Dict):
                binding[s.targets[0].id] = "kwargs"
                dict_entries(s.value, cond_var)
            elif (isinstance(s, ast.Assign) and isinstance(s.targets[0], ast.Name) and isinstance(s.value, ast.Call)
                  and ast.unparse(s.value.func) == "self._from_yaml_tree"):
                argvar = s.value.args[0].id
                if binding.get(argvar) == "tree":
                    out.extend(base_tables["_from_yaml_tree"])
                binding[s.targets[0].id] = "kwargs"       # (possibly rebinding the tree variable itself)
            elif isinstance(s, ast.Assign) and isinstance(s.targets[0], ast.Name) and isinstance(s.value, ast.Subscript):
                var, key = src_key(s.value)
                binding[s.targets[0].id] = ("field", var, key)
            elif (isinstance(s, ast.Assign) and isinstance(s.targets[0], ast.Subscript) and isinstance(s.targets[0].value, ast.Name)
                  and isinstance(s.targets[0].slice, ast.Constant)):
                tgt = s.targets[0].value.id
                if binding.get(tgt) != "kwargs":
                    raise Unsupported("store into " + tgt)
                var, key = src_key(s.value)
                add(s.targets[0].slice.value, var, key, cond_var)
            elif (isinstance(s, ast.Expr) and isinstance(s.value, ast.Call) and isinstance(s.value.func, ast.Attribute)
                  and s.value.func.attr == "update" and isinstance(s.value.args[0], ast.Dict)):
                dict_entries(s.value.args[0], cond_var)
            elif isinstance(s, ast.If) and not s.orelse:
                if isinstance(s.test, ast.Compare) and ast.unparse(s.test).startswith("len("):
                    continue          # structural validation that only raises
                keys, var = key_in(s.test)
                walk(s.body, var)
            elif isinstance(s, ast.Assign) and isinstance(s.targets[0], ast.Name) and isinstance(s.value, ast.Call):
                # gwcsobj = WCS(node['steps'], name=node['name'])
                c = s.value
                for i, a in enumerate(c.args):
                    var, key = src_key(a)
                    add(f"arg{i}", var, key)
                for kw in c.keywords:
                    var, key = src_key(kw.value)
                    add(kw.arg, var, key)
                binding[s.targets[0].id] = "object"
            elif (isinstance(s, ast.Assign) and isinstance(s.targets[0], ast.Attribute) and isinstance(s.targets[0].value, ast.Name)
                  and binding.get(s.targets[0].value.id) == "object"):
                var, key = src_key(s.value)
                add(s.targets[0].attr, var, key, cond_var)
            elif isinstance(s, ast.Return):
                v = s.value
                if isinstance(v, ast.Call):
                    for i, a in enumerate(v.args):
                        if isinstance(a, ast.Name) and isinstance(binding.get(a.id), tuple):
                            _, var, key = binding[a.id]
                            add(f"arg{i}", var, key)
                        elif isinstance(a, ast.Name):
                            continue
                        else:
                            var, key = src_key(a)
                            add(f"arg{i}", var, key)
                    for kw in v.keywords:
                        if kw.arg is None:
                            continue            # **kwargs
                        var, key = src_key(kw.value)
                        add(kw.arg, var, key)
                elif isinstance(v, ast.Name):
                    pass
                else:
                    raise Unsupported("return " + ast.unparse(v))
            elif isinstance(s, ast.Raise):
                continue
            else:
                raise Unsupported("statement in read path: " + ast.unparse(s)[:80])
    walk(fn.body)
    return out


# which attribute of the object each positional / keyword constructor argument is (for WCS / Step / Composite)
ARGMAP = {"WCSConverter": {"arg0": "pipeline", "name": "name", "pixel_shape": "pixel_shape"},
          "StepConverter": {"frame": "frame", "transform": "transform"},
          "CompositeFrameConverter": {"arg0": "frames", "arg1": "name"}}

SPEC = {   # the fields C09 names, per converter
    "FrameConverter": ["name", "axes_type", "naxes", "axes_order", "axes_names", "unit", "axis_physical_types", "reference_frame"],
    "Frame2DConverter": ["name", "axes_order", "axes_names", "unit", "axis_physical_types"],
    "CelestialFrameConverter": ["name", "axes_order", "axes_names", "unit", "axis_physical_types", "reference_frame"],
    "SpectralFrameConverter": ["name", "axes_order", "axes_names", "unit", "axis_physical_types", "reference_frame", "reference_position"],
    "TemporalFrameConverter": ["name", "axes_order", "axes_names", "unit", "axis_physical_types", "reference_frame"],
    "CompositeFrameConverter": ["name", "frames"],
    "StepConverter": ["frame", "transform"],
    "WCSConverter": ["name", "pipeline", "pixel_shape"],
}
SPEC_KNOWN = {   # fields the property names but the schema-bound converter does not carry (known findings)
    "StokesFrameConverter": (["name", "axes_order"], ["axes_names", "axis_physical_types"]),
}


def gen(repo):
    tree = ast.parse(open(os.path.join(repo, "gwcs", "converters", "wcs.py")).read())
    classes = {c.name: c for c in tree.body if isinstance(c, ast.ClassDef)}
    base = classes["FrameConverter"]
    fns = {f.name: f for f in base.body if isinstance(f, ast.FunctionDef)}
    base_tables = {"_to_yaml_tree": write_table(fns["_to_yaml_tree"], {}, "frame"),
                   "_from_yaml_tree": read_table(fns["_from_yaml_tree"], {})}
    tables = {}
    for name, c in classes.items():
        if not name.endswith("Converter"):
            continue
        f = {x.name: x for x in c.body if isinstance(x, ast.FunctionDef)}
        inherits_frame = any(ast.unparse(b) == "FrameConverter" for b in c.bases)
        to_fn = f.get("to_yaml_tree") or (fns["to_yaml_tree"] if inherits_frame else None)
        from_fn = f.get("from_yaml_tree") or (fns["from_yaml_tree"] if inherits_frame else None)
        if to_fn is None or from_fn is None:
            raise Unsupported(name + " lacks to/from_yaml_tree")
        obj = to_fn.args.args[1].arg
        wt = write_table(to_fn, base_tables, obj)
        rt = read_table(from_fn, base_tables, from_fn.args.args[1].arg)
        amap = ARGMAP.get(name, {})
        rt = [(amap.get(a, a), k) for a, k in rt]
        tables[name] = (wt, rt)

    def tab(l):
        return "[" + "; ".join(f'("{a}", "{b}")' for a, b in l) + "]"
    src = ["(* GENERATED by tools/py2coq/gen_converters.py from gwcs/converters/wcs.py — do not edit. *)",
           "From Coq Require Import String List.", "Import ListNotations.", "Local Open Scope string_scope."]
    for name, (wt, rt) in tables.items():
        src.append(f"Definition wt_{name} : list (string * string) := {tab([(k, a) for k, a, g in wt])}.")
        src.append(f"Definition rt_{name} : list (string * string) := {tab(rt)}.")
    return "\n".join(src) + "\n", tables


if __name__ == "__main__":
    s, t = gen("/repo")
    for k, (wt, rt) in t.items():
        print(k, "\n   W", wt, "\n   R", rt)
